#!/usr/bin/env python3
"""Development aid: record a "fix:" commit of /repo in known_findings.json and in the defect table of
DESIGN.md §5, then regenerate the reference files that describe the tree.

  python3 tools/recordfix.py <property> <rule> <construct> <what failed> <disposition text>

The commit is /repo's HEAD.  (Arguments are taken from a JSON file when called as
`recordfix.py @file.json` with keys property, rule, construct, what, fix.)"""
import json
import os
import re
import subprocess
import sys

HERE = os.path.dirname(os.path.dirname(os.path.abspath(__file__)))


def main(argv):
    if len(argv) == 1 and argv[0].startswith("@"):
        d = json.load(open(argv[0][1:]))
        prop, rule, construct, what, fix = d["property"], d["rule"], d["construct"], d["what"], d["fix"]
    else:
        prop, rule, construct, what, fix = argv
    h = subprocess.check_output(["git", "-C", "/repo", "log", "--format=%h", "-1"]).decode().strip()
    if len(argv) == 1 and argv[0].startswith("@") and d.get("commit"):
        h = d["commit"]
    p = os.path.join(HERE, "known_findings.json")
    kf = json.load(open(p))
    kf["fixed"].append("fixed: property=%s %s %s %s: %s" % (prop, h, rule, construct, what))
    with open(p, "w") as fp:
        json.dump(kf, fp, indent=1)
        fp.write("\n")
    p = os.path.join(HERE, "DESIGN.md")
    s = open(p).read()
    rows = re.findall(r"^\| (\d+) \|", s, re.M)
    last = max(int(r) for r in rows)
    j = s.index("| %d |" % last)
    k = s.index("\n", j) + 1
    row = "| %d | %s | `%s` | %s | fix %s (%s) |\n" % (last + 1, rule, construct, what, h, fix)
    s = s[:k] + row + s[k:]
    s = re.sub(r"Rows 27–\d+ were found", "Rows 27–%d were found" % (last + 1), s)
    with open(p, "w") as fp:
        fp.write(s)
    for tool in ("mknames.py", "mkperiter.py"):
        subprocess.check_call([sys.executable, os.path.join(HERE, "tools", tool)], stdout=subprocess.DEVNULL)
    print("recorded row %d, commit %s" % (last + 1, h))


if __name__ == "__main__":
    main(sys.argv[1:])
