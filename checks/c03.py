"""C03 - the generated Python extension is call-equivalent to the wrapped
library.  Decided: table / template level necessary conditions."""
import ast
import re

from sa import pattern as pat, tables, templ, pyflow, interop, fmtfields
from sa.loader import AnalysisError, enclosing_function

EXPLANATION = (
    "(R1) for every typemap the C object written by its PyArg_Parse format unit has the size of the "
    "variable it is stored into (LP64 table); (R2) CPython C-API calls in templates are well typed "
    "with respect to the wrapper parameters (args: tuple, kwds: dict) and `if (X != NULL) f(Y)` "
    "one-liners use the tested object; (R3) parse_format units and parse_args counts agree in every "
    "py_statements entry, PY_build_format agrees with PY_build_arg; (R4) every PyErr_SetString/Format/"
    "NoMemory in a Python template is immediately followed by goto fail / return of the error value, "
    "exception classes are TypeError/ValueError family, entries containing goto fail set goto_fail; "
    "(R5) the result is placed first in the returned tuple, out arguments follow in declaration "
    "order; (R6) argument-count siblings: the count tested by the overload dispatcher and by the "
    "default-argument switch is the number of Python-visible arguments.")
NOT_DECIDED = "Run-time behaviour of the compiled extension for concrete argument values."

# PyArg_Parse format unit -> (C type written, size in bytes)
UNIT_SIZE = {"b": 1, "B": 1, "h": 2, "H": 2, "i": 4, "I": 4, "l": 8, "k": 8, "L": 8, "K": 8, "n": 8,
             "f": 4, "d": 8, "D": 16, "s": 8, "z": 8, "O": 8, "c": 1, "C": 4, "p": 4}
UNIT_ARGS = {"O!": 2, "O&": 2, "s#": 2, "z#": 2, "y#": 2, "es": 2, "et": 2}
INTEGER_UNITS = set("bBhHiIlkLKn")
FLOAT_UNITS = set("fd")


SIGNED_TO_UNSIGNED = {"h": "H", "i": "I", "l": "k", "L": "K"}


def rule_r1(repo, run, types):
    R = run.rule("C03.R1", "PyArg_Parse format unit writes exactly the size of the variable it is stored into")
    n = 0
    for name, t in sorted(types.types.items()):
        unit = t.get("PY_format")
        if unit in (None, "O"):
            continue
        target = t.get("py_ctype") or t.get("c_type")
        if t.get("base") == "string":
            target = "char *"
        size = interop.C_SIZE.get(str(target))
        n += 1
        construct = "typemap[%s].PY_format" % name
        if unit not in UNIT_SIZE:
            run.check(R, construct, False, "unknown PyArg_Parse format unit %r" % unit, types.loc(name))
            continue
        if size is None:
            run.check(R, construct, False, "size of %r unknown to the checker" % target, types.loc(name))
            continue
        run.check(R, construct, UNIT_SIZE[unit] == size,
                  "format unit %r stores %d bytes but the variable of type %s has %d: "
                  "PyArg_ParseTupleAndKeywords writes past the variable" % (unit, UNIT_SIZE[unit], target, size),
                  types.loc(name), sample=dict(type=name, unit=unit, c_type=str(target), bytes=size))
        # numeric family agreement
        ctype = str(t.get("c_type"))
        if unit in INTEGER_UNITS and ("float" in ctype or "double" in ctype):
            run.fail(R, construct + ":family", "integer unit %r for floating type %s" % (unit, ctype), types.loc(name))
        if unit in FLOAT_UNITS and not ("float" in ctype or "double" in ctype):
            run.fail(R, construct + ":family", "floating unit %r for type %s" % (unit, ctype), types.loc(name))
        # signedness: the signed units range-check against the signed type (OverflowError for the upper half of an
        # unsigned type); the unsigned units of the same size do not
        ctype_ = str(t.get("c_type"))
        unsigned = ctype_.startswith("unsigned") or re.match(r"uint\d+_t$", ctype_) is not None
        if unsigned and unit in SIGNED_TO_UNSIGNED:
            run.fail(R, construct + ":signedness", "the unsigned type %s is parsed with the signed unit %r: values above the signed maximum "
                     "(40000 for an unsigned short) raise OverflowError although the library accepts them; the unsigned unit of that "
                     "size is %r" % (ctype_, unit, SIGNED_TO_UNSIGNED[unit]), types.loc(name))
        else:
            run.ok(R, construct + ":signedness")
        # ... and on the way back: a constructor that takes a signed long cannot carry the upper half of an unsigned type
        # that is as wide as long (or wider)
        ctor = str(t.get("PY_ctor") or "")
        if unsigned and size is not None and size >= interop.C_SIZE.get("long", 8):
            run.check(R, "typemap[%s].PY_ctor:signedness" % name, not re.search(r"\bPy(Int|Long)_FromLong\b", ctor),
                      "the result object of the unsigned type %s (%d bytes) is made with `%s`, which takes a signed long: values "
                      "above LONG_MAX come back negative" % (ctype_, size, ctor.split("(")[0]), types.loc(name))
    run.floor(R, "typemaps with a PyArg_Parse unit", n, 20)


# C-API signature table: function -> list of parameter kinds
API = {
    "PyTuple_Size": ["tuple"], "PyTuple_GET_SIZE": ["tuple"], "PyTuple_GetItem": ["tuple", None],
    "PyDict_Size": ["dict"], "PyDict_GetItemString": ["dict", None], "PyDict_GetItem": ["dict", None],
}
PARAM_KIND = {"args": "tuple", "kwds": "dict", "{PY_param_args}": "tuple", "{PY_param_kwds}": "dict"}


def _python_templates(repo, T):
    """(construct, text, loc) for every Python-side template: py_statements clauses, python helper
    sources, inline templates of wrapp.py."""
    out = []
    t = T["py"]
    for e in t.entries:
        for key, v in e.items():
            if key in ("name", "base"):
                continue
            if isinstance(v, (list, tuple)):
                parts = [str(x) for x in v if isinstance(x, str)]
                if parts:
                    out.append(("wrapp.py_statements[%s].%s" % (e["name"], key), "\n".join(parts), t.loc(e), True))
            elif isinstance(v, str):
                out.append(("wrapp.py_statements[%s].%s" % (e["name"], key), str(v), t.loc(e), True))
    wp = repo.module("wrapp")
    wp.functions()
    for node in ast.walk(wp.tree):
        if isinstance(node, ast.Constant) and isinstance(node.value, str) and ("Py" in node.value or "goto fail" in node.value):
            fn = enclosing_function(node)
            if fn is None:
                continue
            out.append(("wrapp.%s@%d" % (getattr(fn, "_qualname", fn.name), node.lineno - fn.lineno), node.value, wp.loc(node), None))
    for key, h in T["helpers"].c.items():
        for k in ("source", "cxx_source", "c_source"):
            s = h.get(k)
            if isinstance(s, str) and ("PyObject" in s or "PyErr" in s):
                out.append(("whelpers.CHelpers[%s].%s" % (key, k), tables.helper_text(h, k),
                            repo.module("whelpers").loc(h.node), False))
    return out


def rule_r2(repo, run, T):
    R = run.rule("C03.R2", "CPython API calls in templates are applied to objects of the right kind")
    n = 0
    for construct, text, loc, templated in _python_templates(repo, T):
        try:
            code = "\n".join(templ.code_lines(text)) if templated is not False else text
        except ValueError:
            code = text
        for fn, args, pos in templ.calls(code):
            if fn in API:
                for want, a in zip(API[fn], args):
                    if want is None:
                        continue
                    a_ = a.strip()
                    if a_ in PARAM_KIND:
                        n += 1
                        run.check(R, "%s:%s(%s)" % (construct, fn, a_), PARAM_KIND[a_] == want,
                                  "%s expects a %s but %s is the %s of the call: returns -1 and leaves "
                                  "SystemError set" % (fn, want, a_, PARAM_KIND[a_]), loc,
                                  sample=dict(where=construct, call="%s(%s)" % (fn, a_)))
        # `if (X != NULL) ... f(Y)` one-liners
        for m in re.finditer(r"if\s*\(\s*(\w+|\{\w+\})\s*!=\s*(?:\{nullptr\}|NULL)\s*\)\s*(\w+)\s*\+=\s*(\w+)\s*\(\s*(\w+|\{\w+\})\s*\)\s*;", code):
            x, acc, f, y = m.groups()
            n += 1
            run.check(R, "%s:if(%s)%s(%s)" % (construct, x, f, y), x == y,
                      "the guard tests %s but the call uses %s" % (x, y), loc,
                      sample=dict(where=construct, guard=x, used=y))
    run.floor(R, "typed API uses", n, 4)


def parse_units(fmt):
    """Split a PyArg_Parse format string into units; returns list of (unit, nargs)."""
    out = []
    i = 0
    while i < len(fmt):
        c = fmt[i]
        if c in "|$:;()":
            if c in ":;":
                break
            i += 1
            continue
        two = fmt[i:i + 2]
        if two in UNIT_ARGS:
            out.append((two, UNIT_ARGS[two]))
            i += 2
            continue
        if c == "e":
            out.append((two, 2))
            i += 2
            continue
        if c in UNIT_SIZE or c in "wySUYZ":
            out.append((c, 1))
            i += 1
            continue
        out.append((c, None))
        i += 1
    return out


def rule_r3(repo, run, T, types):
    R = run.rule("C03.R3", "parse_format units agree with the number of parse_args; build formats agree with build args")
    n = 0
    t = T["py"]
    for lang in ("c", "c++"):
        for name, e in t.resolve_all(lang).items():
            pf = e.get("parse_format")
            pa = e.get("parse_args") or []
            if pf is None:
                if pa and not e.raw.get("parse_args") is None and "parse_args" in e.raw:
                    run.check(R, "wrapp.py_statements[%s]:parse_args" % name, False,
                              "parse_args given without parse_format", t.loc(e.raw))
                continue
            if lang == "c++" and ("wrapp.py_statements[%s]" % name) in getattr(run, "_r3done", set()):
                continue
            run._r3done = getattr(run, "_r3done", set()) | {"wrapp.py_statements[%s]" % name}
            units = parse_units(str(pf))
            n += 1
            bad = [u for u, k in units if k is None]
            want = sum(k for u, k in units if k)
            run.check(R, "wrapp.py_statements[%s]:parse" % name, not bad and want == len(pa),
                      "parse_format %r consumes %d C arguments%s but parse_args has %d: PyArg_Parse reads "
                      "the wrong stack slots" % (pf, want, (" (unknown units %s)" % bad) if bad else "", len(pa)),
                      t.loc(e.raw), sample=dict(entry=name, parse_format=str(pf), parse_args=[str(x) for x in pa]))
            # O! needs a type object first, O& a converter first
            idx = 0
            for u, k in units:
                if u == "O!" and idx < len(pa):
                    a = str(pa[idx])
                    run.check(R, "wrapp.py_statements[%s]:O!" % name, a.startswith("&") and ("Type" in a),
                              "O! must be followed by the address of a type object, got %r" % a, t.loc(e.raw))
                if u == "O&" and idx < len(pa):
                    a = str(pa[idx])
                    run.check(R, "wrapp.py_statements[%s]:O&" % name, not a.startswith("&"),
                              "O& must be followed by a converter function, got %r" % a, t.loc(e.raw))
                if u in ("O", "s", "i", "l", "d", "f", "h", "L", "n", "D") and idx < len(pa):
                    a = str(pa[idx])
                    run.check(R, "wrapp.py_statements[%s]:%s-address" % (name, u), a.startswith("&"),
                              "unit %r needs the address of a variable, got %r" % (u, a), t.loc(e.raw))
                idx += k or 1
    for name, ty in sorted(types.types.items()):
        bf, ba = ty.get("PY_build_format"), ty.get("PY_build_arg")
        if bf is None:
            continue
        units = parse_units(str(bf))
        want = sum(k for u, k in units if k)
        got = len(templ.split_args(templ.unescape(str(ba)))) if ba else 0
        n += 1
        run.check(R, "typemap[%s].PY_build_format" % name, want == got,
                  "PY_build_format %r takes %d arguments but PY_build_arg %r supplies %d" % (bf, want, ba, got),
                  types.loc(name), sample=dict(type=name, build_format=str(bf), build_arg=str(ba)))
    # '#' units: the length argument is Py_ssize_t only when PY_SSIZE_T_CLEAN is defined before Python.h is included;
    # CPython 3.10-3.12 refuse a '#' unit without it (SystemError), older versions read an int
    hashed = [("typemap[%s].%s" % (name, k), str(ty.get(k))) for name, ty in sorted(types.types.items())
              for k in ("PY_format", "PY_build_format") if ty.get(k) and "#" in str(ty.get(k))]
    for lang in ("c", "c++"):
        for name, e in t.resolve_all(lang).items():
            if e.get("parse_format") and "#" in str(e.get("parse_format")):
                hashed.append(("wrapp.py_statements[%s].parse_format" % name, str(e.get("parse_format"))))
    wp = repo.module("wrapp")
    incs = [c for c in ast.walk(wp.tree) if isinstance(c, ast.Constant) and isinstance(c.value, str)
            and re.search(r"#include\s*<Python\.h>", c.value)]
    if not incs:
        raise AnalysisError("C03.R3: emission of `#include <Python.h>` not found in wrapp")
    for inc in incs:
        fn = enclosing_function(inc)
        before = [c for c in ast.walk(fn) if isinstance(c, ast.Constant) and isinstance(c.value, str)
                  and re.search(r"#define\s+PY_SSIZE_T_CLEAN\b", c.value) and (c.lineno, c.col_offset) <= (inc.lineno, inc.col_offset)]
        same = re.search(r"#define\s+PY_SSIZE_T_CLEAN\b.*#include\s*<Python\.h>", inc.value, re.S)
        n += 1
        run.check(R, "wrapp.%s:PY_SSIZE_T_CLEAN" % getattr(fn, "_qualname", "?"), bool(before or same) or not hashed,
                  "format units with '#' are used (%s) but PY_SSIZE_T_CLEAN is not defined before <Python.h>: "
                  "Py_BuildValue raises SystemError (\"PY_SSIZE_T_CLEAN macro must be defined for '#' formats\") on "
                  "CPython 3.10-3.12 and reads the length as int before" % ", ".join("%s=%r" % h for h in hashed[:3]),
                  wp.loc(inc), sample=dict(units=hashed[:5]))
    run.floor(R, "parse/build format instances", n, 19)


ERR_CALLS = ("PyErr_SetString", "PyErr_Format", "PyErr_NoMemory", "PyErr_SetObject")
OK_EXC = {"PyExc_TypeError", "PyExc_ValueError", "PyExc_NotImplementedError", "PyExc_MemoryError",
          "PyExc_AttributeError", "PyExc_RuntimeError", "PyExc_OverflowError", "PyExc_IndexError"}
USER_VISIBLE_EXC = {"PyExc_TypeError", "PyExc_ValueError", "PyExc_NotImplementedError", "PyExc_MemoryError",
                    "PyExc_AttributeError"}


def rule_r4(repo, run, T):
    R = run.rule("C03.R4", "an error indicator is never set without leaving the wrapper with the error value")
    n = 0
    for construct, text, loc, templated in _python_templates(repo, T):
        try:
            lines = templ.code_lines(text) if templated is not False else text.split("\n")
        except ValueError:
            lines = text.split("\n")
        # join continuation: a statement ends with ';' or '{' or '}'
        stmts = []
        cur = ""
        for l in lines:
            s = templ.strip_c_comments(l).strip()
            if not s:
                continue
            cur += (" " if cur else "") + s
            if s.endswith(";") or s.endswith("{") or s.endswith("}") or s.startswith("#"):
                stmts.append(cur)
                cur = ""
        if cur:
            stmts.append(cur)
        for i, s in enumerate(stmts):
            hit = [c for c in ERR_CALLS if re.search(r"\b%s\s*\(" % c, s)]
            if not hit:
                continue
            # `return PyErr_NoMemory();` style
            if re.match(r"^return\b", s):
                n += 1
                run.ok(R, "%s:%s" % (construct, hit[0]))
                continue
            n += 1
            nxt = stmts[i + 1] if i + 1 < len(stmts) else None
            ok = nxt is not None and re.match(r"^(goto\s+fail\s*;|return\b.*;)", nxt) is not None
            if nxt is not None and templated is None and re.match(r"^\{\d*\}\s*;", nxt):
                # the statement after the error call is a positional parameter of a later .format():
                # its text is chosen by the caller (goto fail / return -1)
                run.unmodelled_site(R, construct, "statement after %s is a format parameter" % hit[0])
                continue
            if nxt is None and templated is None:
                # inline fragment that ends with the error call: the caller appends the return separately
                run.unmodelled_site(R, construct, "fragment ends with %s" % hit[0])
                continue
            run.check(R, "%s:%s->%s" % (construct, hit[0], (nxt or "<end>")[:30]), ok,
                      "%s is not immediately followed by `goto fail` or a return: the wrapper continues and "
                      "returns a value with an exception set (SystemError)" % hit[0], loc,
                      sample=dict(where=construct, after=nxt))
            m = re.search(r"PyErr_(?:SetString|Format)\s*\(\s*(PyExc_\w+)", s)
            if m:
                run.check(R, "%s:%s" % (construct, m.group(1)), m.group(1) in USER_VISIBLE_EXC,
                          "argument errors must be reported as TypeError/ValueError, not %s" % m.group(1), loc)
    run.floor(R, "error-setting sites in Python templates", n, 18)
    # goto fail => goto_fail (after base/mixin resolution)
    t = T["py"]
    for name, e in t.resolve_all("c++").items():
        txt = "\n".join(x for c in e.keys() for x in e.lines(c) if c not in ("name",))
        if re.search(r"\bgoto\s+fail\b", txt):
            run.check(R, "wrapp.py_statements[%s]:goto_fail" % name, e.get("goto_fail") is True,
                      "entry jumps to `fail` but goto_fail is not set after base/mixin resolution: the label is "
                      "not emitted and the generated C does not compile", t.loc(e.raw))


def rule_r5(repo, run):
    R = run.rule("C03.R5", "result first, then out arguments in declaration order")
    wp = repo.module("wrapp")
    f = wp.func("Wrapp.wrap_function")
    ins = [n for n in ast.walk(f) if isinstance(n, ast.Call) and isinstance(n.func, ast.Attribute)
           and n.func.attr == "insert" and "build_tuples" in wp.seg(n.func.value)]
    apps = [n for n in ast.walk(f) if isinstance(n, ast.Call) and isinstance(n.func, ast.Attribute)
            and n.func.attr == "append" and "build_tuples" in wp.seg(n.func.value)]
    run.check(R, "wrapp.Wrapp.wrap_function:result-first",
              len(ins) == 1 and isinstance(ins[0].args[0], ast.Constant) and ins[0].args[0].value == 0,
              "exactly one insert(0, ...) (the function result) may be placed in front of the out arguments; "
              "found %d" % len(ins), wp.loc(f), sample=dict(inserts=[wp.seg(i) for i in ins]))
    run.check(R, "wrapp.Wrapp.wrap_function:out-order", len(apps) >= 1 and
              all(any(isinstance(p, ast.For) and wp.seg(p.iter) == "args" for p in _parents(a)) for a in apps),
              "out arguments must be appended while iterating the parameters in declaration order", wp.loc(f),
              sample=dict(appends=len(apps)))
    if ins:
        # the insert happens after the argument loop (result handled last, placed first)
        loop = [n for n in f.body if isinstance(n, ast.For) and wp.seg(n.iter) == "args"]
        run.check(R, "wrapp.Wrapp.wrap_function:result-after-args", bool(loop) and ins[0].lineno > loop[0].lineno,
                  "the result must be inserted after all arguments were collected", wp.loc(ins[0]))
    # args iterated in declaration order
    run.check(R, "wrapp.Wrapp.wrap_function:args-order", "args = ast.params" in wp.seg(f) and
              "reversed(args)" not in wp.seg(f) and "sorted(args" not in wp.seg(f),
              "arguments must be processed in declaration order", wp.loc(f))


def _parents(n):
    from sa.loader import parent_chain
    return list(parent_chain(n))


def rule_r6(repo, run):
    R = run.rule("C03.R6", "argument counters: tuple size + keyword dict size, compared against the Python-visible arity")
    wp = repo.module("wrapp")
    for q, var in (("Wrapp.wrap_function", "SH_nargs"), ("Wrapp.multi_dispatch", "SHT_nargs")):
        f = wp.func(q)
        strs = [n.value for n in ast.walk(f) if isinstance(n, ast.Constant) and isinstance(n.value, str) and var in n.value]
        counter = [s for s in strs if "+=" in s]
        ok = len(counter) == 1 and "PyTuple_Size(args)" in counter[0] and "PyDict_Size(kwds)" in counter[0] and \
            "if (args != {nullptr})" in counter[0] and "if (kwds != {nullptr})" in counter[0]
        run.check(R, "wrapp.%s:%s" % (q, var), ok,
                  "the number of supplied arguments must be PyTuple_Size(args) + PyDict_Size(kwds), each "
                  "guarded against NULL; found %s" % counter, wp.loc(f), sample=dict(counter=counter))
    f = wp.func("Wrapp.wrap_function")
    src = wp.seg(f)
    run.check(R, "wrapp.Wrapp.wrap_function:switch", 'PY_code.append("switch (SH_nargs) {")' in src and
              'PY_code.append("case %d:" % npyargs)' in src,
              "the default-argument switch must be on the supplied count with one case per arity", wp.loc(f))
    # npyargs counts exactly the arguments that are parsed from Python
    inc = [n for n in ast.walk(f) if isinstance(n, ast.Assign) and pyflow.is_name(n.targets[0], "npyargs")
           and isinstance(n.value, ast.BinOp)]
    run.check(R, "wrapp.Wrapp.wrap_function:npyargs", len(inc) == 1 and
              isinstance(inc[0].value.right, ast.Constant) and inc[0].value.right.value == 1,
              "npyargs must be incremented by one per parsed argument", wp.loc(f))
    # selection by count equals selection by the *set* of supplied arguments only if keywords cannot leave gaps:
    # scale(3, factor=10) has count 2 and takes the arm `scale(x, a)` with `a` never assigned
    strs = [n.value for n in ast.walk(f) if isinstance(n, ast.Constant) and isinstance(n.value, str)]
    counts_keywords = any("SH_nargs" in t and "PyDict_Size(kwds)" in t for t in strs)
    inspects_names = any(re.search(r"PyDict_GetItem(String)?\s*\(\s*kwds|PyDict_Contains\s*\(\s*kwds|PyMapping_HasKey(String)?\s*\(\s*kwds", t)
                         for t in strs)
    run.check(R, "wrapp.Wrapp.wrap_function:switch:keyword-gap", not counts_keywords or inspects_names,
              "the default-argument switch selects the call by the number of supplied arguments, keywords included, and "
              "nothing checks which keywords were given: f(x, a=2, factor=1) called as f(3, factor=10) takes the arm "
              "f(x, a) with `a` unassigned and drops factor - a silently wrong call", wp.loc(f))
    # dispatcher arity uses the same notion of "argument" as the parse site of wrap_function
    md = wp.func("Wrapp.multi_dispatch")
    # each overload is guarded by its own arity: the operands of every SHT_nargs test come from the loop variable
    loops = [n for n in ast.walk(md) if isinstance(n, ast.For) and isinstance(n.target, ast.Name)
             and any(isinstance(x, ast.Constant) and isinstance(x.value, str) and "SHT_nargs" in x.value for x in ast.walk(n))]
    loops = [l for l in loops if not any(o is not l and any(x is o for x in ast.walk(l)) for o in loops)]   # innermost
    if len(loops) != 1:
        raise AnalysisError("C03.R6: overload loop of multi_dispatch not found")
    lv = loops[0].target.id
    # locals of the loop body that are (parts of) the loop variable: `params = overload.ast.params`
    derived = {lv}
    for a in ast.walk(loops[0]):
        if isinstance(a, ast.Assign) and len(a.targets) == 1 and isinstance(a.targets[0], ast.Name):
            names = set(x.id for x in ast.walk(a.value) if isinstance(x, ast.Name))
            if names and names <= derived:
                derived.add(a.targets[0].id)
    # the parse site: which attributes decide that a parameter is read from the Python argument list
    wfn = wp.func("Wrapp.wrap_function")
    site = [c for c in ast.walk(wfn) if isinstance(c, ast.Call) and wp.seg(c.func) == "arg_names.append"]
    if len(site) != 1:
        raise AnalysisError("C03.R6: the parse site (arg_names.append) of wrap_function not found")
    site_text = " ".join(ast.unparse(t) for t, pol in pyflow.dominating_tests(site[0], stop=wfn))
    deciding = [k for k in ("intent", "implied", "hidden") if re.search(r"\b%s\b" % k, site_text)]
    if len(deciding) != 3:
        raise AnalysisError("C03.R6: the parse site is expected to depend on intent, implied and hidden: %s" % site_text[:120])
    ng = 0
    for b in ast.walk(loops[0]):
        if isinstance(b, ast.BinOp) and isinstance(b.op, ast.Mod) and isinstance(b.left, ast.Constant) \
                and isinstance(b.left.value, str) and "SHT_nargs" in b.left.value:
            ng += 1
            gid = re.sub(r"\s+", " ", b.left.value)[:40]
            callees = set(ast.unparse(c.func) for c in ast.walk(b.right) if isinstance(c, ast.Call))
            roots = set(x.id for x in ast.walk(b.right) if isinstance(x, ast.Name)) - callees
            run.check(R, "wrapp.Wrapp.multi_dispatch:guard[%s]" % gid, roots and roots <= derived,
                      "the arity guard `%s` is computed from %s instead of the overload being dispatched (`%s`): every "
                      "overload is tested against another overload's parameter count"
                      % (b.left.value.strip(), sorted(roots), lv), wp.loc(b), sample=dict(guard=wp.seg(b)))
            # every number in the guard is a count of *Python* arguments
            nums = b.right.elts if isinstance(b.right, ast.Tuple) else [b.right]
            for i, e in enumerate(nums):
                ok = False
                if isinstance(e, ast.Call) and isinstance(e.func, ast.Name) and e.func.id != "len":
                    try:
                        cf = wp.func(e.func.id)
                    except Exception:
                        cf = None
                    if cf is not None:
                        keys = set(x.slice.value for x in ast.walk(cf) if isinstance(x, ast.Subscript)
                                   and isinstance(x.slice, ast.Constant) and isinstance(x.slice.value, str))
                        keys |= set(x.attr for x in ast.walk(cf) if isinstance(x, ast.Attribute))
                        keys |= set(x.id for x in ast.walk(cf) if isinstance(x, ast.Name))
                        ok = all(k in keys for k in deciding)
                run.check(R, "wrapp.Wrapp.multi_dispatch:arity" if i == 0 and len(nums) == 1 else
                          "wrapp.Wrapp.multi_dispatch:arity[%s:%d]" % (gid, i), ok,
                          "the dispatcher compares the number of arguments the caller passed with `%s`, which is not a count of the "
                          "parameters wrap_function parses (it decides on %s): an overload with intent(out)/hidden/implied "
                          "parameters is unreachable, or the wrong overload is entered"
                          % (ast.unparse(e), ", ".join(deciding)), wp.loc(e))
    run.floor(R, "arity guards in the dispatcher", ng, 2)


def rule_r7(repo, run):
    R = run.rule("C03.R7", "the per-arity snapshot of the code lists (default arguments) records, for each list, "
                           "its own length at the place the consumer slices it")
    wm = repo.module("wrapp")
    f = wm.func("Wrapp.wrap_function")
    cons = [n for n in ast.walk(f) if isinstance(n, ast.For) and isinstance(n.target, ast.Tuple)
            and pyflow.is_name(n.iter, "default_calls")]
    if len(cons) != 1:
        raise AnalysisError("C03.R7: consumer loop over default_calls not found")
    lp = cons[0]
    names = [e.id if isinstance(e, ast.Name) else None for e in lp.target.elts]
    slot = {}
    for node in ast.walk(lp):
        if isinstance(node, ast.Subscript) and isinstance(node.slice, ast.Slice) and node.slice.lower is None \
                and isinstance(node.slice.upper, ast.Name) and node.slice.upper.id in names \
                and isinstance(node.value, ast.Name):
            slot.setdefault(names.index(node.slice.upper.id), set()).add(node.value.id)
    run.floor(R, "sliced code lists in the consumer", len(slot), 3)
    prods = [n for n in ast.walk(f) if isinstance(n, ast.Call) and (pyflow.call_name(n) or "") == "default_calls.append"]
    run.floor(R, "snapshot producers", len(prods), 2)
    for k, pr in enumerate(prods):
        tup = pr.args[0] if pr.args else None
        if not isinstance(tup, ast.Tuple) or len(tup.elts) != len(names):
            run.check(R, "wrapp.Wrapp.wrap_function:default_calls.append#%d" % k, False,
                      "snapshot tuple has %s elements, the consumer unpacks %d"
                      % (len(tup.elts) if isinstance(tup, ast.Tuple) else "?", len(names)), wm.loc(pr))
            continue
        for i, lists in sorted(slot.items()):
            e = tup.elts[i]
            got = e.args[0].id if (isinstance(e, ast.Call) and pyflow.is_name(e.func, "len") and e.args
                                   and isinstance(e.args[0], ast.Name)) else None
            run.check(R, "wrapp.Wrapp.wrap_function:default_calls.append#%d[%s]" % (k, names[i]), got in lists,
                      "position %d of the snapshot is `%s` but the consumer uses it to slice %s: a call that omits "
                      "default arguments replays the wrong prefix of %s (conversions of earlier arguments are lost "
                      "or duplicated)" % (i, wm.seg(e), sorted(lists), sorted(lists)), wm.loc(e),
                      sample=dict(position=i, unpacked_as=names[i], snapshot=wm.seg(e), slices=sorted(lists)))


CONVERTERS = r"(?:PyLong_As\w+|PyInt_As\w+|PyFloat_AsDouble|PyNumber_AsSsize_t|PyComplex_\w+AsDouble|\{Py_get\}|\{PY_get\})"


def rule_r8(repo, run, T):
    R = run.rule("C03.R8", "a numeric conversion from a Python object is checked with PyErr_Occurred(): -1 (or -1.0) "
                           "is a legitimate value")
    n = 0
    texts = []
    for key, h in sorted(T["helpers"].c.items()):
        for k, text in tables.helper_sources(h):
            texts.append(("whelpers.CHelpers[%s].%s" % (key, k), text, "shroud/whelpers.py"))
    py = T["py"]
    for name, e in sorted(py.resolve_all("c++").items()):
        for clause in ("post_parse", "pre_call", "post_call", "declare"):
            lines = e.lines(clause)
            if lines:
                texts.append(("wrapp.py_statements[%s].%s" % (name, clause), "\n".join(lines), py.loc(e.raw)))
    for where, text, loc in texts:
        code = templ.strip_c_comments(templ.strip_layout(text)) if hasattr(templ, "strip_layout") else text
        for m in re.finditer(r"([A-Za-z_{}][\w{}]*)\s*=\s*(?:\([^()]*\)\s*)?(" + CONVERTERS + r")", code):
            var = m.group(1)
            rest = code[m.end():m.end() + 400]
            t = re.search(r"\bif\s*\((.*?)\)\s*(?:\{|\n|goto|return)", rest, re.S)
            if not t:
                continue
            cond = t.group(1)
            if var not in cond and "PyErr_Occurred" not in cond:
                continue            # the next test is about something else
            n += 1
            ok = "PyErr_Occurred" in cond
            run.check(R, "%s:%s=%s" % (where, var, m.group(2)), ok,
                      "the result of %s is tested with `%s` alone: a legitimate value equal to the error sentinel is "
                      "rejected (TypeError for an element -1)" % (m.group(2), cond.strip()), loc,
                      sample=dict(where=where, conversion=m.group(2), test=cond.strip()))
    run.floor(R, "checked numeric conversions", n, 2)


def rule_r9(repo, run):
    R = run.rule("C03.R9", "sizes built as a textual product of user extents parenthesise every extent")
    n = 0
    for mname in ("wrapp", "wrapc"):
        m = repo.module(mname)
        for q, fn in sorted(m.functions().items()):
            for j in ast.walk(fn):
                if not (isinstance(j, ast.Call) and isinstance(j.func, ast.Attribute) and j.func.attr == "join"
                        and isinstance(j.func.value, ast.Constant) and isinstance(j.func.value.value, str)
                        and j.func.value.value.replace("\t", "") in ("*", "+", "-", "/") and j.args
                        and isinstance(j.args[0], ast.Name)):
                    continue
                lst = j.args[0].id
                for a in ast.walk(fn):
                    if isinstance(a, ast.Call) and isinstance(a.func, ast.Attribute) and a.func.attr == "append" \
                            and pyflow.is_name(a.func.value, lst) and a.args:
                        n += 1
                        x = a.args[0]
                        tmpl = None
                        if isinstance(x, ast.Call) and isinstance(x.func, ast.Attribute) and x.func.attr == "format":
                            tmpl = pyflow.const_str(x.func.value)
                        elif isinstance(x, ast.Constant) and isinstance(x.value, (int, str)):
                            tmpl = str(x.value)
                        safe = tmpl is not None and (
                            (tmpl.startswith("(") and tmpl.endswith(")")) or
                            re.match(r"^(\{\}|\w+)((->|\.)\w+|\[(\{\}|\w+)\])*$", tmpl) is not None and "{}" != tmpl)
                        run.check(R, "%s.%s:%s.append" % (mname, q, lst), safe,
                                  "operand `%s` of the product `%r.join(%s)` is neither parenthesised nor a postfix "
                                  "expression: an extent such as nrow+2 changes the size by operator precedence"
                                  % (m.seg(x), j.func.value.value, lst), m.loc(a),
                                  sample=dict(function=q, operand=m.seg(x)))
    run.floor(R, "operands of textual products", n, 2)


def rule_r10(repo, run, T):
    R = run.rule("C03.R10", "helpers that fill a caller-provided C array (in, insize) from a Python sequence never "
                            "store more elements than the array holds")
    n = 0
    for key, h in sorted(T["helpers"].c.items()):
        for k, text in tables.helper_sources(h):
            code = templ.strip_c_comments("\n".join(templ.strip_layout(l) for l in text.split("\n")))
            if not re.search(r"\binsize\b", code):
                continue
            arr, cap = "in", "insize"
            for st in re.finditer(r"for\s*\(([^;]*);\s*(\w+)\s*<\s*(\w+)\s*;[^)]*\)\s*\{+", code):
                # body up to the matching close of this loop (brace counting on protected text)
                depth, j = 1, st.end()
                while j < len(code) and depth:
                    depth += {"{": 1, "}": -1}.get(code[j], 0)
                    j += 1
                body = code[st.end():j]
                if not re.search(r"\b%s\s*\[\s*%s\s*\]\s*=[^=]" % (arr, st.group(2)), body):
                    continue
                n += 1
                bound = st.group(3)
                before = code[:st.start()]
                clamp = bound == cap or re.search(
                    r"if\s*\(\s*%s\s*>\s*%s\s*\)\s*\{*\s*%s\s*=\s*%s\s*;" % (bound, cap, bound, cap), before) or \
                    re.search(r"\b%s\s*=\s*[^;]*\?[^;]*\b%s\b[^;]*;" % (bound, cap), before)
                run.check(R, "whelpers.CHelpers[%s].%s:%s[%s<%s]" % (key, k, arr, st.group(2), bound), bool(clamp),
                          "the loop stores %s[%s] for %s < %s but %s is never limited to the capacity %s of the caller's "
                          "array: a longer Python sequence overwrites what follows the array"
                          % (arr, st.group(2), st.group(2), bound, bound, cap),
                          "shroud/whelpers.py", sample=dict(helper=key, bound=bound, capacity=cap))
    run.floor(R, "array-filling loops in helpers", n, 2)


def rule_r11(repo, run, T):
    R = run.rule("C03.R11", "values handed to the library come from where they are defined: strlen() is never applied to a "
                            "buffer the caller does not pass in, arity ranges cover the full signature, borrowed objects "
                            "kept in a converter are owned")
    wp = repo.module("wrapp")
    f = wp.func("ToImplied.visit_Identifier")
    cur = next((st for st in f.body if isinstance(st, ast.If)), None)
    n = 0
    while isinstance(cur, ast.If):
        t = cur.test
        fn = pyflow.const_str(t.comparators[0]) if isinstance(t, ast.Compare) else None
        if fn == "len":
            for r in [x for x in ast.walk(cur) if isinstance(x, ast.Return) and "strlen" in wp.seg(x) and x in ast.walk(cur)
                      and not any(x in ast.walk(o) for o in cur.orelse)]:
                n += 1
                guards = [wp.seg(tt) for tt, pol in pyflow.early_exit_guards(f, r)] + \
                         [wp.seg(tt) for tt, pol in pyflow.dominating_tests(r, stop=f)]
                ok = any("intent" in g and "'out'" in g for g in guards)
                run.check(R, "wrapp.ToImplied.visit_Identifier:len(out-argument)", ok,
                          "len(x) is computed with strlen() without first handling intent(out) arguments: for "
                          "`char *x +intent(out)+charlen(N)` no buffer comes from Python, so strlen reads the wrapper's own "
                          "uninitialised array instead of using N", wp.loc(r))
        cur = cur.orelse[0] if len(cur.orelse) == 1 and isinstance(cur.orelse[0], ast.If) else None
    run.floor(R, "strlen returns in the len() branch", n, 1)
    # arity range of a function with defaulted arguments: (required, all) of the original declaration
    gm = repo.module("generate")
    hd = gm.func("GenFunctions.has_default_args")
    na = pat.find(hd, "MV_N._nargs = (MV_A, len(MV_N.ast.params))")
    allasg = pat.find(hd, "MV_N._nargs = MV_V")
    run.check(R, "generate.GenFunctions.has_default_args:_nargs", len(na) == 1 and len(allasg) == 1 and
              na[0][1]["N"] == hd.args.args[1].arg,
              "the arity range stored on the declaration must end at the number of parameters of that same declaration "
              "(found %s): taken from a truncated clone, a call with all arguments is not dispatched to this overload"
              % [gm.seg(x[0]) for x in allasg], gm.loc(hd))
    # converters that keep the caller's object in value->dataobj take a reference (callers release dataobj)
    nb = 0
    for key, h in sorted(T["helpers"].c.items()):
        for k, text in tables.helper_sources(h):
            code = templ.strip_c_comments("\n".join(templ.strip_layout(l) for l in text.split("\n")))
            # split into if/else-if branches at top level of the chain
            for br in re.split(r"\}\s*else\s+if\s*\(|\}\s*else\s*\{|\bif\s*\(", code):
                if re.search(r"value->dataobj\s*=\s*obj\s*;", br):
                    nb += 1
                    run.check(R, "whelpers.CHelpers[%s].%s:dataobj=obj#%d" % (key, k, nb),
                              re.search(r"Py_INCREF\s*\(\s*obj\s*\)", br) is not None,
                              "the branch stores the caller's object in value->dataobj without Py_INCREF(obj): the wrapper's "
                              "cleanup does Py_XDECREF(value.dataobj) and so drops a reference it does not own (the caller's "
                              "bytes objects are freed under it)", "shroud/whelpers.py")
    run.floor(R, "converter branches that keep the argument object", nb, 1)


def rule_r12(repo, run, T):
    R = run.rule("C03.R12", "optional arguments and list round trips: a default of 0 is a default, an inout list comes back "
                            "with the length it came in with, a vector is filled once")
    from sa import lints
    found, n = lints.truthiness_of_optional(repo, ("wrapp",), fields=("init",))
    for mn, q, node, msg in found:
        run.fail(R, "%s.%s:truthiness@%s" % (mn, q, re.sub(r"\s+", " ", repo.module(mn).seg(node.test))[:40]),
                 msg + ": the argument becomes required in the Python signature", repo.module(mn).loc(node))
    run.rules[R]["obligations"] += n
    run.rules[R]["discharged"] += n - len(found)
    py = T["py"]
    k = 0
    for name, e in sorted(py.resolve_all("c++").items()):
        if "inout" in name.split("_") and name.endswith("_list"):
            for line in e.lines("post_call"):
                m = re.search(r"\{hnamefunc\d\}\s*\\?t?\s*\(([^)]*)\)", line.replace("\t", " "))
                if m and "{cxx_var}" in m.group(1):
                    k += 1
                    args = [a.strip() for a in m.group(1).split(",")]
                    run.check(R, "wrapp.py_statements[%s]:result-length" % name, args[-1] == "{size_var}",
                              "the list returned for an intent(inout) argument is built with length %s: it must be the length "
                              "of the list that was passed in ({size_var}); {array_size} is 1 unless +dimension is given"
                              % args[-1], py.loc(e.raw), sample=dict(entry=name, call=line.strip()))
    run.floor(R, "inout list entries", k, 1)
    # helpers that build a std::vector from a sequence: either size it and assign, or reserve and push_back
    nh = 0
    for key, h in sorted(T["helpers"].c.items()):
        for kk, text in tables.helper_sources(h):
            if "push_back" in text:
                nh += 1
                run.check(R, "whelpers.CHelpers[%s].%s:fill-once" % (key, kk), re.search(r"\.resize\s*\(", text) is None,
                          "the vector is resize()d and then push_back()ed: the library receives N value-initialised elements "
                          "followed by the N values", "shroud/whelpers.py", sample=dict(helper=key))
    run.floor(R, "vector-building helpers", nh, 1)


def rule_r13(repo, run, T):
    R = run.rule("C03.R13", "class instances as arguments (shadow classes, structs wrapped as classes): every pointer form x "
                            "intent has statements of its own, the object handed back is the Python object, and a borrowed "
                            "object returned by itself gets a reference")
    py = T["py"]
    res = py.resolve_all("c++")
    n = 0
    for group, tail in (("shadow", []), ("struct", ["class"])):
        for sp in ("*", "&"):
            for intent in ("in", "inout"):
                n += 1
                path = ["py", group, sp, intent] + tail
                got = py.lookup(path, "c++")
                run.check(R, "wrapp.py_statements[%s]:lookup" % "_".join(path), got is not None,
                          "no statements are found for %s: the lookup silently falls back to py_default, which declares "
                          "nothing and passes text that does not compile (a non-const `T &` argument is intent(inout) by "
                          "default)" % "_".join(path), "shroud/wrapp.py", sample=dict(path=path))
    run.floor(R, "class-argument lookups", n, 8)
    k = 0
    borrowed = []
    for name, e in sorted(res.items()):
        parts = name.split("_")
        if not ({"inout", "out"} & set(parts)):
            continue
        if e.get("arg_declare") != [] or not any("{py_var}->" in l for l in e.lines("post_declare")):
            continue
        # the C++ pointer is taken out of the Python object that was parsed: that object is what goes back
        k += 1
        borrowed.append((name, e))
        run.check(R, "wrapp.py_statements[%s]:object_created" % name, e.get("object_created") is True,
                  "the C++ pointer is extracted from the parsed Python object, but object_created is not set: Py_BuildValue "
                  "is then given the C++ pointer for an \"O\" unit (crash)", py.loc(e.raw), sample=dict(entry=name))
    run.floor(R, "entries that hand the parsed object back", k, 3)
    wp = repo.module("wrapp")
    wf = wp.func("Wrapp.wrap_function")
    incs = [c for c in ast.walk(wf) if isinstance(c, ast.Constant) and isinstance(c.value, str) and "Py_INCREF({py_var})" in c.value]
    in_emitter = any(any("inout" in str(wp.seg(t)) or "intent" in str(wp.seg(t)) for t, pol in pyflow.dominating_tests(c, stop=wf))
                     for c in incs)
    for name, e in borrowed:
        if "inout" not in name.split("_"):
            continue
        in_entry = any("Py_INCREF({py_var})" in l for l in e.lines("post_call"))
        run.check(R, "wrapp.py_statements[%s]:borrowed-return" % name, in_emitter or in_entry,
                  "the object parsed with \"O!\" is a borrowed reference; when it is the only value returned "
                  "(`return (PyObject *) {py_var};`) nobody takes a reference: the caller's object is released once too "
                  "often", py.loc(e.raw), sample=dict(entry=name))


def _error_returns(text):
    """constants returned right after an exception is set (same block: no `}` in between)"""
    out = []
    lines = text.split("\n")
    for i, l in enumerate(lines):
        if re.search(r"\bPyErr_(Format|SetString|SetObject|NoMemory)\b", l):
            for j in range(i + 1, min(i + 6, len(lines))):
                if lines[j].lstrip("+-").startswith("}") or lines[j].startswith("-}"):
                    break
                m = re.match(r"\s*[-+]*return\s+(-?\d+)\s*;", lines[j])
                if m:
                    out.append(int(m.group(1)))
                    break
    return out


def rule_r14(repo, run, T):
    R = run.rule("C03.R14", "a conversion helper reports failure with the value its call sites test for")
    from checks.c05 import match_helper
    py = T["py"]
    helpers = T["helpers"].c
    n = 0
    seen = set()
    CLAUSES = ("post_parse", "pre_call", "post_declare", "post_call", "setter", "getter", "declare")
    for name, e in sorted(py.resolve_all("c++").items()):
        for clause in CLAUSES:
            fld = clause + "_helper" if clause in ("getter", "setter") else "c_helper"
            req = str(e.get(fld) or "").split()
            text = " ".join(l.replace("\t", " ") for l in e.lines(clause))
            for m in re.finditer(r"if\s*\(\s*(!?)\s*\{hnamefunc(\d+)\}\s*\(([^;]*?)\)\s*(?:(==|!=|<)\s*(-?\d+)\s*)?\)", text):
                idx = int(m.group(2))
                if idx >= len(req):
                    continue
                neg, op, kval = m.group(1), m.group(4), m.group(5)
                if op is None:
                    fails = (lambda v: v == 0) if neg else (lambda v: v != 0)
                    shown = "!f(...)" if neg else "f(...)"
                elif op == "==":
                    fails = lambda v, k=int(kval): v == k
                    shown = "f(...) == %s" % kval
                elif op == "<":
                    fails = lambda v, k=int(kval): v < k
                    shown = "f(...) < %s" % kval
                else:
                    continue
                for key in match_helper(req[idx], helpers):
                    for hk in [key] + [d for dep in helpers[key].get("dependent_helpers", []) or [] if "source" not in helpers[key]
                                       and "c_source" not in helpers[key] for d in match_helper(str(dep), helpers)]:
                        if (hk, shown) in seen:
                            continue
                        seen.add((hk, shown))
                        for kk, src in tables.helper_sources(helpers[hk]):
                            errs = _error_returns(src)
                            if not errs:
                                continue
                            n += 1
                            bad = sorted(set(v for v in errs if not fails(v)))
                            run.check(R, "whelpers.CHelpers[%s].%s:error-return" % (hk, kk), not bad,
                                      "the helper sets an exception and returns %s, but py_statements[%s] treats only `%s` as "
                                      "failure: the wrapper goes on with an exception pending (SystemError, or use of an "
                                      "unset converter value)" % (bad, name, shown), "shroud/whelpers.py",
                                      sample=dict(helper=hk, caller=name, test=shown, error_returns=errs))
    run.floor(R, "helpers whose failure value is tested by a statement entry", n, 6)
    # helper calling helper: `ierr = {__helper}(item, &v); if (ierr == 0) {...error...}` - the callee is one of the
    # helper's dependent helpers; its error returns must make that test true as well
    k = 0
    for key, h in sorted(helpers.items()):
        deps = [d for dep in h.get("dependent_helpers", []) or [] for d in match_helper(str(dep), helpers)]
        for kk, src in tables.helper_sources(h):
            flat = re.sub(r"\s+", " ", src)
            for m in re.finditer(r"(\w+) = (\{__helper\}|\{PY_helper_prefix\}\w+|SHROUD_\w+) ?\(([^;]*?)\); if \( ?(!?) ?\1 ?(?:(==|!=|<|>|<=|>=) ?(-?\d+))? ?\)", flat):
                callee, neg, op, kval = m.group(2), m.group(4), m.group(5), m.group(6)
                if op is None:
                    fails = (lambda v: v == 0) if neg else (lambda v: v != 0)
                else:
                    kv = int(kval)
                    fails = {"==": lambda v: v == kv, "!=": lambda v: v != kv, "<": lambda v: v < kv, ">": lambda v: v > kv,
                             "<=": lambda v: v <= kv, ">=": lambda v: v >= kv}[op]
                shown = "%s%s %s %s" % (neg, m.group(1), op or "", kval or "")
                if callee == "{__helper}":
                    cands = deps
                else:
                    cands = [d for d in helpers if callee.endswith(d)]
                for d in cands:
                    k += 1
                    for kk2, src2 in tables.helper_sources(helpers[d]):
                        errs = _error_returns(src2)
                        if not errs:
                            continue
                        bad = sorted(set(v for v in errs if not fails(v)))
                        run.check(R, "whelpers.CHelpers[%s].%s:callee-status[%s]" % (key, kk, d), not bad,
                                  "the helper tests the status of %s with `%s`, but %s reports failure by returning %s: a "
                                  "failed element conversion is not noticed (the library is called with stale data and an "
                                  "exception pending)" % (d, shown.strip(), d, bad), "shroud/whelpers.py",
                                  sample=dict(helper=key, callee=d, test=shown.strip()))
    run.floor(R, "helper-to-helper status tests", k, 1)


def rule_r15(repo, run, T):
    R = run.rule("C03.R15", "what is handed back: the format unit and the arguments of a returned value come from the same "
                            "typemap pair, and the default intent of an argument (which decides whether it is handed back at "
                            "all) follows the shared table (C02.R9)")
    wp = repo.module("wrapp")
    io = wp.func("Wrapp.intent_out")
    got = pat.find(io, "build_format = MV_A or MV_B")
    ok = len(got) == 1 and got[0][1]["A"].endswith(".PY_build_format") and got[0][1]["B"].endswith(".PY_format")
    va = pat.find(io, "vargs = MV_T.PY_build_arg")
    run.check(R, "wrapp.Wrapp.intent_out:build-format-pair", ok and len(va) == 1,
              "Py_BuildValue arguments are taken from PY_build_arg, so the unit must be PY_build_format when the typemap has one "
              "(PY_format only as fallback): with the operands the other way round std::string is built with \"s\" from "
              "(data, size) and every later value of the tuple is read from the wrong slot", wp.loc(io))
    from checks import c02
    from sa.report import import_rules
    import_rules(run, R, c02, repo, {"C02.R9"})


def rule_r16(repo, run, T):
    R = run.rule("C03.R16", "a local variable that a statement entry declares without a value is given one by the same entry "
                            "before the wrapper can read it (implied arguments read {size_var} of the argument they name)")
    py = T["py"]
    n = 0
    done = set()
    for lang in ("c", "c++"):
        for name, e in sorted(py.resolve_all(lang).items()):
            if name.startswith("base_") or name in done:
                continue
            decls = [l for c in ("declare", "arg_declare", "post_declare") for l in e.lines(c)]
            code = " ".join(l.replace("\t", " ") for c in ("post_declare", "post_parse", "pre_call", "post_call", "declare", "arg_declare")
                            for l in e.lines(c))
            args = " ".join(str(a) for a in (e.get("parse_args") or []))
            for d in decls:
                m = re.match(r"^\s*[A-Za-z_][\w\s{}*]*?[\s*]\{(\w+)\}\s*;\s*$", d.replace("\t", " "))
                if not m:
                    continue
                var = "{%s}" % m.group(1)
                if var != "{size_var}":
                    # other bare declarations are filled by PyArg_Parse (&{c_var} is added by wrap_function) or by the
                    # library call (&{cxx_var} in arg_call); the size is only ever set by the entry itself
                    continue
                done.add(name)
                n += 1
                assigned = re.search(re.escape(var) + r"\s*=[^=]", code) is not None or ("&" + var) in code or ("&" + var) in args
                run.check(R, "wrapp.py_statements[%s]:%s" % (name, var), assigned,
                          "the entry declares `%s` and never assigns it: an argument with +implied(size(...)) of this argument "
                          "reads an indeterminate value (the sibling entries set it from the converter's size)" % (d.strip(), ),
                          py.loc(e.raw))
    run.floor(R, "size variables declared by entries", n, 3)


def rule_r17(repo, run, T):
    R = run.rule("C03.R17", "result and argument values reach Python through the statements written for them: the lookup path of "
                            "a pointer result is assembled in the order the table's keys are written in, and an argument is "
                            "left out of the returned values exactly when it is +hidden")
    wp = repo.module("wrapp")
    py = T["py"]
    pr = wp.func("Wrapp.process_function_result")
    # the parts appended to `stmts` for a native pointer result, in program order
    apps = sorted([c for c in ast.walk(pr) if isinstance(c, ast.Call) and str(wp.seg(c.func)) == "stmts.append"],
                  key=lambda c: (c.lineno, c.col_offset))
    order = [str(wp.seg(c.args[0])) for c in apps]
    if "deref" not in order or "options.PY_array_arg" not in order:
        raise AnalysisError("C03.R17: path parts of process_function_result not recognised: %s" % order)
    n = 0
    for dv in ("pointer",):
        for av in ("list", "numpy"):
            parts = [dv if o == "deref" else av for o in order if o in ("deref", "options.PY_array_arg")]
            path = ["py", "native", "*", "result"] + parts
            e = py.lookup(path, "c++")
            n += 1
            full = e is not None and e.name == "_".join(path)
            run.check(R, "wrapp.Wrapp.process_function_result:path[%s]" % "_".join(parts), full,
                      "a native pointer result with +dimension is looked up as %s, which resolves to %s: the parts are appended in "
                      "another order than the table's keys are written (py_native_*_result_<deref>_<list|numpy>), so the "
                      "result is returned as a scalar (its first element)" % ("_".join(path), e.name if e is not None else "py_default"),
                      wp.loc(pr), sample=dict(path=path))
    # out / inout arguments join the returned tuple unless hidden
    wf = wp.func("Wrapp.wrap_function")
    adds = [c for c in ast.walk(wf) if isinstance(c, ast.Call) and str(wp.seg(c.func)) == "build_tuples.append"]
    if not adds:
        raise AnalysisError("C03.R17: build_tuples.append of wrap_function not found")
    for c in adds:
        atoms = pyflow.path_atoms(c, stop=wf, seg=wp.seg)
        names = set(t for t, p in atoms)
        n += 1
        run.check(R, "wrapp.Wrapp.wrap_function:returned-arguments", ("hidden", False) in atoms and "implied" not in names,
                  "an intent(out)/(inout) argument is added to the returned values under %s: it must be left out exactly when "
                  "the argument is +hidden (an implied argument is never intent(out)); `int *f(int *len +intent(out)+hidden) "
                  "+dimension(len)` would return (list, len) instead of the list" % sorted(atoms), wp.loc(c))
    run.floor(R, "result paths and returned-argument guards", n, 3)


def rule_r18(repo, run, T):
    R = run.rule("C03.R18", "each case of the default-argument switch copies the code blocks up to the length recorded when its "
                            "last argument was processed: code added to a block after the argument loop (implied arguments) is "
                            "behind every recorded length, so the cases copy that tail as well")
    wp = repo.module("wrapp")
    wf = wp.func("Wrapp.wrap_function")
    blocks = ("post_declare_code", "post_parse_code", "pre_call_code")
    # the argument loop: the one that records lengths into default_calls
    rec = [c for c in ast.walk(wf) if isinstance(c, ast.Call) and ast.unparse(c.func) == "default_calls.append"]
    if len(rec) < 2:
        raise AnalysisError("C03.R18: the snapshots default_calls.append((..., len(pre_call_code), ...)) were not found")
    loops = [l for l in ast.walk(wf) if isinstance(l, ast.For) and any(r_ in list(ast.walk(l)) for r_ in rec)
             and "default_calls" not in ast.unparse(l.iter)]
    if not loops:
        raise AnalysisError("C03.R18: the argument loop of wrap_function was not found")
    outer = min(loops, key=lambda l: l.lineno)
    final = max(rec, key=lambda c: c.lineno)
    emit = [l for l in ast.walk(wf) if isinstance(l, ast.For) and ast.unparse(l.iter) == "default_calls"]
    if len(emit) != 1:
        raise AnalysisError("C03.R18: the loop over default_calls was not found")
    n = 0
    for b in blocks:
        grows = []
        for c in ast.walk(wf):
            if not isinstance(c, ast.Call) or not (outer.end_lineno < c.lineno < final.lineno):
                continue
            direct = isinstance(c.func, ast.Attribute) and c.func.attr in ("append", "extend", "insert") and pyflow.is_name(c.func.value, b)
            handed = any(pyflow.is_name(a, b) for a in c.args) and not pyflow.is_name(c.func, "len")
            if direct or handed:
                grows.append(c)
        if not grows:
            continue
        n += 1
        first = min(grows, key=lambda c: c.lineno)
        marks = [a.targets[0].id for a in ast.walk(wf) if isinstance(a, ast.Assign) and isinstance(a.targets[0], ast.Name)
                 and ast.unparse(a.value) == "len(%s)" % b and outer.end_lineno < a.lineno <= first.lineno]
        tails = [x for x in ast.walk(emit[0]) if isinstance(x, ast.Subscript) and pyflow.is_name(x.value, b)
                 and isinstance(x.slice, ast.Slice) and x.slice.upper is None and isinstance(x.slice.lower, ast.Name)
                 and x.slice.lower.id in marks]
        # the tail must reach the output: every `.extend(...)` of this block inside the loop extends something
        # that was built with the tail
        carried = set()
        for a in ast.walk(emit[0]):
            if isinstance(a, ast.Assign) and isinstance(a.targets[0], ast.Name) and any(t is x for t in tails for x in ast.walk(a.value)):
                carried.add(a.targets[0].id)
        exts = [c for c in ast.walk(emit[0]) if isinstance(c, ast.Call) and isinstance(c.func, ast.Attribute) and c.func.attr == "extend"
                and c.args and (any(pyflow.is_name(x, b) for x in ast.walk(c.args[0]))
                                or any(isinstance(x, ast.Name) and x.id in carried for x in ast.walk(c.args[0])))]
        reaches = bool(exts) and all(any(isinstance(x, ast.Name) and x.id in carried for x in ast.walk(c.args[0]))
                                     or any(t is x for t in tails for x in ast.walk(c.args[0])) for c in exts)
        tails = tails if reaches else []
        run.check(R, "wrapp.Wrapp.wrap_function:%s:tail" % b, bool(tails),
                  "`%s` adds to %s after the argument loop, behind every length recorded for the cases of the default-argument "
                  "switch, and the loop over default_calls copies only `%s[:recorded]`: a call without the trailing default "
                  "arguments leaves the implied arguments unset (`f(a, n)` with n uninitialised)"
                  % (re.sub(r"\s+", " ", ast.unparse(first))[:60], b, b), wp.loc(first))
    run.floor(R, "code blocks that grow after the argument loop", n, 1)


def rule_r19(repo, run, T):
    R = run.rule("C03.R19", "the init function of the library module and the one of a namespace submodule write the same kinds of "
                            "collected code (type objects, enumerations, array descriptors), and a list that is collected on the "
                            "wrapper itself (not in the per-module record) is started afresh for every module: the enumerators of "
                            "namespace `outer` become x.outer.RED, not x.RED")
    wp = repo.module("wrapp")
    top, sub = wp.func("Wrapp.write_init_module"), wp.func("Wrapp.write_init_submodule")

    def sources(fn):
        out = {}
        for c in ast.walk(fn):
            if isinstance(c, ast.Call) and isinstance(c.func, ast.Attribute) and c.func.attr == "extend" and \
                    pyflow.is_name(c.func.value, "output") and c.args and isinstance(c.args[0], ast.Attribute):
                out[ast.unparse(c.args[0])] = c
        return out
    a, b = sources(top), sources(sub)
    if len(a) < 3:
        raise AnalysisError("C03.R19: collected code written by write_init_module not found (%s)" % sorted(a))
    for src in sorted(a):
        run.check(R, "wrapp.Wrapp.write_init_submodule:%s" % src, src in b,
                  "write_init_module writes %s into the init function, write_init_submodule does not: what a namespace "
                  "collects there ends up in the library module (or nowhere)" % src, wp.loc(sub))
    # lists kept on the wrapper
    wn = wp.func("Wrapp.wrap_namespace")
    for src in sorted(a):
        if not src.startswith("self."):
            continue
        attr = src.split(".", 1)[1]
        resets = [x for x in ast.walk(wn) if isinstance(x, ast.Assign) and ast.unparse(x.targets[0]) == src
                  and isinstance(x.value, ast.List) and not x.value.elts]
        calls = [c for c in ast.walk(wn) if isinstance(c, ast.Call) and (pyflow.call_name(c) or "") == "self.wrap_namespace"]
        first_write = [c for c in ast.walk(wn) if isinstance(c, ast.Call) and (pyflow.call_name(c) or "") in ("self.wrap_enums", "self.write_module")]
        ok = bool(resets) and (not calls or min(r.lineno for r in resets) < min(c.lineno for c in calls)) and \
            (not first_write or min(r.lineno for r in resets) < min(c.lineno for c in first_write))
        restored = any(isinstance(x, ast.Assign) and ast.unparse(x.targets[0]) == src and isinstance(x.value, ast.Name)
                       for x in ast.walk(wn))
        run.check(R, "wrapp.Wrapp.wrap_namespace:%s:per-module" % src, ok and restored,
                  "%s is collected on the wrapper, wrap_namespace is entered once per module (recursively, the children first) and "
                  "%s: the code collected for a namespace is written by whichever module is written last"
                  % (src, "never starts the list afresh" if not resets else "does not put the outer module's list back"), wp.loc(wn))


# pairs that are known to be missing (recorded in known_findings.json, reported as KNOWN-FINDING)
def rule_r20(repo, run, T):
    R = run.rule("C03.R20", "PY_array_arg selects between two tables of statements for native pointers: every `..._numpy` entry has "
                            "its `..._list` twin and the other way round - a missing twin is not an error in the generator, the "
                            "lookup falls back to the scalar statements and the wrapper returns the first element only")
    wp = repo.module("wrapp")
    names = set()
    for key, val in pyflow.table_fields(wp.tree):
        if key == "name" and pyflow.const_str(val) and pyflow.const_str(val).startswith("py_native_"):
            names.add(pyflow.const_str(val))
    lists = set(n[:-5] for n in names if n.endswith("_list"))
    numpys = set(n[:-6] for n in names if n.endswith("_numpy"))
    if len(lists) < 6 or len(numpys) < 6:
        raise AnalysisError("C03.R20: py_native_* statement names not found (%d list, %d numpy)" % (len(lists), len(numpys)))
    for stem in sorted(lists | numpys):
        missing = "list" if stem not in lists else ("numpy" if stem not in numpys else None)
        run.check(R, "py_statements[%s]:list/numpy" % stem, missing is None,
                  "`%s_%s` exists and `%s_%s` does not: with PY_array_arg: %s the lookup ends at the scalar statements of "
                  "`%s` and only the first element crosses the boundary"
                  % (stem, "numpy" if missing == "list" else "list", stem, missing, missing, stem.rsplit("_", 1)[0]), wp.loc(wp.tree.body[0]))



def rule_r21(repo, run, T):
    R = run.rule("C03.R21", "a helper that fills a caller's fixed-size char array (`char *in, Py_ssize_t insize`) copies with the size "
                            "of the array: strncpy(dst, src, size) clears what the previous, longer content left behind, a shorter "
                            "count does not")
    helpers = T["helpers"]
    n = 0
    for name, h in sorted(helpers.c.items()):
        for key, text in tables.helper_sources(h):
            flat = re.sub(r"\s+", " ", text)
            for c in re.finditer(r"strncpy\s*\(\s*([A-Za-z_]\w*)\s*,\s*(.+?),\s*([^,()]+)\)\s*;", flat):
                dst, count = c.group(1).strip(), c.group(3).strip()
                size = dst + "size"
                if not re.search(r"\b%s\b" % re.escape(size), flat):
                    continue      # not a (pointer, size) pair of parameters
                n += 1
                terminated = re.search(r"%s\s*\[\s*%s[^\]]*\]\s*=\s*'\\0'" % (re.escape(dst), re.escape(count)), flat) is not None
                run.check(R, "whelpers.CHelpers[%s].%s:strncpy(%s, ..., %s)" % (name, key, dst, count), count == size or terminated,
                          "the caller's array `%s` (size `%s`) is filled with strncpy(..., %s): nothing behind the copied characters is "
                          "written - no terminator, and `r.name = \"xy\"` after `\"abcdefgh\"` reads \"xycdefgh\"" % (dst, size, count), "")
    run.floor(R, "strncpy into a caller's sized array", n, 1)



def rule_r23(repo, run, T):
    R = run.rule("C03.R23", "`T *&arg` is `T **arg` spelled in C++: the statements of a reference to a pointer are those of the "
                            "pointer to a pointer, only the call argument differs (`{cxx_var}` for `&{cxx_var}`): the library owns "
                            "what it stores there in both cases")
    n = 0
    for key in ("py",):
        table = T[key]
        res = table.resolve_all("c++")
        for name, e in sorted(res.items()):
            if "*&" not in name:
                continue
            twin = name.replace("*&", "**")
            if twin not in res:
                continue
            n += 1
            e2 = res[twin]
            diff = [k for k in sorted(e.keys() | e2.keys()) if k not in ("name", "base", "arg_call") and e.get(k) != e2.get(k)]
            run.check(R, "py_statements[%s<->%s]" % (name, twin), not diff,
                      "the entries differ in %s: the reference form allocates, converts or releases differently from the pointer "
                      "form (e.g. inheriting the caller-allocated `*` statements makes the wrapper malloc a buffer the library "
                      "replaces, and free the library's memory afterwards)" % diff, table.loc(e.raw))
            args = (e.lines("arg_call"), e2.lines("arg_call"))
            run.check(R, "py_statements[%s<->%s]:arg_call" % (name, twin),
                      len(args[0]) == len(args[1]) == 1 and args[1][0] == "&" + args[0][0],
                      "the call arguments are %s and %s: the pointer form passes the address of what the reference form passes"
                      % args, table.loc(e.raw))
    run.floor(R, "reference-to-pointer entries with a pointer-to-pointer twin", n, 3)



def rule_r24(repo, run, T):
    R = run.rule("C03.R24", "a struct-as-class object keeps two PyObject pointers per pointer member (the array handed out by the "
                            "getter and the capsule that owns the memory): declared, cleared and released together - every group of "
                            "process_member_obj calls names each of them once")
    wp = repo.module("wrapp")
    groups = {}
    for q, fn in sorted(wp.functions().items()):
        for c in ast.walk(fn):
            if isinstance(c, ast.Call) and (pyflow.call_name(c) or "").endswith(".process_member_obj") and len(c.args) == 3:
                text = pyflow.const_str(c.args[1])
                if text is None:
                    continue
                groups.setdefault((q, ast.unparse(c.args[2])), []).append((c, text))
    universe = set()
    for calls in groups.values():
        for c, text in calls:
            universe |= set(re.findall(r"\{(PY_member_\w+)\}", text))
    if len(universe) < 2 or len(groups) < 3:
        raise AnalysisError("C03.R24: process_member_obj call groups not found (%d groups, fields %s)" % (len(groups), sorted(universe)))
    for (q, out), calls in sorted(groups.items()):
        fields = [f for c, text in calls for f in re.findall(r"\{(PY_member_\w+)\}", text)]
        shapes = set(re.sub(r"\{PY_member_\w+\}", "{}", text) for c, text in calls)
        run.check(R, "wrapp.%s:process_member_obj(%s)" % (q, out), sorted(fields) == sorted(universe) and len(shapes) == 1,
                  "the calls name %s with the statement shapes %s; each of %s has to get the same statement once: a pointer that is "
                  "not cleared is released as garbage when the object goes away, one that is not released leaks"
                  % (fields, sorted(shapes), sorted(universe)), wp.loc(calls[0][0]))



def rule_r25(repo, run, T):
    R = run.rule("C03.R25", "the body of a Python wrapper is assembled in the order conversion - call - post_call (build the "
                            "result objects from the C buffers) - cleanup (release the buffers) - return - fail: label")
    wp = repo.module("wrapp")
    fn = wp.func("Wrapp.wrap_function")
    ORDER = ["post_declare_code", "post_parse_code", "pre_call_case", "post_call_code", "cleanup_code", "return_code", "fail_code"]
    pos = {}
    for c in ast.walk(fn):
        if isinstance(c, ast.Call) and isinstance(c.func, ast.Attribute) and pyflow.is_name(c.func.value, "PY_code") \
                and c.func.attr in ("extend", "append") and c.args:
            a = c.args[0]
            while isinstance(a, ast.Subscript):
                a = a.value
            if isinstance(a, ast.Name) and a.id in ORDER:
                pos.setdefault(a.id, []).append(c)
    missing = [k for k in ("post_call_code", "cleanup_code", "return_code", "fail_code") if k not in pos]
    if missing:
        raise AnalysisError("C03.R25: the pieces %s are no longer appended to PY_code in wrap_function" % missing)
    present = [k for k in ORDER if k in pos]
    for a, b in zip(present, present[1:]):
        last_a = max((c.lineno, c.col_offset) for c in pos[a])
        first_b = min((c.lineno, c.col_offset) for c in pos[b])
        run.check(R, "wrapp.Wrapp.wrap_function:%s<%s" % (a, b), last_a < first_b,
                  "`%s` is appended to the body at line %d, after `%s` (line %d): e.g. the cleanup clause frees the C array the "
                  "post_call clause still reads to build the returned list" % (a, last_a[0], b, first_b[0]),
                  wp.loc([c for c in pos[b] if (c.lineno, c.col_offset) == first_b][0]))


def rule_r26(repo, run, T):
    R = run.rule("C03.R26", "the format unit `O` of Py_BuildValue takes a PyObject: a type whose value is not an object (its "
                            "typemap has a PY_ctor that makes one) is never paired with `O` and its C value in the result tuple")
    types = tables.TypeTable(repo)
    wp = repo.module("wrapp")
    fn = wp.func("Wrapp.intent_out")
    # types at risk: no PY_format / PY_build_format of their own (the default is "O"), a PY_ctor, no PY_build_arg
    risky = []
    for name, t in sorted(types.types.items()):
        fmt_ = t.get("PY_build_format") or t.get("PY_format")
        if t.get("PY_ctor") and not t.get("PY_build_arg") and (fmt_ in (None, "O")):
            risky.append(name)
    if not risky:
        raise AnalysisError("C03.R26: no typemap with a PY_ctor and the default format O (void is one)")
    # intent_out has an arm for them: a test on the format being "O" together with PY_ctor that switches to the created object
    arms = [i for i in ast.walk(fn) if isinstance(i, ast.If) and re.search(r"==\s*'O'", ast.unparse(i.test)) and "PY_ctor" in ast.unparse(i.test)]
    ok = False
    for i in arms:
        sets = dict((ast.unparse(a.targets[0]), ast.unparse(a.value)) for a in i.body if isinstance(a, ast.Assign))
        if sets.get("build_format") == "'N'" and "py_var" in sets.get("vargs", ""):
            ok = True
    run.check(R, "wrapp.Wrapp.intent_out:object-format-takes-object", ok,
              "for %s the tuple is built with format `O` and the C value itself (`{cxx_var}`): Py_BuildValue takes the address for a "
              "PyObject and the interpreter crashes; alone, the same value is returned through PY_ctor" % risky, wp.loc(fn),
              sample=dict(types=risky))


def run(repo, run, tier):
    tables.check_model_assumptions(repo)
    T = dict(py=tables.StatementTable(repo, "wrapp", "py_statements"),
             helpers=tables.build_helper_table(repo))
    types = tables.TypeTable(repo)
    rule_r1(repo, run, types)
    rule_r2(repo, run, T)
    rule_r3(repo, run, T, types)
    rule_r4(repo, run, T)
    rule_r5(repo, run)
    rule_r6(repo, run)
    rule_r7(repo, run)
    rule_r8(repo, run, T)
    rule_r9(repo, run)
    rule_r10(repo, run, T)
    rule_r11(repo, run, T)
    rule_r12(repo, run, T)
    rule_r13(repo, run, T)
    rule_r14(repo, run, T)
    rule_r15(repo, run, T)
    rule_r16(repo, run, T)
    rule_r17(repo, run, T)
    rule_r18(repo, run, T)
    rule_r19(repo, run, T)
    rule_r20(repo, run, T)
    rule_r21(repo, run, T)
    run.assumptions.append("LP64 sizes; CPython PyArg_Parse / Py_BuildValue unit table in the checker")
    rule_r23(repo, run, T)
    rule_r24(repo, run, T)
    rule_r25(repo, run, T)
    rule_r26(repo, run, T)
