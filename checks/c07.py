"""C07 - output is a pure, repeatable function of the inputs and the command
line.  Decided: absence (in source) of every mechanism that can make two runs
differ: process-wide mutable state that survives a run, asymmetric language
selection in the shared tables, nondeterminism sources, iteration over
unordered collections, shared mutable defaults."""
import ast
import re

from sa import tables, pyflow, state
from sa.symbols import Program
from sa.loader import AnalysisError, enclosing_function, parent_chain

EXPLANATION = (
    "Whole-program effect analysis over shroud/*.py: (R1) inventory of every module-level and "
    "class-level mutable binding, all in-place mutation sites (direct, through local aliases and "
    "through callees that mutate a parameter); each mutated binding must be rebound fresh on every "
    "run or only be overwritten by key without a membership guard; (R2) language selection symmetry "
    "of the shared statement tables (c_X / cxx_X twins); (R3) no clock/random/env/host/pid/id/hash "
    "sources, file modes r/w only; (R4) no iteration/join over set-typed expressions without "
    "sorted(); (R5) no in-place mutation of the shared mutable Typemap defaults.")
NOT_DECIDED = "Byte equality of two actual runs (would need running the generator)."

ENTRY = "main:main_with_args"


def _membership_guard(node, func, names):
    """True if node is guarded by a test `k in X` / `k not in X` where X's root
    is in `names` (dominating if-tests and preceding early exits)."""
    tests = pyflow.dominating_tests(node) + pyflow.early_exit_guards(func, node)
    for test, pol in tests:
        for n in ast.walk(test):
            if isinstance(n, ast.Compare):
                for op, c in zip(n.ops, n.comparators):
                    if isinstance(op, (ast.In, ast.NotIn)):
                        d = pyflow.dotted(c)
                        if d and (d in names or d.split(".")[0] in names or d.split(".")[-1] in names):
                            return True
                        # `if K not in C: C[K] = v` on an element/alias of the container: same key, same receiver
                        tgt = _written_slot(node)
                        if tgt and ast.unparse(c) == tgt[0] and ast.unparse(n.left) == tgt[1]:
                            return True
    return False


def _written_slot(node):
    """(container text, key text) of `C[K] = v` / `C.setdefault(K, v)`"""
    if isinstance(node, ast.Assign):
        for t in node.targets:
            if isinstance(t, ast.Subscript):
                return ast.unparse(t.value), ast.unparse(t.slice)
    if isinstance(node, ast.Subscript):
        return ast.unparse(node.value), ast.unparse(node.slice)
    if isinstance(node, ast.Call) and isinstance(node.func, ast.Attribute) and node.args:
        return ast.unparse(node.func.value), ast.unparse(node.args[0])
    if isinstance(node, ast.Expr):
        return _written_slot(node.value)
    return None


def _setdefault_value(node):
    """True when `X.setdefault(k, v)` stores a real value (not an empty container that is only the
    next level of a tree being descended / filled afterwards)."""
    call = node.value if isinstance(node, ast.Expr) else node
    for c in ast.walk(call) if not isinstance(call, ast.Call) else [call]:
        if isinstance(c, ast.Call) and isinstance(c.func, ast.Attribute) and c.func.attr == "setdefault":
            if len(c.args) < 2:
                return False
            v = c.args[1]
            empty = (isinstance(v, (ast.Dict, ast.List, ast.Set)) and not getattr(v, "keys", getattr(v, "elts", []))) or \
                (isinstance(v, ast.Call) and not v.args and not v.keywords)
            return not empty
    return False


def _fresh_before(func, node, name):
    """`name = <fresh object>` assigned earlier in the same function body
    (statement order) than node."""
    for n in ast.walk(func):
        if isinstance(n, ast.Assign) and getattr(n, "lineno", 0) < getattr(node, "lineno", 0):
            for t in n.targets:
                if isinstance(t, ast.Name) and t.id == name:
                    v = n.value
                    if state.is_mutable_value(v) or (isinstance(v, ast.Call)):
                        return True
    return False


def rule_r1(repo, run, P):
    R = run.rule("C07.R1", "every process-wide mutable binding that is mutated in place is reset per run "
                           "or only overwritten by key without a membership guard")
    bindings = state.inventory(P)
    state.collect_mutations(P, bindings)
    summaries, params = state.param_mutation_summaries(P)
    reach = set(P.reachable([ENTRY]))
    if len(reach) < 300:
        raise AnalysisError("C07.R1: only %d functions reachable from %s" % (len(reach), ENTRY))
    run.floor(R, "mutable bindings inventoried", len(bindings), 40)
    mutated = 0
    for ident, b in sorted(bindings.items()):
        mod = P.mods[b.module]
        if not b.mutations:
            run.ok(R, ident + ":immutable-use")
            continue
        mutated += 1
        reb = [fid for fid, n in b.rebinds if fid in reach]
        for fid, node, how in b.mutations:
            func = P.funcs[fid]
            loc = P.mods[P.module_of(fid)].loc(node)
            construct = "%s<-%s" % (ident, fid.split(":")[1])
            if fid not in reach:
                run.ok(R, construct + ":unreachable")
                continue
            if reb:
                run.ok(R, construct, sample=dict(binding=ident, mutation=how,
                                                 reset_by=reb[0], rule="rebound every run"))
                continue
            if _fresh_before(func, node, b.name):
                run.ok(R, construct, sample=dict(binding=ident, mutation=how,
                                                 rule="fresh object bound earlier in the same function"))
                continue
            # classify the primitive operation(s)
            prims = _primitive_sites(P, fid, node, how, summaries, params)
            bad = []
            if b.kind == "class":
                bad.append("class-level container mutated through an instance at %s: it is shared by "
                           "every instance ever created in the process (readers iterate the whole "
                           "container)" % loc)
                prims = []
            for kind, pnode, pfid, pname in prims:
                pfunc = P.funcs[pfid]
                if kind == "call:setdefault" and _setdefault_value(pnode):
                    bad.append("setdefault at %s keeps the value stored by an earlier run (first writer wins)"
                               % P.mods[P.module_of(pfid)].loc(pnode))
                elif kind in ("setitem",) or kind == "call:setdefault":
                    if _membership_guard(pnode, pfunc, {pname, b.name, "self." + b.name}):
                        bad.append("%s at %s is guarded by a membership test on the container: a value "
                                   "from an earlier run is kept" % (kind, P.mods[P.module_of(pfid)].loc(pnode)))
                elif kind == "setattr":
                    pass
                else:
                    bad.append("%s at %s accumulates in a container that is never reset"
                               % (kind, P.mods[P.module_of(pfid)].loc(pnode)))
            run.check(R, construct, not bad,
                      "process-wide state %s survives a run: %s" % (ident, "; ".join(bad)), loc,
                      sample=dict(binding=ident, mutation=how, rule="overwrite by key, no membership guard"))
    run.floor(R, "mutated bindings", mutated, 8)


def _primitive_sites(P, fid, node, how, summaries, params, depth=0):
    """Resolve a mutation record to primitive (kind, node, fid, receiver-root) sites."""
    func = P.funcs[fid]
    if isinstance(node, ast.Call) and how.startswith("passed to"):
        m = re.match(r"passed to (\S+) which mutates parameter (\w+)", how)
        callee, pname = m.group(1), m.group(2)
        return _param_sites(P, callee, pname, summaries, params, depth)
    kind = how.split(" on ")[0]
    recv = how.split(" on ")[1].split(" ")[0] if " on " in how else ""
    return [(kind, node, fid, recv.split(".")[-1] if recv.startswith("self.") else recv.split(".")[0])]


def _param_sites(P, fid, pname, summaries, params, depth):
    out = []
    if depth > 6:
        return out
    func = P.funcs[fid]
    ali = state.alias_roots(func)
    for kind, recv, node in pyflow.mutation_sites(list(func.body)):
        if recv is None or kind == "augassign":
            continue
        root = recv.split(".")[0]
        if root == pname or pname in ali.get(root, ()):
            if kind == "setattr" and recv.count(".") == 0:
                continue
            out.append((kind, node, fid, pname))
    for call in P.calls_of(fid):
        ids, how = P.resolve_call(call, fid)
        if how.startswith("byname-multi") or how == "unresolved":
            continue
        for cid in ids:
            pn = params.get(cid, [])
            off = 1 if pn and pn[0] == "self" and how != "module" else 0
            for i, a in enumerate(call.args):
                if isinstance(a, ast.Name) and (a.id == pname or pname in ali.get(a.id, ())):
                    j = i + off
                    if j < len(pn) and pn[j] in summaries.get(cid, ()):
                        out.extend(_param_sites(P, cid, pn[j], summaries, params, depth + 1))
    return out


# ---------------------------------------------------------------------------
def rule_r2(repo, run):
    R = run.rule("C07.R2", "language selection symmetry: an entry reachable from both languages that has "
                           "c_X or cxx_X has the twin (or plain X is absent), so update_for_language leaves "
                           "no clause of the other language behind")
    clauses = tables.language_clauses(repo)
    n = 0
    for modname, var, cxx_only in (("statements", "fc_statements", ("string", "vector", "shadow")),
                                   ("wrapp", "py_statements", ("string", "vector", "shadow")),
                                   ("wrapl", "lua_statements", ())):
        t = tables.StatementTable(repo, modname, var)
        for e in t.entries:
            name = str(e["name"])
            group = name.split("_")[1] if "_" in name else ""
            for clause in clauses:
                ck, xk = "c_" + clause, "cxx_" + clause
                has_c, has_x, has_plain = ck in e, xk in e, clause in e
                if not (has_c or has_x):
                    continue
                n += 1
                construct = "%s.%s[%s].%s" % (modname, var, name, clause)
                if group in cxx_only:
                    # only ever selected for C++: c twin not needed
                    run.ok(R, construct)
                    continue
                probs = []
                if has_c != has_x:
                    have = ck if has_c else xk
                    miss = xk if has_c else ck
                    probs.append("has %s but not %s: after a run in the language of %s the shared table "
                                 "keeps that value for later runs in the other language" % (have, miss, have))
                run.check(R, construct, not probs, "; ".join(probs), t.loc(e),
                          sample=dict(entry=name, clause=clause, c=has_c, cxx=has_x, plain=has_plain))
    run.floor(R, "language specific clauses", n, 20)


# ---------------------------------------------------------------------------
FORBIDDEN_MODULES = {"time", "datetime", "random", "uuid", "socket", "getpass", "platform", "secrets",
                     "tempfile"}
FORBIDDEN_CALLS = {"os.getpid", "os.getcwd", "os.urandom", "os.getenv", "os.path.abspath",
                   "os.path.realpath", "os.listdir", "os.scandir", "os.walk", "glob.glob", "os.getlogin",
                   "os.uname", "os.times", "os.stat", "os.path.getmtime", "os.path.getctime", "os.path.getatime",
                   "os.path.relpath", "os.path.expanduser", "os.path.expandvars", "os.path.samefile",
                   "os.getuid", "os.getgid", "os.getppid", "os.cpu_count", "os.path.getsize", "os.chdir",
                   "sys.getrefcount", "sys.getsizeof", "object.__hash__", "os.get_terminal_size"}
FORBIDDEN_NAMES = {"id", "hash"}


def _under_main_guard(node):
    for test, pol in pyflow.dominating_tests(node):
        if pol and isinstance(test, ast.Compare) and pyflow.is_name(test.left, "__name__"):
            return True
    return False


def rule_r3(repo, run):
    R = run.rule("C07.R3", "no clock / random / environment / host / pid / id() / hash() source; files are "
                           "opened with mode r or w only")
    n = 0
    for m in repo.modules():
        alias = {}
        for node in ast.walk(m.tree):
            if isinstance(node, ast.Import):
                for a in node.names:
                    if a.asname:
                        alias[a.asname] = a.name
            elif isinstance(node, ast.ImportFrom) and node.level == 0 and node.module:
                for a in node.names:
                    alias[a.asname or a.name] = node.module + "." + a.name
        for node in ast.walk(m.tree):
            if _under_main_guard(node):
                continue
            if isinstance(node, ast.Import):
                for a in node.names:
                    n += 1
                    run.check(R, "%s:import %s" % (m.name, a.name), a.name.split(".")[0] not in FORBIDDEN_MODULES,
                              "imports nondeterminism source %s" % a.name, m.loc(node))
            elif isinstance(node, ast.ImportFrom) and node.level == 0:
                n += 1
                run.check(R, "%s:from %s" % (m.name, node.module), (node.module or "").split(".")[0] not in FORBIDDEN_MODULES,
                          "imports nondeterminism source %s" % node.module, m.loc(node))
            elif isinstance(node, ast.Call):
                d = pyflow.call_name(node) or ""
                head = d.split(".")[0]
                if head in alias:
                    d = alias[head] + d[len(head):]
                fn = enclosing_function(node)
                where = "%s.%s" % (m.name, getattr(fn, "_qualname", "<module>"))
                if d in FORBIDDEN_CALLS or d.split(".")[0] in FORBIDDEN_MODULES:
                    n += 1
                    run.fail(R, "%s:%s" % (where, d), "call of %s makes output depend on the environment" % d,
                             m.loc(node))
                elif d in FORBIDDEN_NAMES:
                    n += 1
                    # id() inside debugging helper Scope.trace prints only
                    ok = where.endswith("Scope.trace")
                    run.check(R, "%s:%s()" % (where, d), ok,
                              "%s() value differs between runs" % d, m.loc(node))
                elif d == "open":
                    n += 1
                    mode = "r"
                    if len(node.args) > 1:
                        mode = pyflow.const_str(node.args[1])
                    for k in node.keywords:
                        if k.arg == "mode":
                            mode = pyflow.const_str(k.value)
                    run.check(R, "%s:open@%s" % (where, m.seg(node.args[0]) if node.args else "?"),
                              mode in ("r", "w"),
                              "file opened with mode %r (append/update modes make output depend on "
                              "pre-existing files)" % mode, m.loc(node), sample=dict(where=where, mode=mode))
            elif isinstance(node, ast.Attribute):
                d = pyflow.dotted(node) or ""
                if d in ("os.environ", "sys.argv", "sys.flags", "sys.hash_info"):
                    n += 1
                    fn = enclosing_function(node)
                    run.fail(R, "%s.%s:%s" % (m.name, getattr(fn, "_qualname", "<module>"), d),
                             "reads %s" % d, m.loc(node))
    run.floor(R, "imports/open/calls inspected", n, 40)
    # the current directory is searched for input files only when no --path was given
    mm = repo.module("main")
    f = mm.func("main_with_args")
    dots = [a for a in ast.walk(f) if isinstance(a, ast.Assign) and isinstance(a.value, (ast.List, ast.Tuple))
            and any(pyflow.const_str(e) in (".", "./", "") for e in a.value.elts)]
    for a in dots:
        tests = [(mm.seg(t), pol) for t, pol in pyflow.dominating_tests(a, stop=f)]
        ok = any(t == "args.path" and not pol for t, pol in tests)
        run.check(R, "main.main_with_args:%s=cwd" % (pyflow.dotted(a.targets[0]) or "?"), ok,
                  "the current directory is put on the file search path unconditionally (guards: %s): with the same "
                  "absolute arguments the files that are read depend on where the process was started" % tests,
                  mm.loc(a), sample=dict(assign=mm.seg(a), guards=tests))
    if not any(isinstance(a, ast.Assign) and pyflow.is_name(a.targets[0], "search_path") for a in ast.walk(f)):
        raise AnalysisError("C07.R3: search path of main_with_args not found")


# ---------------------------------------------------------------------------
def _scopes(module):
    """(scope node, statements-bearing nodes of that scope only)"""
    yield module.tree
    for node in ast.walk(module.tree):
        if isinstance(node, (ast.FunctionDef, ast.AsyncFunctionDef, ast.Lambda)):
            yield node


def _own_nodes(scope):
    """nodes of a scope without those of nested function scopes"""
    todo = list(ast.iter_child_nodes(scope))
    while todo:
        n = todo.pop()
        yield n
        if not isinstance(n, (ast.FunctionDef, ast.AsyncFunctionDef, ast.Lambda)):
            todo.extend(ast.iter_child_nodes(n))


def _set_typed_names(scope, inherited=()):
    """Names of one scope ALL of whose bindings are set-valued expressions
    (set()/{...}/set comprehension/set algebra over set-typed operands) - a
    fixed point, so `both = set(a) & set(b)` and `c = both - other` count."""
    binds = {}
    for node in _own_nodes(scope):
        if isinstance(node, ast.Assign):
            for t in node.targets:
                if isinstance(t, ast.Name):
                    binds.setdefault(t.id, []).append(node.value)
                elif isinstance(t, (ast.Tuple, ast.List)):
                    for e in t.elts:
                        if isinstance(e, ast.Name):
                            binds.setdefault(e.id, []).append(None)
        elif isinstance(node, (ast.AugAssign, ast.AnnAssign)) and isinstance(node.target, ast.Name):
            v = node.value
            if isinstance(node, ast.AugAssign) and isinstance(node.op, (ast.BitOr, ast.BitAnd, ast.Sub, ast.BitXor)):
                continue        # s |= other keeps the type of s
            binds.setdefault(node.target.id, []).append(v)
        elif isinstance(node, (ast.For, ast.comprehension)):
            for e in ast.walk(node.target):
                if isinstance(e, ast.Name):
                    binds.setdefault(e.id, []).append(None)
        elif isinstance(node, (ast.With, ast.ExceptHandler, ast.Import, ast.ImportFrom)):
            pass
    if isinstance(scope, (ast.FunctionDef, ast.AsyncFunctionDef)):
        for a in scope.args.args + scope.args.kwonlyargs:
            binds.setdefault(a.arg, []).append(None)
    names = set(inherited) - set(binds)
    changed = True
    while changed:
        changed = False
        for name, vals in binds.items():
            if name in names:
                continue
            if vals and all(v is not None and _is_set_expr(v, names) for v in vals):
                names.add(name)
                changed = True
    return names


def _is_set_expr(e, setnames):
    if isinstance(e, (ast.Set, ast.SetComp)):
        return True
    if isinstance(e, ast.Call) and (pyflow.call_name(e) or "") in ("set", "frozenset"):
        return True
    if isinstance(e, ast.Name) and e.id in setnames:
        return True
    if isinstance(e, ast.BinOp) and isinstance(e.op, (ast.BitOr, ast.BitAnd, ast.Sub, ast.BitXor)):
        if any(isinstance(x, ast.Call) and isinstance(x.func, ast.Attribute) and x.func.attr in ("keys", "items")
               for x in (e.left, e.right)):
            return True         # set algebra on dict views yields a set
        return _is_set_expr(e.left, setnames) or _is_set_expr(e.right, setnames)
    if isinstance(e, ast.Call) and isinstance(e.func, ast.Attribute) and \
            e.func.attr in ("union", "intersection", "difference", "symmetric_difference") and \
            _is_set_expr(e.func.value, setnames):
        return True
    return False


def rule_r4(repo, run):
    R = run.rule("C07.R4", "no iteration / join / list() / tuple() / %-format over a set-typed expression "
                           "without sorted()")
    n = 0
    for m in repo.modules():
        modnames = _set_typed_names(m.tree)
        allnames = set()
        for scope in _scopes(m):
            setnames = modnames if scope is m.tree else _set_typed_names(scope, modnames)
            allnames |= setnames
            for node in _own_nodes(scope):
                sites = []
                if isinstance(node, (ast.For, ast.comprehension)):
                    sites.append(("iteration", node.iter))
                elif isinstance(node, ast.Call):
                    d = pyflow.call_name(node) or ""
                    last = d.split(".")[-1]
                    if last in ("join", "list", "tuple", "enumerate", "extend", "writelines") and node.args:
                        sites.append((last + "()", node.args[0]))
                    if last in ("pop",) and isinstance(node.func, ast.Attribute) and \
                            _is_set_expr(node.func.value, setnames) and not node.args:
                        sites.append(("set.pop()", node.func.value))
                for what, e in sites:
                    n += 1
                    if _is_set_expr(e, setnames):
                        fn = enclosing_function(node)
                        run.fail(R, "%s.%s:%s over set" % (m.name, getattr(fn, "_qualname", "<module>"), what),
                                 "%s over a set-typed expression %r: order depends on PYTHONHASHSEED"
                                 % (what, m.seg(e)), m.loc(node))
        for nm in sorted(allnames):
            run.ok(R, "%s:set-typed name %s only used for membership" % (m.name, nm))
    run.instances(R, n)
    run.floor(R, "iteration/join sites inspected", n, 400)
    run.ok(R, "iteration sites", sample=dict(sites_inspected=n))


# ---------------------------------------------------------------------------
def rule_r5(repo, run, P):
    R = run.rule("C07.R5", "the mutable default values shared by all Typemap instances ([] / {}) are never "
                           "mutated in place (only rebound)")
    tt = tables.TypeTable(repo)
    shared = sorted(k for k, v in tt.defaults.items() if isinstance(v, (list, dict)))
    if not shared:
        raise AnalysisError("C07.R5: no mutable defaults found in Typemap._order")
    n = 0
    for m in repo.modules():
        for kind, recv, node in pyflow.mutation_sites(m.tree):
            if recv is None:
                continue
            inplace_add = isinstance(node, ast.AugAssign) and isinstance(node.op, ast.Add)
            if kind in ("setattr", "augassign") and not inplace_add:
                continue        # rebinding is fine; `x.f += y` extends the shared list in place
            if kind == "setattr":
                kind = "+= (in-place extend)"
            parts = recv.split(".")
            if len(parts) >= 2 and parts[-1] in shared and parts[0] != "self":
                # receiver like ntypemap.c_header  /  arg.typemap.LUA_statements
                n += 1
                fn = enclosing_function(node)
                run.fail(R, "%s.%s:%s" % (m.name, getattr(fn, "_qualname", "<module>"), recv),
                         "in-place %s of typemap field %s whose default object is shared by every Typemap"
                         % (kind, parts[-1]), m.loc(node))
    for f in shared:
        run.ok(R, "typemap.Typemap.defaults[%s]" % f, sample=dict(field=f, rule="no in-place mutation found"))


def rule_r6(repo, run):
    R = run.rule("C07.R6", "per-run registries are rebuilt unconditionally at the start of a run")
    tm = repo.module("typemap")
    ini = tm.func("initialize")
    first = [st for st in ini.body if not (isinstance(st, ast.Expr) and isinstance(st.value, ast.Constant))][0]
    # the global that set_global_types() rebinds is the registry; emptying it in place is the same reset
    sg = tm.func("set_global_types")
    regs = set(x for g in ast.walk(sg) if isinstance(g, ast.Global) for x in g.names)
    ok = isinstance(first, ast.Expr) and isinstance(first.value, ast.Call) and \
        (pyflow.call_name(first.value) or "") == "set_global_types" and first.value.args and \
        (isinstance(first.value.args[0], ast.Dict) and not first.value.args[0].keys or
         isinstance(first.value.args[0], ast.Call) and pyflow.call_name(first.value.args[0]) == "dict"
         and not first.value.args[0].args and not first.value.args[0].keywords)
    if not ok and isinstance(first, ast.Expr) and isinstance(first.value, ast.Call) and isinstance(first.value.func, ast.Attribute) \
            and first.value.func.attr == "clear" and isinstance(first.value.func.value, ast.Name) \
            and first.value.func.value.id in regs:
        ok = True
    early = [r for r in ast.walk(ini) if isinstance(r, ast.Return) and r.lineno < ini.body[-1].lineno and
             any(True for t, pol in pyflow.dominating_tests(r, stop=ini))]
    run.check(R, "typemap.initialize:fresh-registry", ok and not early,
              "typemap.initialize() must first discard the previous registry (set_global_types({})) and then rebuild every "
              "predefined type; reusing what an earlier run left behind carries its mutations (cached destructor indices, "
              "YAML-updated fields) into the next library", tm.loc(ini))
    mm = repo.module("main")
    f = mm.func("main_with_args")
    calls = [pyflow.call_name(c) or "" for c in ast.walk(f) if isinstance(c, ast.Call)]
    run.check(R, "main.main_with_args:initialize", "typemap.initialize" in calls,
              "every run must call typemap.initialize()", mm.loc(f))



def rule_r7(repo, run):
    R = run.rule("C07.R7", "an attribute whose value is an object of the tree (a node) never reaches `\"{}({})\".format(attr, value)`: "
                           "the default repr of an object contains its address, which differs from run to run")
    # attribute tables and the keys stored in them with a node as value
    NODE_LISTS = ("variables", "functions", "classes", "enums", "namespaces", "typedefs", "params")
    obj_keys = {}
    for m in repo.modules():
        for q, fn in m.functions().items():
            for a in ast.walk(fn):
                if not (isinstance(a, ast.Assign) and len(a.targets) == 1 and isinstance(a.targets[0], ast.Subscript)
                        and isinstance(a.targets[0].value, ast.Attribute) and a.targets[0].value.attr in ("attrs", "metaattrs")
                        and pyflow.const_str(a.targets[0].slice) and isinstance(a.value, ast.Name)):
                    continue
                v = a.value.id
                is_node = v == "self"
                p_ = getattr(a, "_parent", None)
                while p_ is not None and not is_node:
                    if isinstance(p_, ast.For) and pyflow.is_name(p_.target, v) and isinstance(p_.iter, ast.Attribute) \
                            and p_.iter.attr in NODE_LISTS:
                        is_node = True
                    p_ = getattr(p_, "_parent", None)
                if is_node:
                    obj_keys.setdefault(a.targets[0].value.attr, {})[pyflow.const_str(a.targets[0].slice)] = (m, a)
    if not obj_keys:
        raise AnalysisError("C07.R7: no node-valued attribute found (metaattrs['struct_member'] is one)")
    dm = repo.module("declast")
    always = set()
    for a in ast.walk(dm.tree):
        if isinstance(a, ast.Assign) and pyflow.is_name(a.targets[0], "_skip_annotations") and isinstance(a.value, (ast.List, ast.Tuple)):
            always |= set(pyflow.const_str(e) for e in a.value.elts)
    n = 0
    for m in repo.modules():
        for c in ast.walk(m.tree):
            if not (isinstance(c, ast.Call) and isinstance(c.func, ast.Attribute) and c.func.attr == "gen_attrs" and c.args):
                continue
            tbl = c.args[0].attr if isinstance(c.args[0], ast.Attribute) else None
            if tbl not in obj_keys:
                continue
            skip = set(always)
            for extra in list(c.args[2:]) + [k.value for k in c.keywords if k.arg == "skip"]:
                for key, val in pyflow.table_fields(extra):
                    skip.add(key)
            for key, (m2, a) in sorted(obj_keys[tbl].items()):
                n += 1
                run.check(R, "%s:gen_attrs(%s):%s" % (m.name, tbl, key), key in skip or key.startswith("_"),
                          "`%s[%r]` holds a node (assigned at %s) and gen_attrs prints every attribute it is not told to skip as "
                          "`+%s(<value>)`: the comment contains `<shroud.ast.VariableNode object at 0x...>`, different in every run"
                          % (tbl, key, m2.loc(a), key), m.loc(c))
    run.floor(R, "node-valued attributes checked against the printers of their table", n, 1)


def run(repo, run, tier):
    tables.check_model_assumptions(repo)
    P = Program(repo)
    rule_r1(repo, run, P)
    rule_r2(repo, run)
    rule_r3(repo, run)
    rule_r4(repo, run)
    rule_r5(repo, run, P)
    rule_r6(repo, run)
    rule_r7(repo, run)
    run.assumptions.extend([
        "dict iteration order is insertion order (CPython >= 3.7) and therefore deterministic",
        "call resolution: own symbol tables (module functions, self.methods through the MRO, unique "
        "method names); calls with more than 6 same-named candidates are not followed",
    ])
