"""C18 - the generated Lua binding is call-equivalent to the wrapped library."""
import ast
import re

from sa import pattern as pat, tables, templ, pyflow, fmtfields
from sa.loader import parent_chain, AnalysisError, enclosing_function

EXPLANATION = (
    "(R1) per typemap the Lua type tag, the pop expression and the push expression belong to one family "
    "consistent with the C type (integer: LUA_TNUMBER/lua_tointeger/lua_pushinteger, floating: "
    "lua_tonumber/lua_pushnumber, bool, string, userdata), pop reads {LUA_index} and push writes "
    "{push_arg}; (R2) dispatch shape in Wrapl.wrap_function: one call variant per default-argument "
    "prefix plus the full list, bucketed by argument count, type tests on the same stack positions, "
    "a luaL_error arm for every non-matching shape (else arm per count, default arm of the switch), "
    "result count assigned in every call arm and returned; (R3) lua_statements templates only use "
    "defined fields, the stack index advances exactly for intent in/inout arguments, results are "
    "pushed by the statement entry and counted; (R4) Lua flags reach generated declarations; (R5) argument type "
    "tests, c_to_cxx order, result handling and the LUA_this_call sibling; (R6) stack layout of a method call: "
    "first argument slot, argument count and type-test slots are shifted by one exactly where the object is "
    "popped from slot 1.")
NOT_DECIDED = ("Behaviour of the compiled Lua binding on concrete argument stacks.  Forms for which "
               "lua_statements has no entries although the group has some (class instances passed by value, "
               "intent(out) pointers, vectors) fall back to the empty default and are outside the subset "
               "the property names; they are listed as unmodelled, not decided.  (A type group with Lua push/pop "
               "expressions and no entries at all is reported by R8.)")

FAMILY = {
    "integer": ("LUA_TNUMBER", "lua_tointeger", "lua_pushinteger"),
    "floating": ("LUA_TNUMBER", "lua_tonumber", "lua_pushnumber"),
    "bool": ("LUA_TBOOLEAN", "lua_toboolean", "lua_pushboolean"),
    "string": ("LUA_TSTRING", "lua_tostring", "lua_pushstring"),
}
INTEGER_TYPES = {"short", "int", "long", "long long", "unsigned short", "unsigned int", "unsigned long",
                 "unsigned long long", "size_t", "int8_t", "int16_t", "int32_t", "int64_t", "uint8_t",
                 "uint16_t", "uint32_t", "uint64_t"}
FLOAT_TYPES = {"float", "double", "float complex", "double complex"}


def family_of(t):
    ct = str(t.get("c_type"))
    if t.get("base") == "string" or t.get("sgroup") in ("char", "string"):
        return "string"
    if ct == "bool":
        return "bool"
    if ct in INTEGER_TYPES:
        return "integer"
    if ct in FLOAT_TYPES:
        return "floating"
    return None


def rule_r1(repo, run, types):
    R = run.rule("C18.R1", "LUA_type / LUA_pop / LUA_push of a typemap belong to one family matching the C type")
    n = 0
    for name, t in sorted(types.types.items()):
        lt, pop, push = t.get("LUA_type"), t.get("LUA_pop"), t.get("LUA_push")
        fam = family_of(t)
        if lt == "LUA_TNONE" and pop == "POP" and push == "PUSH":
            continue          # type not supported by the Lua wrapper (defaults)
        n += 1
        construct = "typemap[%s].LUA" % name
        loc = types.loc(name)
        if fam is None:
            run.check(R, construct, False, "Lua fields set for a type of unknown family (%s)" % t.get("c_type"), loc)
            continue
        wtype, wpop, wpush = FAMILY[fam]
        probs = []
        if lt != wtype:
            probs.append("LUA_type %s, expected %s" % (lt, wtype))
        if not str(pop).startswith(wpop + "("):
            probs.append("LUA_pop %r, expected %s(...)" % (pop, wpop))
        if not str(push).startswith(wpush + "("):
            probs.append("LUA_push %r, expected %s(...)" % (push, wpush))
        if "{LUA_index}" not in str(pop) or "{LUA_state_var}" not in str(pop):
            probs.append("LUA_pop must read stack slot {LUA_index} of {LUA_state_var}")
        if "{push_arg}" not in str(push) or "{LUA_state_var}" not in str(push):
            probs.append("LUA_push must push {push_arg} onto {LUA_state_var}")
        run.check(R, construct, not probs, "; ".join(probs), loc,
                  sample=dict(type=name, family=fam, LUA_type=lt, pop=str(pop), push=str(push)))
    run.floor(R, "typemaps with Lua fields", n, 18)
    # shadow/struct defaults
    tm = repo.module("typemap")
    for fn in ("fill_shadow_typemap_defaults", "fill_struct_typemap_defaults"):
        f = tm.func(fn)
        s = tm.seg(f)
        run.check(R, "typemap.%s" % fn, 'ntypemap.LUA_type = "LUA_TUSERDATA"' in s and "luaL_checkudata" in s and
                  '"{LUA_metadata}"' in s,
                  "class/struct arguments must be userdata checked against the class metatable", tm.loc(f))


def rule_r2(repo, run):
    R = run.rule("C18.R2", "overload/default dispatch by stack depth and lua_type with an error arm for every mismatch")
    wl = repo.module("wrapl")
    f = wl.func("Wrapl.wrap_function")
    src = wl.seg(f)
    loc = wl.loc(f)
    # one variant per default prefix + full list
    loops = [n for n in ast.walk(f) if isinstance(n, ast.For) and "function.ast.params" in wl.seg(n.iter)]
    ok = False
    if len(loops) == 1:
        lp = loops[0]
        inits = [n for n in ast.walk(lp) if isinstance(n, ast.If) and "arg.init is not None" in wl.seg(n.test)]
        ok = len(inits) == 1 and "LuaFunction(" in wl.seg(inits[0]) and "in_args[:]" in wl.seg(inits[0])
        # append to in_args after the prefix variant was recorded
        app = [n for n in lp.body if isinstance(n, ast.Expr) and "in_args.append(arg)" in wl.seg(n)]
        ok = ok and len(app) == 1 and app[0].lineno > inits[0].lineno
    run.check(R, "wrapl.Wrapl.wrap_function:default-prefixes", ok,
              "a call variant must be recorded for the prefix before each defaulted argument (copy of the "
              "arguments so far), then the argument is added", loc)
    full = [n for n in ast.walk(f) if isinstance(n, ast.Call) and (pyflow.call_name(n) or "") == "LuaFunction"]
    run.check(R, "wrapl.Wrapl.wrap_function:full-variant", len(full) == 2,
              "exactly two LuaFunction constructions expected (prefix variant, full variant), found %d" % len(full), loc,
              sample=dict(variants=len(full)))
    run.check(R, "wrapl.Wrapl.wrap_function:by-count",
              "by_count = [[] for i in range(maxargs + 1)]" in src and "by_count[a_call.nargs].append(a_call)" in src and
              "for nargs, calls in enumerate(by_count):" in src and 'lines.append("case {}:".format(nargs))' in src,
              "variants must be bucketed by their argument count and emitted as `case <count>:`", loc)
    depth = [c for c in ast.walk(f) if isinstance(c, ast.Constant) and isinstance(c.value, str)
             and re.match(r"int SH_nargs = lua_gettop\(\{LUA_state_var\}\)( - 1)?;$", c.value)]
    run.check(R, "wrapl.Wrapl.wrap_function:switch-on-depth",
              bool(depth) and 'lines.append("switch (SH_nargs) {")' in src,
              "the switch must be on lua_gettop() (less the object of a method call)", loc)
    # type checks use the stack slot of the same argument
    run.check(R, "wrapl.Wrapl.wrap_function:type-tests",
              "for iarg, arg in enumerate(call.inargs):" in src and "fmt.itype_var = itype_vars[iarg]" in src and
              "fmt.itype = arg_typemap.LUA_type" in src and '"{itype_var} == {itype}"' in src and
              '"int {itype_var} = " "lua_type({LUA_state_var}, {iarg});"' in src and
              "for iarg in range(1, maxargs + 1):" in src and
              (pat.has(f, "fmt.iarg = iarg") or pat.has(f, "fmt.iarg = iarg + MV_OFF")),
              "argument i must be tested with lua_type(L, <slot of argument i>) against the typemap's LUA_type", loc)
    # error arms
    strs = [n for n in ast.walk(f) if isinstance(n, ast.Constant) and isinstance(n.value, str) and "luaL_error" in n.value]
    else_arm = [n for n in strs if n.value.startswith("else {{+")]
    default_arm = [n for n in strs if n.value.startswith("default:+")]
    ok_else = len(else_arm) == 1 and any("nargs > 0" in wl.seg(t) and p for t, p in pyflow.dominating_tests(else_arm[0], stop=f))
    run.check(R, "wrapl.Wrapl.wrap_function:else-arm", ok_else,
              "every non-zero count needs a final else arm raising luaL_error when no type pattern matches", loc,
              sample=dict(else_arms=len(else_arm)))
    ok_def = len(default_arm) == 1 and "return SH_nresult;" in default_arm[0].value and \
        not [t for t, p in pyflow.dominating_tests(default_arm[0], stop=f) if "nargs" in wl.seg(t)]
    run.check(R, "wrapl.Wrapl.wrap_function:default-arm", ok_def,
              "the switch needs a default arm raising luaL_error and the function must return SH_nresult", loc)
    # result count assigned in every call arm
    arms = [n for n in ast.walk(f) if isinstance(n, ast.Constant) and isinstance(n.value, str) and "SH_nresult = {nresults};" in n.value]
    do_calls = [n for n in ast.walk(f) if isinstance(n, ast.Call) and (pyflow.call_name(n) or "") == "self.do_function"]
    run.check(R, "wrapl.Wrapl.wrap_function:nresult", len(arms) == 4 and len(do_calls) == 5 and
              "fmt.nresults = call.nresults" in src and '"return {nresults};"' in src,
              "each of the four dispatch shapes must set SH_nresult after its call (and the single-variant "
              "path returns nresults): found %d assignments for %d calls" % (len(arms), len(do_calls)), loc,
              sample=dict(assignments=len(arms), calls=len(do_calls)))
    # overloads grouped by C++ name, filtered by the Lua flag
    g = wl.func("Wrapl.wrap_functions")
    s = wl.seg(g)
    run.check(R, "wrapl.Wrapl.wrap_functions:grouping", "name = function.ast.name" in s and
              "overloaded_methods[name].append(function)" in s and "if not function.wrap.lua:" in s,
              "overloads must be grouped by C++ name and filtered by wrap.lua", wl.loc(g))
    # LuaFunction counts
    lf = wl.cls("LuaFunction")
    s = wl.seg(lf)
    run.check(R, "wrapl.LuaFunction", "self.nargs = len(inargs)" in s,
              "a call variant's count must be the number of its input arguments", wl.loc(lf))


def rule_r3(repo, run, types):
    R = run.rule("C18.R3", "lua_statements templates use defined fields; stack index and result pushes are consistent")
    t = tables.StatementTable(repo, "wrapl", "lua_statements")
    defs = fmtfields.defined_fields(repo, ["ast", "generate", "statements", "typemap", "util", "whelpers", "declast", "wrapl"])
    n = 0
    for e in t.entries:
        for key, v in e.items():
            items = v if isinstance(v, (list, tuple)) else [v]
            for s in items:
                if not isinstance(s, str) or key in ("name", "base"):
                    continue
                fs, err = templ.safe_fields(s)
                if err:
                    run.fail(R, "wrapl.lua_statements[%s].%s" % (e["name"], key), "malformed template: %s" % err, t.loc(e))
                    continue
                if not fs:
                    continue
                n += 1
                missing = sorted(set(f for f in fs if not fmtfields.is_defined(f, defs)))
                run.check(R, "wrapl.lua_statements[%s].%s" % (e["name"], key), not missing,
                          "template uses undefined field(s) %s" % missing, t.loc(e),
                          sample=dict(entry=str(e["name"]), clause=key, fields=sorted(set(fs))))
    run.floor(R, "lua templates with fields", n, 10)
    wl = repo.module("wrapl")
    f = wl.func("Wrapl.do_function")
    inc = [x for x in ast.walk(f) if isinstance(x, ast.AugAssign) and pyflow.is_name(x.target, "LUA_index")]
    ok = len(inc) == 1 and isinstance(inc[0].value, ast.Constant) and inc[0].value.value == 1 and \
        any('intent in ["inout", "in"]' in wl.seg(tst) and p for tst, p in pyflow.dominating_tests(inc[0], stop=f))
    run.check(R, "wrapl.Wrapl.do_function:LUA_index", ok,
              "the Lua stack index must advance by one exactly for intent in/inout arguments", wl.loc(f))
    s = wl.seg(f)
    starts = [a for a in ast.walk(f) if isinstance(a, ast.Assign) and pyflow.is_name(a.targets[0], "LUA_index")
              and isinstance(a.value, ast.Constant)]
    run.check(R, "wrapl.Wrapl.do_function:index-start", bool(starts) and all(a.value.value in (1, 2) for a in starts)
              and "fmt_arg.LUA_index = LUA_index" in s,
              "the first argument is stack slot 1 (2 behind the object of a method call) and each argument records its slot "
              "before it is advanced", wl.loc(f))
    run.check(R, "wrapl.Wrapl.do_function:arg-order", "for iarg in range(luafcn.nargs):" in s and
              "arg = ast.params[iarg]" in s and "cxx_call_list.append(fmt_arg.cxx_var)" in s,
              "arguments must be popped and passed in declaration order", wl.loc(f))
    # results: a function result entry pushes exactly one value
    res = t.resolve_all("c++")
    for name, e in sorted(res.items()):
        if name.endswith("_result"):
            if name.split("_")[1] not in ("bool", "native", "string", "shadow", "char"):
                run.unmodelled_site(R, "wrapl.lua_statements[%s]" % name,
                                    "type group outside the subset the property names (scalars, bool, strings, classes)")
                continue
            post = "\n".join(x for s_ in e.lines("post_call") for x in templ.code_lines(s_))
            run.check(R, "wrapl.lua_statements[%s]:push" % name, "{push_expr}" in post,
                      "a result entry must push the result ({push_expr})", t.loc(e.raw),
                      sample=dict(entry=name, post_call=post))
    lf = wl.cls("LuaFunction")
    s = wl.seg(lf)
    run.check(R, "wrapl.LuaFunction:nresults", re.search(r"self\.nresults\s*=", s) is not None and "function" in s,
              "the number of pushed results must be derived from the subprogram kind and out arguments", wl.loc(lf))
    # dtor nulls the pointer (double delete harmless)
    d = res.get("lua_shadow_dtor")
    if d is None:
        raise AnalysisError("C18.R3: lua_shadow_dtor vanished")
    call = [re.sub(r"\s+", "", x) for s_ in d.lines("call") for x in templ.code_lines(s_)]
    run.check(R, "wrapl.lua_statements[lua_shadow_dtor]", call == ["delete{LUA_userdata_var}->{LUA_userdata_member};",
                                                                  "{LUA_userdata_var}->{LUA_userdata_member}=NULL;"],
              "__gc must delete the object and null the pointer", t.loc(d.raw))


def rule_x(repo, run):
    R = run.rule("C18.R4", "variants generated for other languages never enter the Lua overload set (C15.R4: the "
                           "C/Fortran passes do not touch the Lua flag)")
    from checks import c15
    from sa.report import import_rules
    import_rules(run, R, c15, repo, {"C15.R4"}, only=lambda c: "lua" in c.lower())
    # ... and a function wrapped for Lua is wrapped: its flag reaches the containers that decide whether a module is written
    import_rules(run, R, c15, repo, {"C15.R6"}, only=lambda c: c.startswith("ast.WrapFlags.accumulate:lua"))


def rule_r5(repo, run):
    R = run.rule("C18.R5", "per-argument data in the Lua emitter: the type tested for an argument is that argument's, "
                           "and a value is stashed before the template that consumes it is expanded")
    wl = repo.module("wrapl")
    f = wl.func("Wrapl.wrap_function")
    n = 0
    for lp in ast.walk(f):
        if not (isinstance(lp, ast.For) and isinstance(lp.iter, ast.Call) and pyflow.is_name(lp.iter.func, "enumerate")
                and "inargs" in wl.seg(lp.iter)):
            continue
        argv = lp.target.elts[1].id if isinstance(lp.target, ast.Tuple) and len(lp.target.elts) == 2 else None
        for a in ast.walk(lp):
            if isinstance(a, ast.Assign) and isinstance(a.targets[0], ast.Attribute) and a.targets[0].attr == "itype":
                n += 1
                roots = [x.id for x in ast.walk(a.value) if isinstance(x, ast.Name)]
                ok = True
                for rname in roots:
                    if rname == argv:
                        continue
                    defs = [d for d in ast.walk(lp) if isinstance(d, ast.Assign) and pyflow.is_name(d.targets[0], rname)
                            and d.lineno < a.lineno and argv in [x.id for x in ast.walk(d.value) if isinstance(x, ast.Name)]]
                    ok = ok and bool(defs)
                run.check(R, "wrapl.Wrapl.wrap_function:itype-of-argument", ok,
                          "`%s` inside the loop over a call's arguments does not derive from the loop's argument `%s` in this "
                          "loop: every argument is tested against the Lua type of whatever argument an earlier loop left behind"
                          % (wl.seg(a), argv), wl.loc(a))
    run.floor(R, "type-test assignments", n, 1)
    df = wl.func("Wrapl.do_function")
    conv = [a for a in ast.walk(df) if isinstance(a, ast.Assign) and isinstance(a.targets[0], ast.Attribute)
            and a.targets[0].attr == "pop_expr" and "c_to_cxx" in wl.seg(a.value)]
    for a in conv:
        blk = [b for p_ in parent_chain(a) for fld in ("body", "orelse") for b in [getattr(p_, fld, None)]
               if isinstance(b, list) and any(x is a for x in b)]
        before = [st for st in (blk[0] if blk else []) if st.lineno < a.lineno]
        stash = any(pat.match(pat.parse("MV_F.c_var = MV_F.pop_expr")[1], st, {}) for st in before)
        run.check(R, "wrapl.Wrapl.do_function:c_to_cxx-order", stash,
                  "the c_to_cxx template reads {c_var}; the expression popped from the Lua stack must be stored in c_var "
                  "*before* pop_expr is overwritten with the expanded template, otherwise the variable is initialised from "
                  "itself", wl.loc(a))
    if not conv:
        raise AnalysisError("C18.R5: c_to_cxx conversion of do_function not found")
    # every C++ function (constructors included: they return the new object) contributes one result
    lf = wl.func("LuaFunction.__init__")
    incs = pat.find(lf, "if subprogram == 'function':\n    self.nresults += 1")
    run.check(R, "wrapl.LuaFunction.__init__:function-result", len(incs) == 1 and not incs[0][0].orelse,
              "the result of a function must be counted under the plain test `subprogram == 'function'`; with a further "
              "condition (e.g. excluding constructors) the wrapper pushes the value but reports 0 results, so Lua sees nil",
              wl.loc(lf))
    # the scope through which Lua calls a namespace member is set wherever the C++ and Python ones are
    am = repo.module("ast")
    nsib = 0
    for q, fn in sorted(am.functions().items()):
        if not q.endswith(".default_format"):
            continue
        calls = {}
        for a in ast.walk(fn):
            if isinstance(a, ast.Assign) and isinstance(a.targets[0], ast.Attribute) and a.targets[0].attr.endswith("_this_call"):
                calls[a.targets[0].attr] = (am.seg(a.value), [(str(am.seg(t)), pol) for t, pol in pyflow.dominating_tests(a, stop=fn)])
        if "CXX_this_call" in calls and "LUA_this_call" in calls:
            nsib += 1
            run.check(R, "ast.%s:LUA_this_call" % q, calls["LUA_this_call"] == calls["CXX_this_call"],
                      "LUA_this_call is set to %s under %s but CXX_this_call to %s under %s: the Lua wrapper calls functions of "
                      "this scope without (or with another) qualification" % (calls["LUA_this_call"] + calls["CXX_this_call"]),
                      am.loc(fn))
    run.floor(R, "default_format methods setting both scopes", nsib, 1)


def rule_r6(repo, run):
    R = run.rule("C18.R6", "a method is called as obj:name(args): wherever the object is taken from stack slot 1, the "
                           "arguments start at slot 2, the argument count excludes the object and argument i is type-tested "
                           "at slot i+1")
    wl = repo.module("wrapl")
    df = wl.func("Wrapl.do_function")
    wf = wl.func("Wrapl.wrap_function")
    seg = lambda n: str(wl.seg(n))
    # where the object is popped
    pops = [a for a in ast.walk(df) if isinstance(a, ast.Assign) and "LUA_pop" in seg(a.value) and "cls" in seg(a.value)]
    if len(pops) != 1:
        raise AnalysisError("C18.R6: the statement that pops the object of a method call was not found in do_function")
    p_self = pyflow.path_atoms(pops[0], stop=df, seg=wl.seg)
    if not p_self:
        raise AnalysisError("C18.R6: the object is popped unconditionally: model out of date")
    types = tables.TypeTable(repo)
    # (a class typemap's LUA_pop reads slot 1: checked by C18.R1 on fill_shadow_typemap_defaults)
    def const_values(expr):
        """integer constants an initial-value expression can evaluate to, each with the node that carries it"""
        if isinstance(expr, ast.IfExp):
            return const_values(expr.body) + const_values(expr.orelse)
        if isinstance(expr, ast.Constant) and isinstance(expr.value, int):
            return [expr]
        return [None]
    inits = [a for a in ast.walk(df) if isinstance(a, ast.Assign) and pyflow.is_name(a.targets[0], "LUA_index")]
    starts = [c for a in inits for c in const_values(a.value)]
    if not starts or None in starts:
        raise AnalysisError("C18.R6: initial value of LUA_index not found (or not a constant)")
    behind = [c for c in starts if c.value == 2]
    ok = len(behind) == 1 and pyflow.path_atoms(behind[0], stop=df, seg=wl.seg) == p_self and \
        all(c.value == 1 for c in starts if c is not behind[0]) and len(starts) == 2
    run.check(R, "wrapl.Wrapl.do_function:first-argument-slot", ok,
              "the object of a method call is popped from slot 1 under %s, but the first argument slot is %s: obj:f(5) has the "
              "object in slot 1 and 5 in slot 2 (a constructor is called through the module table, without an object)"
              % (sorted(p_self), [(c.value, sorted(pyflow.path_atoms(c, stop=df, seg=wl.seg))) for c in starts]), wl.loc(starts[0]))
    # overload / default dispatcher
    tops = [c for c in ast.walk(wf) if isinstance(c, ast.Constant) and isinstance(c.value, str) and "SH_nargs = lua_gettop(" in c.value]
    less = [c for c in tops if re.search(r"lua_gettop\([^)]*\)\s*-\s*1\s*;", c.value)]
    canon_ = lambda t: re.sub(r"^(ast|node\.ast)\.is_ctor\(\)$", "is_ctor", t)
    about = set(canon_(t) for t, p in p_self)
    # only the conditions that speak about the object matter (the dispatcher is itself inside `if len(all_calls) == 1: else:`)
    norm = lambda at: set((canon_(t), p) for t, p in at if canon_(t) in about)
    ok = len(less) == 1 and norm(pyflow.path_atoms(less[0], stop=wf, seg=wl.seg)) == norm(p_self) and len(tops) == 2
    run.check(R, "wrapl.Wrapl.wrap_function:count-excludes-object", ok,
              "the dispatcher counts lua_gettop() items: for a method the object is one of them, so obj:set() is dispatched "
              "as a one-argument call and obj:set(5) as a two-argument call (found %s)"
              % [(c.value, sorted(pyflow.path_atoms(c, stop=wf, seg=wl.seg))) for c in tops], wl.loc(tops[0]) if tops else wl.loc(wf))
    shift = pat.find(wf, "fmt.iarg = iarg + MV_OFF")
    offs = set(env["OFF"] for _, env in shift)
    ok = False
    if len(offs) == 1:
        off = offs.pop()
        asg = [a for a in ast.walk(wf) if isinstance(a, ast.Assign) and pyflow.is_name(a.targets[0], off) and isinstance(a.value, ast.Constant)]
        one = [a for a in asg if a.value.value == 1]
        ok = len(one) == 1 and norm(pyflow.path_atoms(one[0], stop=wf, seg=wl.seg)) == norm(p_self) and \
            all(a.value.value == 0 for a in asg if a is not one[0]) and len(asg) == 2
    run.check(R, "wrapl.Wrapl.wrap_function:type-test-slot", ok,
              "argument i of a method is in slot i+1: the type tests `lua_type(L, {iarg})` must be shifted by one exactly "
              "when the object is on the stack", wl.loc(wf))


def rule_r7(repo, run):
    R = run.rule("C18.R7", "names that exist once per class (userdata type, metatable key, method table, constructor name) are "
                           "built from a class field: two wrapped classes never share a metatable")
    wl = repo.module("wrapl")
    am = repo.module("ast")
    wc = wl.func("Wrapl.wrap_class")
    per_class = [pyflow.const_str(c.args[0]) for c in ast.walk(wc) if isinstance(c, ast.Call)
                 and str(wl.seg(c.func)).endswith(".eval_template") and c.args and pyflow.const_str(c.args[0])]
    if len(per_class) < 4:
        raise AnalysisError("C18.R7: per-class templates evaluated by Wrapl.wrap_class not found")
    do = am.func("LibraryNode.default_options")
    templates = {}
    for c in ast.walk(do):
        if isinstance(c, ast.Call):
            for k in c.keywords:
                if k.arg and k.arg.endswith("_template"):
                    v = pyflow.const_str(k.value)
                    if v is None and isinstance(k.value, ast.Constant):
                        v = k.value.value
                    if v is None:
                        try:
                            v = ast.literal_eval(k.value)
                        except Exception:
                            v = None
                    templates[k.arg] = v
    # one object per class *instance layout* may be shared (the member name inside the userdata struct)
    SHARED_OK = {"LUA_userdata_member": "the name of the member inside each class's userdata struct"}
    n = 0
    for name in per_class:
        if name in SHARED_OK:
            continue
        t = templates.get(name + "_template")
        if t is None:
            raise AnalysisError("C18.R7: default of %s_template not found" % name)
        n += 1
        run.check(R, "ast.LibraryNode.default_options:%s_template" % name, re.search(r"\{(cxx_class|class_\w+|cxx_type)\}", t) is not None,
                  "%s_template is %r: it is evaluated once per class but does not contain the class: every wrapped class gets "
                  "the same %s, so same-named methods and __gc of a later class replace those of an earlier one" % (name, t, name),
                  am.loc(do))
    run.floor(R, "per-class Lua name templates", n, 4)


def rule_r8(repo, run, types):
    R = run.rule("C18.R8", "what is decided per overload comes from that overload (the number of results of `int f(double)` is "
                           "not the one of its sibling `void f(int)`); a type group whose typemap says how to push and pop its "
                           "values (LUA_push / LUA_pop) has lua statements for arguments and for results - without them the "
                           "wrapper falls back to the empty default: the function is never called and `return 1` hands Lua "
                           "whatever is on the stack")
    wl = repo.module("wrapl")
    wf = wl.func("Wrapl.wrap_function")
    loops = [l for l in ast.walk(wf) if isinstance(l, ast.For) and ast.unparse(l.iter) == "overloads" and isinstance(l.target, ast.Name)
             and any(isinstance(c, ast.Call) and pyflow.is_name(c.func, "LuaFunction") for c in ast.walk(l))]
    if len(loops) != 1:
        raise AnalysisError("C18.R8: the loop over overloads of Wrapl.wrap_function was not found")
    lp = loops[0]
    var = lp.target.id
    ctors = [c for c in ast.walk(lp) if isinstance(c, ast.Call) and pyflow.is_name(c.func, "LuaFunction")]
    if not ctors:
        raise AnalysisError("C18.R8: LuaFunction(...) is no longer built inside the overload loop")
    # the class: which parameter decides the number of results
    lf = wl.func("LuaFunction.__init__")
    ps = [a.arg for a in lf.args.args][1:]
    deciding = set()
    for i in ast.walk(lf):
        if isinstance(i, ast.If) and any(isinstance(a, ast.AugAssign) and "nresults" in ast.unparse(a.target) for a in ast.walk(i)):
            deciding |= set(x.id for x in ast.walk(i.test) if isinstance(x, ast.Name) and x.id in ps)
    if not deciding:
        raise AnalysisError("C18.R8: LuaFunction.__init__ no longer derives nresults from a parameter")
    n = 0
    for ci, c in enumerate(sorted(ctors, key=lambda c: c.lineno)):
        for k, a in enumerate(c.args):
            if k >= len(ps) or ps[k] not in deciding:
                continue
            n += 1
            names = set(x.id for x in ast.walk(a) if isinstance(x, ast.Name))
            per_item = var in names
            if not per_item:
                # a local that is assigned inside the loop from the loop variable
                for nm in names:
                    asg = [s_ for s_ in ast.walk(lp) if isinstance(s_, ast.Assign) and pyflow.is_name(s_.targets[0], nm)
                           and s_.lineno < c.lineno]
                    if asg and all(any(isinstance(x, ast.Name) and x.id == var for x in ast.walk(s_.value)) for s_ in asg):
                        per_item = True
            run.check(R, "wrapl.Wrapl.wrap_function:LuaFunction#%d(%s=%s)" % (ci, ps[k], ast.unparse(a)), per_item,
                      "`%s`, which decides the number of results of the call, is `%s`: computed once before the loop from the "
                      "first overload, so `int f(double a, int b)` next to `void f(int a)` pushes its result and reports "
                      "SH_nresult = 0" % (ps[k], ast.unparse(a)), wl.loc(c))
    run.floor(R, "per-overload records", n, 2)
    # statements per type group
    entries = set()
    for key, val in pyflow.table_fields(wl.tree):
        if key == "name" and pyflow.const_str(val) and pyflow.const_str(val).startswith("lua_"):
            entries.add(pyflow.const_str(val))
    groups = {}
    for name, t in sorted(types.types.items()):
        if t.get("LUA_push") in (None, "PUSH") or t.get("LUA_pop") in (None, "POP"):
            continue
        sg = t.get("sgroup")
        if sg:
            groups.setdefault(str(sg), []).append(name)
    k = 0
    for sg, names in sorted(groups.items()):
        for role in ("in", "result"):
            k += 1
            have = [e for e in entries if e.startswith("lua_%s_" % sg) and e.endswith("_" + role)]
            run.check(R, "lua_statements[%s]:%s" % (sg, role), bool(have),
                      "typemap %s says how Lua values of group `%s` are %s (LUA_%s) but lua_statements has no `lua_%s_*_%s` "
                      "entry: the lookup ends at the empty default, %s" %
                      (names[0], sg, "read" if role == "in" else "pushed", "pop" if role == "in" else "push", sg, role,
                       "the argument is never read from the stack" if role == "in" else
                       "the function is never called and `return 1` hands Lua whatever is on the stack"), wl.loc(wf))
    run.floor(R, "type groups with Lua push/pop", k, 6)


def rule_r9(repo, run):
    R = run.rule("C18.R9", "a Lua wrapper function is a definition: in a C library every parameter of it has a name "
                           "(`static int f(lua_State *)` is C++ only)")
    wl = repo.module("wrapl")
    wf = wl.func("Wrapl.wrap_function")
    unnamed = [c for c in ast.walk(wf) if isinstance(c, ast.Constant) and isinstance(c.value, str) and re.search(r"\(lua_State \*\)", c.value)]
    if not unnamed:
        run.ok(R, "wrapl.Wrapl.wrap_function:state-parameter-named")
        return
    for c in unnamed:
        atoms = pyflow.path_atoms(c, stop=wf, seg=ast.unparse)
        excl = any(("self.language == 'c'" in t and not pol) or ("self.language != 'c'" in t and pol) for t, pol in atoms)
        run.check(R, "wrapl.Wrapl.wrap_function:unnamed-state-parameter", excl,
                  "`%s` is written whenever the function does not use the state, also for `language: c`: an unnamed parameter in a "
                  "function definition is an error in C (gcc -std=c99 -pedantic-errors)" % c.value, wl.loc(c))


def rule_r10(repo, run):
    R = run.rule("C18.R10", "every Lua API call in the wrapper text names the state through {LUA_state_var} "
                            "(the name of the parameter is a format field the user may set)")
    wl = repo.module("wrapl")
    api = re.compile(r"\b(lua[L]?_\w+)\s*\(\s*([A-Za-z_]\w*)\s*[,)]")
    n = 0
    for c in ast.walk(wl.tree):
        if not (isinstance(c, ast.Constant) and isinstance(c.value, str)):
            continue
        for mo in api.finditer(c.value):
            n += 1
            run.check(R, "wrapl:%s-state-argument" % mo.group(1), False,
                      "`%s` passes the literal name `%s` as the Lua state; the wrapper's parameter is called {LUA_state_var}, "
                      "which `format: LUA_state_var:` can change" % (mo.group(0), mo.group(2)), wl.loc(c))
    uses = [c for c in ast.walk(wl.tree) if isinstance(c, ast.Constant) and isinstance(c.value, str)
            and re.search(r"\blua[L]?_\w+\(\{LUA_state_var\}", c.value)]
    run.floor(R, "Lua API calls through {LUA_state_var}", len(uses), 6)
    if not n:
        run.ok(R, "wrapl:state-argument-is-a-field", sample=dict(calls=len(uses)))



def rule_r11(repo, run):
    R = run.rule("C18.R11", "a registration table that is written once per class (append_luaL_Reg inside wrap_class) is emptied "
                            "once per class: the accumulator is reset in wrap_class before the class's functions are wrapped")
    wl = repo.module("wrapl")
    wcl = wl.func("Wrapl.wrap_class")
    written = set()
    for c in ast.walk(wcl):
        if isinstance(c, ast.Call) and (pyflow.call_name(c) or "").endswith(".append_luaL_Reg"):
            for a in c.args:
                if isinstance(a, ast.Attribute) and pyflow.is_name(a.value, "self"):
                    # the list argument: an attribute that is appended to somewhere in the module
                    filled = any(isinstance(x, ast.Call) and any(isinstance(y, ast.Attribute) and y.attr == a.attr and pyflow.is_name(y.value, "self")
                                                                 for y in x.args)
                                 and (pyflow.call_name(x) or "").split(".")[-1] in ("append_format", "append")
                                 for x in ast.walk(wl.tree)) or \
                        any(isinstance(x, ast.Call) and isinstance(x.func, ast.Attribute) and x.func.attr in ("append", "extend")
                            and isinstance(x.func.value, ast.Attribute) and x.func.value.attr == a.attr for x in ast.walk(wl.tree))
                    if filled:
                        written.add(a.attr)
    if not written:
        raise AnalysisError("C18.R11: the per-class registration table of Wrapl.wrap_class was not found")
    for attr in sorted(written):
        resets = [a for a in wcl.body if isinstance(a, ast.Assign) and isinstance(a.targets[0], ast.Attribute)
                  and a.targets[0].attr == attr and isinstance(a.value, ast.List) and not a.value.elts]
        first_use = min([x.lineno for x in ast.walk(wcl) if isinstance(x, ast.Call)
                         and (pyflow.call_name(x) or "").split(".")[-1] in ("wrap_function", "wrap_functions", "append_luaL_Reg")] or [0])
        run.check(R, "wrapl.Wrapl.wrap_class:reset[%s]" % attr, bool(resets) and resets[0].lineno < first_use,
                  "`self.%s` is written into the registration table of every class and is not emptied at the start of wrap_class: "
                  "the second class registers the methods (and __gc) of the first as well - `b:name()` runs A's function on a B"
                  % attr, wl.loc(wcl))


def rule_r12(repo, run, table):
    R = run.rule("C18.R12", "a wrapper that reports one result has pushed one: every `..._result` entry of lua_statements pushes "
                            "a value in its post_call (the wrapper of a function ends with `return 1`)")
    n = 0
    for name, e in sorted(table.resolve_all("c++").items()):
        if not name.endswith("_result") or name.startswith("lua_mixin"):
            continue
        n += 1
        post = " ".join(e.lines("post_call")) + " " + " ".join(e.lines("call"))
        pushes = re.search(r"\{push_expr\}|lua_push\w+\s*\(|lua_setmetatable|lua_newuserdata", post) is not None
        run.check(R, "lua_statements[%s]:pushes-result" % name, pushes,
                  "the entry calls the function and pushes nothing; the wrapper still returns 1, so Lua takes whatever is on top of "
                  "the stack (the caller's last argument) for the result", table.loc(e.raw))
    run.floor(R, "result entries of lua_statements", n, 5)


def rule_r13(repo, run):
    R = run.rule("C18.R13", "a C library needs no conversion between the C++ and the C view of a value: where the Lua wrapper "
                            "applies a typemap's c_to_cxx / cxx_to_c (C++ cast syntax), the language has been tested")
    wl = repo.module("wrapl")
    fn = wl.func("Wrapl.do_function")
    n = 0
    for c in ast.walk(fn):
        if isinstance(c, ast.Call) and (pyflow.call_name(c) or "").endswith("wformat") and c.args \
                and isinstance(c.args[0], ast.Attribute) and c.args[0].attr in ("c_to_cxx", "cxx_to_c"):
            n += 1
            atoms = pyflow.path_atoms(c, stop=fn, seg=ast.unparse)
            guarded = any(("self.language == 'c'" in t and not pol) or ("self.language != 'c'" in t and pol)
                          or ("self.language == 'cxx'" in t and pol) for t, pol in atoms)
            run.check(R, "wrapl.Wrapl.do_function:%s-for-c-library" % c.args[0].attr, guarded,
                      "`%s` is expanded whatever the language of the library: for `language: c` the cast it holds "
                      "(`static_cast<int>(...)`) is written into a .c file" % ast.unparse(c.args[0]), wl.loc(c))
    run.floor(R, "conversions between the C++ and C view in the Lua wrapper", n, 2)


def run(repo, run, tier):
    tables.check_model_assumptions(repo)
    types = tables.TypeTable(repo)
    rule_r1(repo, run, types)
    rule_r2(repo, run)
    rule_r3(repo, run, types)
    rule_x(repo, run)
    rule_r5(repo, run)
    rule_r6(repo, run)
    rule_r7(repo, run)
    rule_r8(repo, run, types)
    rule_r9(repo, run)
    rule_r10(repo, run)
    rule_r11(repo, run)
    rule_r12(repo, run, tables.StatementTable(repo, "wrapl", "lua_statements"))
    rule_r13(repo, run)
