"""Run object: obligations, violations, known findings, evidence, exit code."""
import json
import os
import sys
import time

from .loader import AnalysisError

VERIF = os.path.dirname(os.path.dirname(os.path.abspath(__file__)))
EVIDENCE_DIR = os.path.join(VERIF, "evidence")
REPLAY_DIR = os.path.join(EVIDENCE_DIR, "replay")
KNOWN = os.path.join(VERIF, "known_findings.json")


def load_known():
    try:
        with open(KNOWN) as fp:
            data = json.load(fp)
    except (IOError, OSError):
        return {"findings": [], "fixed": []}
    data.setdefault("findings", [])
    data.setdefault("fixed", [])
    return data


class Run(object):
    def __init__(self, prop, tier="quick", write=True, known=None):
        self.prop = prop
        self.tier = tier
        self.write = write
        self.t0 = time.time()
        self.rules = {}            # rule id -> dict(text, obligations, discharged, instances)
        self.violations = []       # dict(rule, construct, message, file, line, detail)
        self.samples = []
        self.deferred_errors = []
        self.unmodelled = []
        self.notes = []
        self.assumptions = []
        self.nontrivial = set()
        self.known = known if known is not None else load_known()
        self.selftest = None
        self.explanation = ""
        self.not_decided = ""

    # -- rule bookkeeping ------------------------------------------------------
    def rule(self, rid, text):
        self.rules.setdefault(rid, dict(text=text, obligations=0, discharged=0,
                                        instances=0, floor=None))
        return rid

    def ok(self, rid, construct, sample=None):
        r = self.rules[rid]
        r["obligations"] += 1
        r["discharged"] += 1
        self.nontrivial.add((rid, construct))
        if sample is not None and len([s for s in self.samples if s.get("rule") == rid]) < 3:
            self.samples.append(dict(rule=rid, construct=construct, holds=True, detail=sample))

    def fail(self, rid, construct, message, loc="", detail=None):
        r = self.rules[rid]
        r["obligations"] += 1
        self.nontrivial.add((rid, construct))
        self.violations.append(dict(rule=rid, construct=construct, message=message,
                                    loc=loc, detail=detail))

    def check(self, rid, construct, cond, message, loc="", sample=None, detail=None):
        if cond:
            self.ok(rid, construct, sample)
        else:
            self.fail(rid, construct, message, loc, detail)
        return cond

    def instances(self, rid, n):
        self.rules[rid]["instances"] += n

    def floor(self, rid, what, count, minimum):
        """Fail the *analysis* when fewer instances than confirmed by hand."""
        self.rules[rid]["floor"] = "%s: %d (floor %d)" % (what, count, minimum)
        if count < minimum:
            raise AnalysisError("%s: %s = %d below floor %d (rule matches too little; "
                                "model out of date)" % (rid, what, count, minimum))

    def unmodelled_site(self, rid, where, why):
        self.unmodelled.append(dict(rule=rid, where=where, why=why))

    # -- finishing -----------------------------------------------------------
    def _is_known(self, v):
        for k in self.known.get("findings", []):
            if (k.get("property") in (self.prop, None, "*") or self.prop in k.get("also", [])) \
                    and k.get("rule") == v["rule"] and k.get("construct") == v["construct"]:
                return k
        return None

    def finish(self):
        wall = time.time() - self.t0
        new = []
        known = []
        for v in self.violations:
            k = self._is_known(v)
            if k:
                known.append((v, k))
            else:
                new.append(v)
        if self.deferred_errors and not new:
            raise AnalysisError("; ".join(self.deferred_errors))
        lines = []
        for v, k in known:
            lines.append("KNOWN-FINDING: property=%s rule=%s construct=%s %s [%s]"
                         % (self.prop, v["rule"], v["construct"], v["message"], v["loc"]))
        replay_paths = []
        if new and self.write:
            os.makedirs(REPLAY_DIR, exist_ok=True)
        for i, v in enumerate(new):
            path = os.path.join(REPLAY_DIR, "%s-%s-%d.json" % (self.prop, v["rule"].replace(".", "_"), i))
            if self.write:
                with open(path, "w") as fp:
                    json.dump(dict(property=self.prop, tier=self.tier, **v), fp, indent=1, default=str)
            replay_paths.append(path)
            lines.append("  %s %s: %s -- %s" % (v["loc"], v["rule"], v["construct"], v["message"]))
            lines.append("VIOLATION property=%s replay=%s" % (self.prop, path))
        obligations = sum(r["obligations"] for r in self.rules.values())
        discharged = sum(r["discharged"] for r in self.rules.values())
        evaluations = obligations
        samples = list(self.samples)
        for v in (new + [x for x, _ in known])[:10]:
            samples.append(dict(rule=v["rule"], construct=v["construct"], holds=False,
                                message=v["message"], loc=v["loc"]))
        if not samples:
            samples.append(dict(note="no obligations generated"))
        cov = dict(
            explanation=self.explanation,
            not_decided=self.not_decided,
            rules={rid: dict(text=r["text"], obligations=r["obligations"],
                             discharged=r["discharged"], floor=r["floor"])
                   for rid, r in sorted(self.rules.items())},
            obligations=obligations,
            discharged=discharged,
            evaluations=max(evaluations, 1) if obligations else 0,
            distinct_nontrivial=len(self.nontrivial),
            rule="one evaluation = one rule instance (obligation) decided on a named construct "
                 "of the current /repo source; distinct_nontrivial counts distinct "
                 "(rule, construct) pairs that carried an obligation",
            samples=samples[:40],
            unmodelled=self.unmodelled[:60],
            unmodelled_count=len(self.unmodelled),
            known_findings=[dict(rule=v["rule"], construct=v["construct"], message=v["message"])
                            for v, _ in known],
            notes=self.notes,
            checker_cmd="./check %s --tier %s" % (self.prop, self.tier),
            trusted_base=["python ast module", "sa/ models (tables, templates, flow walker)"],
        )
        if self.selftest is not None:
            cov["selftest"] = self.selftest
        ev = dict(
            property_id=self.prop,
            tier=self.tier,
            seed=int(os.environ.get("VERIF_SEED", "0") or 0),
            level="other",
            coverage=cov,
            assumptions=self.assumptions,
            wall_s=round(wall, 3),
            violations=len(new),
        )
        if self.write:
            os.makedirs(EVIDENCE_DIR, exist_ok=True)
            with open(os.path.join(EVIDENCE_DIR, "%s.json" % self.prop), "w") as fp:
                json.dump(ev, fp, indent=1, default=str, sort_keys=True)
        return (1 if new else 0), lines, ev


_IMPORT_DEPTH = 0


def import_rules(run, R, module, repo, want, tier="quick", only=None):
    """Run another property's check in a scratch Run and take over the verdicts of the rules in
    `want` (ids of that property) under rule R of this run.  `only(construct)` filters constructs."""
    global _IMPORT_DEPTH
    if _IMPORT_DEPTH > 0:
        return None             # imports are not transitive (and must not recurse)
    cache = run.__dict__.setdefault("_import_cache", {})
    key = (module.__name__, tier)
    if key in cache:
        sub = cache[key]          # one scratch run per imported property and importing run
        if isinstance(sub, AnalysisError):
            run.deferred_errors.append("imported rules %s: %s" % (sorted(want), sub))
            return None
    else:
        sub = type(run)(run.prop, tier, write=False, known={"findings": [], "fixed": []})
        _IMPORT_DEPTH += 1
        try:
            module.run(repo, sub, tier)
        except AnalysisError as e:
            # fail closed, but let violations this check has found itself be reported first (see finish)
            cache[key] = e
            run.deferred_errors.append("imported rules %s: %s" % (sorted(want), e))
            return None
        finally:
            _IMPORT_DEPTH -= 1
        cache[key] = sub
    for v in sub.violations:
        if v["rule"] in want and (only is None or only(v["construct"])):
            run.fail(R, "%s:%s" % (v["rule"], v["construct"]), v["message"], v["loc"])
    failed = set((v["rule"], v["construct"]) for v in sub.violations)
    kept = [(rr, c) for (rr, c) in sub.nontrivial if rr in want and (only is None or only(c)) and (rr, c) not in failed]
    run.rules[R]["obligations"] += len(kept)
    run.rules[R]["discharged"] += len(kept)
    run.nontrivial.update((R, "%s:%s" % (rr, c)) for (rr, c) in kept)
    run.samples.extend([dict(s_, rule=R) for s_ in sub.samples if s_.get("rule") in want][:2])
    return sub
