#!/usr/bin/env python3
"""Developer aid (NOT a check, never referenced from MANIFEST): run every
configuration of regression/do-test.py (TestDesc table, read with `ast`) with
two shroud trees - a git worktree of a base commit and /repo's working tree -
and diff the outputs, to confirm that a "fix:" commit changes only what it is
meant to change.

usage: tools/regress_diff.py [base-commit] [--keep]     (default base: d131d1f)
       REGRESS_NEW=<tree> compares with that tree instead of /repo's working tree
"""
import ast
import os
import shutil
import subprocess
import sys
import tempfile
from concurrent.futures import ThreadPoolExecutor

REPO = "/repo"


def testdescs():
    src = open(os.path.join(REPO, "regression", "do-test.py")).read()
    out = []
    for node in ast.walk(ast.parse(src)):
        if isinstance(node, ast.Call) and isinstance(node.func, ast.Name) and node.func.id == "TestDesc":
            if not node.args or not isinstance(node.args[0], ast.Constant):
                continue
            name = node.args[0].value
            yaml = name
            cmd = []
            for k in node.keywords:
                if k.arg == "yaml":
                    yaml = k.value.value
                if k.arg == "cmdline":
                    cmd = [e.value for e in k.value.elts]
            out.append((name, yaml + ".yaml", cmd))
    return out


def run_one(tree, outroot, desc):
    name, yaml, cmd = desc
    o = os.path.join(outroot, name)
    os.makedirs(o, exist_ok=True)
    inp = os.path.join(REPO, "regression", "input")
    argv = ["shroud", "--outdir", o, "--logdir", o, "--path", inp, "--nowrite-version"] + cmd + [os.path.join(inp, yaml)]
    code = "import sys; sys.argv=%r; import shroud.main as m; m.main()" % (argv,)
    env = dict(os.environ, PYTHONPATH=tree)
    p = subprocess.run(["/venv/bin/python", "-c", code], cwd=tree, env=env, stdout=subprocess.PIPE,
                       stderr=subprocess.STDOUT)
    with open(os.path.join(o, "STDOUT"), "wb") as fp:
        fp.write(p.stdout.replace(outroot.encode(), b"OUT"))
    return p.returncode


def main():
    args = [a for a in sys.argv[1:] if not a.startswith("--")]
    base = args[0] if args else "d131d1f"
    w = tempfile.mkdtemp(prefix="regress.")
    bt = os.path.join(w, "base")
    subprocess.check_call(["git", "-C", REPO, "worktree", "add", "-f", "--detach", bt, base],
                          stdout=subprocess.DEVNULL, stderr=subprocess.DEVNULL)
    try:
        descs = testdescs()
        outs = {}
        for tag, tree in (("out-base", bt), ("out-new", os.environ.get("REGRESS_NEW") or REPO)):
            outroot = os.path.join(w, tag)
            with ThreadPoolExecutor(max_workers=8) as ex:
                rcs = list(ex.map(lambda d: run_one(tree, outroot, d), descs))
            outs[tag] = rcs
            # normalise absolute paths
            for root, dirs, files in os.walk(outroot):
                for f in files:
                    p = os.path.join(root, f)
                    try:
                        b = open(p, "rb").read()
                    except OSError:
                        continue
                    if outroot.encode() in b:
                        open(p, "wb").write(b.replace(outroot.encode(), b"OUT"))
        changed_rc = [(d[0], a, b) for d, a, b in zip(descs, outs["out-base"], outs["out-new"]) if a != b]
        print("configurations: %d ; exit-status changes: %s" % (len(descs), changed_rc))
        p = subprocess.run(["diff", "-r", "-x", "*.log", os.path.join(w, "out-base"), os.path.join(w, "out-new")],
                           stdout=subprocess.PIPE)
        txt = p.stdout.decode("utf-8", "replace")
        print("diff lines: %d" % len(txt.splitlines()))
        limit = int(os.environ.get("LINES_SHOWN", "80"))
        print("\n".join(txt.splitlines()[:limit]))
    finally:
        subprocess.call(["git", "-C", REPO, "worktree", "remove", "--force", bt],
                        stdout=subprocess.DEVNULL, stderr=subprocess.DEVNULL)
        if "--keep" not in sys.argv:
            shutil.rmtree(w, ignore_errors=True)
        else:
            print("kept", w)


if __name__ == "__main__":
    main()
