"""C05 - every accepted input yields wrapper sources that compile and link.
Decided clause: no emitted fragment references something that is never
provided (format fields, helper functions, headers, Fortran module names,
option templates, emitter attributes, visitor methods)."""
import ast
import re

from sa import pattern as pat, state, tables, templ, pyflow, fmtfields, interop
from sa.loader import enclosing_function, AnalysisError, parent_chain

EXPLANATION = (
    "uses-subset-of-provides analysis over the tables and emitters of /repo: (R1) every {field} of "
    "every statement-table template, typemap template and inline wformat/append_format template is "
    "assigned somewhere in the modules of that emitter; (R2) helper functions called by a c_* entry "
    "are in the dependent-helper closure of its c_helper; (R3) libc calls in templates have their "
    "header via impl_header or a required helper; (R4) ISO_C_BINDING names used by f_* entries are "
    "imported by f_module or a required helper; (R5) the helper graph is well formed (names exist, "
    "acyclic, every language has a source); (R6) every eval_template names an existing option "
    "template; (R7) every emitter class defines the attributes write_lines/write_continue read; "
    "(R8) ToDict/PrintNode visitor coverage for the node classes that are always dumped.")
NOT_DECIDED = (
    "That the concatenation of all fragments emitted for one input compiles and links (needs the "
    "target compilers on generated text).")

CORE = ["ast", "generate", "statements", "typemap", "util", "whelpers", "declast"]
EMITTER_MODULES = {
    "c": CORE + ["wrapc"],
    "f": CORE + ["wrapc", "wrapf"],
    "py": CORE + ["wrapp"],
    "lua": CORE + ["wrapl"],
}
SINKS = {"wformat": 0, "append_format": 1}

CODE_CLAUSES_C = ["pre_call", "call", "post_call", "final", "ret", "arg_call", "declare",
                  "destructor", "c_arg_decl"]
CODE_CLAUSES_F = ["declare", "pre_call", "call", "post_call", "arg_decl", "arg_c_call", "f_arg_decl",
                  "f_result_decl"]


def _docs_text(repo):
    import os
    out = []
    d = os.path.join(repo.root, "docs")
    try:
        names = sorted(os.listdir(d))
    except OSError:
        names = []
    for n in names:
        if n.endswith(".rst"):
            try:
                out.append(repo.read("docs/" + n))
            except AnalysisError:
                pass
    return "\n".join(out)


def _undocumented_option_guard(mod, node, docs):
    """Name of an option that guards `node` and is not mentioned in docs/*.rst."""
    for test, pol in pyflow.dominating_tests(node):
        for n in ast.walk(test):
            if isinstance(n, ast.Attribute) and isinstance(n.value, (ast.Name, ast.Attribute)):
                d = pyflow.dotted(n) or ""
                if ".options." in "." + d or d.startswith("options."):
                    if n.attr not in docs:
                        return n.attr
    return None


def rule_r1(repo, run, T):
    R = run.rule("C05.R1", "every {field} of every reachable template is assigned by the emitter that formats it")
    defs = {k: fmtfields.defined_fields(repo, v) for k, v in EMITTER_MODULES.items()}
    docs = _docs_text(repo)
    n = 0
    # statement tables
    for table, which in ((T["fc"], None), (T["py"], "py"), (T["lua"], "lua")):
        seen = set()
        for lang in ("c", "c++"):
            for name, e in table.resolve_all(lang).items():
                w = which or name.split("_")[0]
                d = defs.get(w)
                if d is None:
                    continue
                for key in sorted(e.raw.keys()):
                    v = e.raw[key]
                    items = v if isinstance(v, (list, tuple)) else [v]
                    for s in items:
                        if not isinstance(s, str) or (name, key, s) in seen:
                            continue
                        seen.add((name, key, s))
                        fs, err = templ.safe_fields(s)
                        construct = "%s[%s].%s" % (table.varname, e.raw["name"], key)
                        if err:
                            run.fail(R, construct, "malformed template %r: %s" % (s, err), table.loc(e.raw))
                            continue
                        if not fs:
                            continue
                        n += 1
                        missing = sorted(set(f for f in fs if not fmtfields.is_defined(f, d)))
                        run.check(R, construct, not missing,
                                  "template uses field(s) %s that no code of the %s emitter assigns"
                                  % (missing, w), table.loc(e.raw),
                                  sample=dict(entry=name, clause=key, template=s, fields=sorted(set(fs))))
    # typemap templates
    types = T["types"]
    alld = {}
    for d in defs.values():
        alld.update(d)
    for tname, t in sorted(types.types.items()):
        for key, v in t.items():
            if key.startswith("_") or not isinstance(v, str) or "{" not in v:
                continue
            fs, err = templ.safe_fields(v)
            construct = "typemap[%s].%s" % (tname, key)
            if err:
                run.fail(R, construct, "malformed template %r: %s" % (v, err), types.loc(tname))
                continue
            n += 1
            w = "py" if key.startswith("PY") or key.startswith("py") else ("lua" if key.startswith("LUA") else None)
            d = defs[w] if w else alld
            # local .format(...) keyword fields (ctor_expr, py_var, work_var, c_var ...) are
            # provided at the call site by keyword
            kw = _format_keywords(repo)
            missing = sorted(set(f for f in fs if not fmtfields.is_defined(f, d) and f not in kw))
            run.check(R, construct, not missing,
                      "typemap template uses field(s) %s never assigned" % missing, types.loc(tname),
                      sample=dict(type=tname, field=key, template=v))
    # inline templates
    for mname, which in (("wrapc", "c"), ("wrapf", "f"), ("wrapp", "py"), ("wrapl", "lua"),
                         ("generate", "f"), ("typemap", "f"), ("ast", "f"), ("whelpers", None), ("util", "f")):
        mod = repo.module(mname)
        d = alld if which is None else defs[which]
        for node in ast.walk(mod.tree):
            if not isinstance(node, ast.Call):
                continue
            fn = (pyflow.call_name(node) or "").split(".")[-1]
            if fn not in SINKS or len(node.args) <= SINKS[fn]:
                continue
            s = pyflow.const_str(node.args[SINKS[fn]])
            if s is None:
                continue
            fs, err = templ.safe_fields(s)
            func = _enclosing_qualname(node)
            construct = "%s.%s:template@%s" % (mname, func, _short(s))
            if err:
                run.fail(R, construct, "malformed template: %s" % err, mod.loc(node))
                continue
            if not fs:
                continue
            n += 1
            missing = sorted(set(f for f in fs if not fmtfields.is_defined(f, d)))
            if missing:
                opt = _undocumented_option_guard(mod, node, docs)
                if opt:
                    run.unmodelled_site(R, construct, "guarded by undocumented option %s (outside the "
                                        "documented domain); missing %s" % (opt, missing))
                    continue
            run.check(R, construct, not missing,
                      "template uses field(s) %s that no code of this emitter assigns" % missing,
                      mod.loc(node), sample=dict(where="%s.%s" % (mname, func), fields=sorted(set(fs))[:8]))
    run.floor(R, "templates with fields", n, 600)


_FMT_KW_CACHE = {}


def _format_keywords(repo):
    """Keyword names used in `.format(k=...)` calls anywhere (call-site provided)."""
    key = id(repo)
    if key in _FMT_KW_CACHE:
        return _FMT_KW_CACHE[key]
    out = set()
    for m in repo.modules():
        for node in ast.walk(m.tree):
            if isinstance(node, ast.Call) and isinstance(node.func, ast.Attribute) and node.func.attr == "format":
                for k in node.keywords:
                    if k.arg:
                        out.add(k.arg)
    _FMT_KW_CACHE[key] = out
    return out


def _enclosing_qualname(node):
    names = []
    for p in parent_chain(node):
        if isinstance(p, (ast.FunctionDef, ast.ClassDef)):
            names.append(p.name)
    return ".".join(reversed(names)) or "<module>"


def _short(s):
    s = re.sub(r"\s+", " ", s.strip())
    return s[:40]


# ---------------------------------------------------------------------------
# helper graph
# ---------------------------------------------------------------------------

def _glob(name):
    return re.sub(r"\{[^}]*\}", "*", name)


def match_helper(request, table):
    """Keys of `table` (dict) that a (possibly templated) request can name."""
    import fnmatch
    rq = _glob(request)
    out = []
    for key in table:
        kg = _glob(key)
        sample = kg.replace("*", "X")
        if fnmatch.fnmatchcase(sample, rq) or fnmatch.fnmatchcase(rq.replace("*", "X"), kg):
            out.append(key)
    return out


def closure(keys, table):
    done = []
    stack = list(keys)
    while stack:
        k = stack.pop()
        if k in done or k not in table:
            continue
        done.append(k)
        for dep in table[k].get("dependent_helpers", []) or []:
            for mk in match_helper(str(dep), table):
                stack.append(mk)
    return done


def helper_functions(helpers):
    """{C function name: helper key} for functions *defined* in C helpers
    with a fixed (non-templated) name."""
    out = {}
    for key, h in helpers.c.items():
        for k, src in tables.helper_sources(h):
            text = templ.protect(templ.c_code(src))
            for m in re.finditer(r"^\s*(?:static\s+)?[A-Za-z_][\w\s\*]*?[\s\*](\w+)\s*\(([^;{]*?)\)\s*\{", text, re.M):
                nm = templ.unprotect(m.group(1))
                if "{" in nm:
                    continue
                out.setdefault(nm, key)
    return out


def _entry_code(e, clauses):
    lines = []
    for c in clauses:
        for s in e.lines(c):
            try:
                lines.extend(templ.code_lines(s))
            except ValueError:
                pass
    return "\n".join(lines)


def rule_r2(repo, run, T):
    R = run.rule("C05.R2", "helper functions called by a c_* entry are in the closure of its c_helper")
    helpers = T["helpers"]
    hfun = helper_functions(helpers)
    table = T["fc"]
    n = 0
    done = set()
    for lang in ("c", "c++"):
        for name, e in table.resolve_all(lang).items():
            if not name.startswith("c_"):
                continue
            code = templ.c_code(_entry_code(e, CODE_CLAUSES_C))
            used = sorted(set(c for c, args, pos in templ.calls(code) if c in hfun))
            req = str(e.get("c_helper") or "").split()
            key = (name, tuple(used), tuple(req))
            if key in done:
                continue
            done.add(key)
            have = set()
            for r_ in req:
                have.update(closure(match_helper(r_, helpers.c), helpers.c))
            for fn in used:
                n += 1
                run.check(R, "statements.fc_statements[%s]:%s" % (name, fn), hfun[fn] in have,
                          "entry calls %s() but c_helper=%r does not request helper %r (closure %s): "
                          "generated C does not compile" % (fn, " ".join(req), hfun[fn], sorted(have)),
                          table.loc(e.raw), sample=dict(entry=name, calls=fn, c_helper=req))
    run.floor(R, "helper calls in c_* entries", n, 20)
    # Python statements name their helpers through {hnamefunc<i>}, the i-th name of c_helper (prefixed with
    # PY_helper_prefix): an index beyond c_helper, or a helper called by a hard-coded name, is never emitted
    py = T["py"]
    k = 0
    PY_CLAUSES = ("declare", "post_declare", "post_parse", "pre_call", "post_call", "cleanup", "fail", "arg_call",
                  "declare_capsule", "post_call_capsule", "fail_capsule", "declare_keep", "post_call_keep", "fail_keep",
                  "getter", "setter", "arg_declare")
    seen = set()
    for lang in ("c", "c++"):
        for name, e in sorted(py.resolve_all(lang).items()):
            if name.startswith("base_"):
                continue  # abstract: the entries built on it name the helper
            req = str(e.get("c_helper") or "").split()
            text = "\n".join(l for c in PY_CLAUSES for l in e.lines(c))
            for clause in PY_CLAUSES:
                fld = clause + "_helper" if clause in ("getter", "setter") else "c_helper"
                creq = str(e.get(fld) or "").split()
                for m in re.finditer(r"\{hnamefunc(\d+)\}", "\n".join(e.lines(clause))):
                    if (name, clause, m.group(0)) in seen:
                        continue
                    seen.add((name, clause, m.group(0)))
                    k += 1
                    run.check(R, "wrapp.py_statements[%s].%s:%s" % (name, clause, m.group(0)), int(m.group(1)) < len(creq),
                              "%s uses %s but %s=%r names %d helper(s): the field is not set (KeyError, or the helper of "
                              "another argument)" % (clause, m.group(0), fld, " ".join(creq), len(creq)), py.loc(e.raw))
            for m in re.finditer(r"\bSHROUD_(\w*(?:\{\w+\}\w*)*)\s*(?:\t\s*)?\(", text):
                hname = m.group(1)
                if hname in ("UNUSED",) or (name, hname) in seen:
                    continue
                seen.add((name, hname))
                k += 1
                run.check(R, "wrapp.py_statements[%s]:SHROUD_%s" % (name, hname), False,
                          "entry calls the helper SHROUD_%s by a hard-coded name: nothing requests the helper (c_helper=%r), "
                          "so its definition is not written to the file, and PY_helper_prefix is ignored" % (hname, " ".join(req)),
                          py.loc(e.raw))
    run.floor(R, "helper uses in py_* entries", k, 15)


CXX_ONLY_GROUPS = ("string", "vector")

LIBC = {
    "strlen": "string", "strcpy": "string", "strncpy": "string", "memcpy": "string", "memset": "string",
    "strcmp": "string", "strdup": "string",
    "malloc": "stdlib", "free": "stdlib", "calloc": "stdlib", "realloc": "stdlib",
}
HEADER_FAMILY = {"<string.h>": "string", "<cstring>": "string", "<stdlib.h>": "stdlib",
                 "<cstdlib>": "stdlib", "<string>": None}


def rule_r3(repo, run, T):
    R = run.rule("C05.R3", "libc functions used in c_* templates and helper sources have their header")
    helpers = T["helpers"]
    table = T["fc"]
    n = 0
    done = set()
    for lang in ("c", "c++"):
        inc_key = "c_include" if lang == "c" else "cxx_include"
        for name, e in table.resolve_all(lang).items():
            if not name.startswith("c_"):
                continue
            if lang == "c" and name.split("_")[1] in CXX_ONLY_GROUPS:
                continue    # std::string / std::vector entries are never reached from a C library
            code = templ.c_code(_entry_code(e, CODE_CLAUSES_C))
            used = sorted(set(re.sub(r"^std::", "", c) for c, a, p in templ.calls(code)
                              if re.sub(r"^(std::|\{stdlib\})", "", c) in LIBC))
            if not used:
                continue
            fams = set()
            for h in (e.get("impl_header") or []):
                fams.add(HEADER_FAMILY.get(str(h)))
            for r_ in str(e.get("c_helper") or "").split():
                for k in closure(match_helper(r_, helpers.c), helpers.c):
                    for inc in (helpers.c[k].get(inc_key) or helpers.c[k].get("include") or []):
                        fams.add(HEADER_FAMILY.get(str(inc)))
            for fn in used:
                base = re.sub(r"^(std::|\{stdlib\})", "", fn)
                key = (name, lang, base)
                if key in done:
                    continue
                done.add(key)
                n += 1
                run.check(R, "statements.fc_statements[%s]:%s[%s]" % (name, base, lang),
                          LIBC[base] in fams,
                          "entry uses %s() for language %s but neither impl_header nor a requested "
                          "helper includes <%s.h>" % (base, lang, LIBC[base]), table.loc(e.raw),
                          sample=dict(entry=name, lang=lang, uses=base))
    # helper sources themselves
    for key, h in sorted(helpers.c.items()):
        for lang, src_keys, inc_key in (("c", ("c_source", "source"), "c_include"),
                                        ("c++", ("cxx_source", "source"), "cxx_include")):
            text = ""
            for sk in src_keys:
                if isinstance(h.get(sk), str):
                    text = tables.helper_text(h, sk)
                    break
            if not text:
                continue
            code = templ.c_code(text)
            used = sorted(set(re.sub(r"^(std::|\{stdlib\})", "", c) for c, a, p in templ.calls(code)
                              if re.sub(r"^(std::|\{stdlib\})", "", c) in LIBC))
            if not used:
                continue
            fams = set()
            for k in closure([key], helpers.c):
                for inc in (helpers.c[k].get(inc_key) or helpers.c[k].get("include") or []):
                    fams.add(HEADER_FAMILY.get(str(inc)))
            pyhelper = "PyObject" in text or "Py_" in text
            for fn in used:
                if pyhelper:
                    # Python.h includes <string.h> and <stdlib.h>
                    continue
                n += 1
                run.check(R, "whelpers.CHelpers[%s]:%s[%s]" % (key, fn, lang), LIBC[fn] in fams,
                          "helper source uses %s() for language %s without including <%s.h>"
                          % (fn, lang, LIBC[fn]), repo.module("whelpers").loc(h.node),
                          sample=dict(helper=key, lang=lang, uses=fn))
    run.floor(R, "libc uses", n, 15)


ISO_NAMES = {"C_PTR", "C_NULL_PTR", "C_LOC", "C_F_POINTER", "C_ASSOCIATED", "C_FUNPTR", "C_FUNLOC",
             "C_NULL_CHAR", "C_NULL_FUNPTR", "C_F_PROCPOINTER"} | set(interop.KIND_TO_FTYPE)


def rule_r4(repo, run, T):
    R = run.rule("C05.R4", "ISO_C_BINDING names used by an f_* entry are imported by its f_module or "
                           "by a required Fortran helper")
    helpers = T["helpers"]
    table = T["fc"]
    n = 0
    done = set()
    for lang in ("c", "c++"):
        for name, e in table.resolve_all(lang).items():
            if not name.startswith("f_"):
                continue
            code = templ.f_code(_entry_code(e, CODE_CLAUSES_F))
            used = sorted(set(w.upper() for w in templ.identifiers(code) if w.upper() in ISO_NAMES))
            if not used:
                continue
            mods = set()
            fm = e.get("f_module")
            if isinstance(fm, dict):
                for lst in fm.values():
                    mods.update(str(x).upper() for x in (lst or []))
            for r_ in str(e.get("f_helper") or "").split():
                for k in closure(match_helper(r_, helpers.f), helpers.f):
                    hm = helpers.f[k].get("modules")
                    if isinstance(hm, dict):
                        for lst in hm.values():
                            mods.update(str(x).upper() for x in (lst or []))
            for u in used:
                key = (name, u)
                if key in done:
                    continue
                done.add(key)
                n += 1
                run.check(R, "statements.fc_statements[%s]:%s" % (name, u), u in mods,
                          "entry uses %s but its f_module (%s) and helpers do not import it: the Fortran "
                          "wrapper does not compile when this entry is used"
                          % (u, sorted(mods)), table.loc(e.raw),
                          sample=dict(entry=name, uses=u, imports=sorted(mods)))
    run.floor(R, "ISO_C_BINDING uses in f_* entries", n, 20)


def rule_r5(repo, run, T):
    R = run.rule("C05.R5", "helper graph well formed: requested/dependent helper names exist, no cycles, "
                           "each helper has a source for both languages or a neutral one")
    helpers = T["helpers"]
    n = 0
    single = []
    for side, tab in (("CHelpers", helpers.c), ("FHelpers", helpers.f)):
        for key, h in sorted(tab.items()):
            for dep in h.get("dependent_helpers", []) or []:
                n += 1
                run.check(R, "whelpers.%s[%s].dependent_helpers" % (side, key),
                          bool(match_helper(str(dep), tab)),
                          "dependent helper %r is not a key of %s (KeyError in _gather_helper_code)"
                          % (dep, side), repo.module("whelpers").loc(h.node))
            # cycles
            seen = set()

            def dfs(k, path):
                for dep in tab.get(k, {}).get("dependent_helpers", []) or []:
                    for mk in match_helper(str(dep), tab):
                        if mk in path:
                            return path + [mk]
                        if mk in seen:
                            continue
                        seen.add(mk)
                        r = dfs(mk, path + [mk])
                        if r:
                            return r
                return None
            cyc = dfs(key, [key])
            run.check(R, "whelpers.%s[%s].acyclic" % (side, key), cyc is None,
                      "dependency cycle %s" % cyc, repo.module("whelpers").loc(h.node))
            if side == "CHelpers":
                has_c = any(k in h for k in ("c_source", "source"))
                has_cxx = any(k in h for k in ("cxx_source", "source"))
                alias = "source" not in h and "c_source" not in h and "cxx_source" not in h
                if not alias and (has_c != has_cxx):
                    single.append((key, "c++" if has_cxx else "c", h))
    # single-language helpers may only be requested by entries of C++-only type groups
    CXX_ONLY = ("string", "vector")
    for key, lang_only, h in single:
        requesters = []
        for table, fld in ((T["fc"], "c_helper"), (T["py"], "c_helper")):
            for name, e in table.resolve_all("c++").items():
                v = e.get(fld)
                reqs = [str(x) for x in v] if isinstance(v, (list, tuple)) else str(v or "").split()
                for r_ in reqs:
                    if key in closure(match_helper(r_, helpers.c), helpers.c):
                        requesters.append(name)
        bad = [r_ for r_ in requesters if lang_only == "c" or r_.split("_")[1] not in CXX_ONLY]
        n += 1
        run.check(R, "whelpers.CHelpers[%s].languages" % key, not bad,
                  "helper has a source for %s only but is requested by entries usable from the other "
                  "language: %s" % (lang_only, sorted(set(bad))[:6]),
                  repo.module("whelpers").loc(h.node),
                  sample=dict(helper=key, only=lang_only, requesters=sorted(set(requesters))[:6]))
    # requests from tables
    for table, fields_ in ((T["fc"], (("c_helper", helpers.c), ("f_helper", helpers.f))),
                           (T["py"], (("c_helper", helpers.c),)),):
        seen = set()
        for name, e in table.resolve_all("c++").items():
            for fld, tab in fields_:
                v = e.get(fld)
                if isinstance(v, (list, tuple)):
                    reqs = [str(x) for x in v]
                else:
                    reqs = str(v or "").split()
                for r_ in reqs:
                    if (fld, r_) in seen:
                        continue
                    seen.add((fld, r_))
                    n += 1
                    run.check(R, "%s[%s].%s" % (table.varname, e.raw["name"], fld),
                              bool(match_helper(r_, tab)),
                              "requested helper %r does not exist" % r_, table.loc(e.raw),
                              sample=dict(entry=name, request=r_, matches=match_helper(r_, tab)[:3]))
    # add_c_helper / add_f_helper / add_helper("const") call sites
    for mname in ("wrapc", "wrapf", "wrapp", "wrapl"):
        mod = repo.module(mname)
        for node in ast.walk(mod.tree):
            if isinstance(node, ast.Call):
                fn = (pyflow.call_name(node) or "").split(".")[-1]
                if fn in ("add_c_helper", "add_f_helper", "add_helper") and node.args:
                    s = pyflow.const_str(node.args[0])
                    if s is None:
                        continue
                    tab = helpers.f if fn == "add_f_helper" else helpers.c
                    for r_ in s.split():
                        n += 1
                        run.check(R, "%s.%s:%s(%r)" % (mname, _enclosing_qualname(node), fn, r_),
                                  bool(match_helper(r_, tab)),
                                  "helper %r does not exist" % r_, mod.loc(node))
    run.floor(R, "helper references", n, 40)


def rule_r6(repo, run, T):
    R = run.rule("C05.R6", "every eval_template(name, tname) names an existing <name><tname>_template option")
    astm = repo.module("ast")
    f = astm.func("LibraryNode.default_options")
    opts = set()
    for node in ast.walk(f):
        if isinstance(node, ast.Call) and (pyflow.call_name(node) or "").split(".")[-1] == "Scope":
            for k in node.keywords:
                if k.arg:
                    opts.add(k.arg)
        if isinstance(node, ast.Assign):
            for t in node.targets:
                if isinstance(t, ast.Attribute):
                    opts.add(t.attr)
    if len(opts) < 60:
        raise AnalysisError("C05.R6: only %d options found in LibraryNode.default_options" % len(opts))
    n = 0
    for m in repo.modules():
        for node in ast.walk(m.tree):
            if isinstance(node, ast.Call) and (pyflow.call_name(node) or "").split(".")[-1] == "eval_template" \
                    and node.args:
                name = pyflow.const_str(node.args[0])
                tname = ""
                if len(node.args) > 1:
                    tname = pyflow.const_str(node.args[1])
                for k in node.keywords:
                    if k.arg == "tname":
                        tname = pyflow.const_str(k.value)
                if name is None or tname is None:
                    run.unmodelled_site(R, m.loc(node), "non-constant eval_template arguments")
                    continue
                n += 1
                opt = name + tname + "_template"
                run.check(R, "%s.%s:eval_template(%s%s)" % (m.name, _enclosing_qualname(node), name, tname),
                          opt in opts, "option %r is not defined in LibraryNode.default_options "
                          "(AttributeError at run time)" % opt, m.loc(node),
                          sample=dict(option=opt))
            # options.X_template reads
            if isinstance(node, ast.Attribute) and node.attr.endswith("_template") and \
                    isinstance(node.ctx, ast.Load):
                d = pyflow.dotted(node) or ""
                if "options" in d.split("."):
                    n += 1
                    run.check(R, "%s.%s:options.%s" % (m.name, _enclosing_qualname(node), node.attr),
                              node.attr in opts, "option %r is not defined in default_options" % node.attr,
                              m.loc(node))
    run.floor(R, "option template references", n, 60)
    # every *_template default is a well formed template
    for node in ast.walk(f):
        if isinstance(node, ast.Call) and (pyflow.call_name(node) or "").split(".")[-1] == "Scope":
            for k in node.keywords:
                if k.arg and k.arg.endswith("_template"):
                    s = pyflow.const_str(k.value)
                    if s is None:
                        continue
                    fs, err = templ.safe_fields(s)
                    run.check(R, "ast.LibraryNode.default_options.%s" % k.arg, err is None,
                              "malformed template: %s" % err, astm.loc(k.value))


WRITE_ATTRS = ["comment", "cont", "linelen"]


def rule_r7(repo, run, T):
    R = run.rule("C05.R7", "every class that writes files through WrapperMixin defines comment/cont/"
                           "linelen; Fortran line length comes from F_line_length, C family from C_line_length")
    n = 0
    for mname, cname, lopt in (("wrapc", "Wrapc", "C_line_length"), ("wrapf", "Wrapf", "F_line_length"),
                               ("wrapp", "Wrapp", "C_line_length"), ("wrapl", "Wrapl", "C_line_length"),
                               ("main", "TypeOut", None)):
        mod = repo.module(mname)
        cls = mod.cls(cname)
        init = None
        for b in cls.body:
            if isinstance(b, ast.FunctionDef) and b.name == "__init__":
                init = b
        if init is None:
            raise AnalysisError("C05.R7: %s.%s.__init__ vanished" % (mname, cname))
        assigned = {}
        for node in ast.walk(init):
            if isinstance(node, ast.Assign):
                for t in node.targets:
                    if isinstance(t, ast.Attribute) and isinstance(t.value, ast.Name) and t.value.id == "self":
                        assigned[t.attr] = node.value
        for b in cls.body:
            if isinstance(b, ast.Assign):
                for t in b.targets:
                    if isinstance(t, ast.Name):
                        assigned.setdefault(t.id, b.value)
        for a in WRITE_ATTRS:
            n += 1
            run.check(R, "%s.%s.%s" % (mname, cname, a), a in assigned,
                      "attribute %s (read by write_lines/write_continue/write_output_file) is never set "
                      "in __init__" % a, mod.loc(init))
        if lopt and "linelen" in assigned:
            src = mod.seg(assigned["linelen"])
            n += 1
            run.check(R, "%s.%s.linelen" % (mname, cname), lopt in src,
                      "linelen is %r, expected the %s option" % (src, lopt), mod.loc(assigned["linelen"]),
                      sample=dict(cls=cname, linelen=src))
    run.floor(R, "emitter attributes", n, 15)


def rule_r8(repo, run, T):
    R = run.rule("C05.R8", "the JSON dump that always runs has a visit_<Class> for every AST node class")
    astm = repo.module("ast")
    td = repo.module("todict")
    todict = td.cls("ToDict")
    visits = set(b.name[len("visit_"):] for b in todict.body
                 if isinstance(b, ast.FunctionDef) and b.name.startswith("visit_"))
    n = 0
    # AstNode subclasses
    bases = {}
    for qn, c in astm.classes().items():
        bases[qn] = [pyflow.dotted(b) or "" for b in c.bases]

    def derives(qn, root, depth=0):
        if depth > 8:
            return False
        for b in bases.get(qn, []):
            b = b.split(".")[-1]
            if b == root or derives(b, root, depth + 1):
                return True
        return False
    for qn in sorted(bases):
        if derives(qn, "AstNode"):
            if not _instances_stored(repo, qn):
                run.unmodelled_site(R, "ast.%s" % qn, "instances are never stored in the tree "
                                    "(transparent helper node): not reachable by the dump")
                continue
            n += 1
            run.check(R, "todict.ToDict.visit_%s" % qn, qn in visits,
                      "ast.%s has no ToDict.visit_%s: dump_jsonfile (runs in a finally block) raises"
                      % (qn, qn), td.loc(todict), sample=dict(node=qn))
    # declast Node subclasses instantiated by the parser
    dm = repo.module("declast")
    dbases = {qn: [pyflow.dotted(b) or "" for b in c.bases] for qn, c in dm.classes().items()}
    printnode = td.cls("PrintNode")
    pvisits = set(b.name[len("visit_"):] for b in printnode.body
                  if isinstance(b, ast.FunctionDef) and b.name.startswith("visit_"))
    expr_nodes = ["Identifier", "BinaryOp", "UnaryOp", "ParenExpr", "Constant", "AssumedRank"]
    for qn in sorted(dbases):
        if "Node" in [b.split(".")[-1] for b in dbases[qn]]:
            n += 1
            run.check(R, "todict.ToDict.visit_%s" % qn, qn in visits,
                      "declast.%s has no ToDict.visit_%s" % (qn, qn), td.loc(todict))
            if qn in expr_nodes:
                run.check(R, "todict.PrintNode.visit_%s" % qn, qn in pvisits,
                          "declast.%s has no PrintNode.visit_%s" % (qn, qn), td.loc(printnode))
    run.floor(R, "node classes", n, 20)


def _instances_stored(repo, clsname):
    """True when some `v = Cls(...)` result is appended / stored / returned,
    or the constructor call is used directly as an argument or value."""
    for mname in ("ast", "generate", "main"):
        mod = repo.module(mname)
        for fn in mod.functions().values():
            for node in ast.walk(fn):
                if not (isinstance(node, ast.Call) and (pyflow.call_name(node) or "").split(".")[-1] == clsname):
                    continue
                parent = getattr(node, "_parent", None)
                if isinstance(parent, ast.Assign) and len(parent.targets) == 1 and \
                        isinstance(parent.targets[0], ast.Name):
                    var = parent.targets[0].id
                    for n2 in ast.walk(fn):
                        if isinstance(n2, ast.Call) and isinstance(n2.func, ast.Attribute) and \
                                n2.func.attr in ("append", "insert", "extend", "add") and \
                                any(pyflow.is_name(a, var) for a in n2.args):
                            return True
                        if isinstance(n2, ast.Assign) and pyflow.is_name(n2.value, var) and \
                                any(isinstance(t, (ast.Attribute, ast.Subscript)) for t in n2.targets):
                            return True
                        if isinstance(n2, ast.Return) and n2.value is not None and pyflow.is_name(n2.value, var):
                            return True
                elif isinstance(parent, (ast.Assign,)) and any(
                        isinstance(t, (ast.Attribute, ast.Subscript)) for t in parent.targets):
                    return True
                elif isinstance(parent, (ast.Return, ast.Call)):
                    return True
    return False


def rule_r9(repo, run, T):
    R = run.rule("C05.R9", "headers are included under the preprocessor branch of the language that provides them "
                           "(#ifdef __cplusplus -> C++ headers, #else / #ifndef -> C headers)")
    um = repo.module("util")
    f = um.func("Header.write_includes_for_header")
    # provenance of each header table: which typemap field fills it
    prov = {}
    for lp in ast.walk(f):
        if isinstance(lp, ast.For) and isinstance(lp.iter, ast.Attribute) and lp.iter.attr.endswith("_header"):
            lang = {"c_header": "c", "cxx_header": "c++", "wrap_header": "any"}.get(lp.iter.attr)
            for c in ast.walk(lp):
                if isinstance(c, ast.Call) and isinstance(c.func, ast.Attribute) and c.func.attr == "setdefault" \
                        and isinstance(c.func.value, ast.Name):
                    prov[c.func.value.id] = lang
    # a table filled from entries that are in both the C and the C++ table is language neutral
    for node in ast.walk(f):
        if isinstance(node, ast.Assign) and isinstance(node.targets[0], ast.Subscript) and \
                isinstance(node.targets[0].value, ast.Name) and isinstance(node.value, ast.Subscript) and \
                isinstance(node.value.value, ast.Name) and node.value.value.id in prov:
            prov.setdefault(node.targets[0].value.id, "any")
    if sorted(v for v in prov.values() if v in ("c", "c++")) != ["c", "c++"]:
        raise AnalysisError("C05.R9: header tables of write_includes_for_header not recognised: %s" % prov)
    first = min(i for i, st in enumerate(f.body) if any(
        (pyflow.call_name(c) or "").endswith("write_include_group") for c in pyflow.calls_in(st)))
    n = 0
    seen = set()
    for path in pyflow.paths(f.body[first:]):
        state = None            # None | "c" | "c++"
        c_only_lib = any(pol and "language" in um.seg(t) and pyflow.const_str(getattr(t, "comparators", [None])[0]) == "c"
                         for t, pol in path.conds)
        for st in path.stmts:
            if isinstance(st, ast.If):
                continue
            for c in pyflow.calls_in(st):
                d = pyflow.call_name(c) or ""
                if d.endswith(".append") and c.args and isinstance(c.args[0], ast.Constant) and isinstance(c.args[0].value, str):
                    t = c.args[0].value.replace(" ", "")
                    if t == "#ifdef__cplusplus":
                        state = "c++"
                    elif t == "#ifndef__cplusplus":
                        state = "c"
                    elif t == "#else":
                        state = {"c": "c++", "c++": "c"}.get(state, state)
                    elif t == "#endif":
                        state = None
                elif d.endswith("write_include_group") and c.args and isinstance(c.args[0], ast.Name):
                    lst = c.args[0].id
                    lang = prov.get(lst)
                    key = (lst, state, c_only_lib, c.lineno)
                    if key in seen:
                        continue
                    seen.add(key)
                    n += 1
                    if state is None:
                        ok = lang == "any" or (lang == "c" and c_only_lib)
                        why = "%s headers (%s) are included outside any __cplusplus guard" % (lang, lst)
                    else:
                        ok = lang in (state, "any")
                        why = "%s headers (%s) are included in the branch seen by %s compilers" % (lang, lst, state)
                    run.check(R, "util.Header.write_includes_for_header:%s@%s" % (lst, state or ("c-library" if c_only_lib else "unguarded")),
                              ok, why + ": a wrapper header compiled from the other language does not find them",
                              um.loc(c), sample=dict(table=lst, provides=lang, branch=state))
    run.floor(R, "guarded include groups", n, 5)


def _readable_keys(mod, func):
    """String keys a helper gatherer can look up in the helper dictionary: constants, and keys
    computed as <language> + "_x" (language in c / cxx) or from a literal list being iterated."""
    out = set()
    loopvals = {}
    for n in ast.walk(func):
        if isinstance(n, ast.For) and isinstance(n.target, ast.Name) and isinstance(n.iter, (ast.List, ast.Tuple)):
            loopvals[n.target.id] = [pyflow.const_str(e) for e in n.iter.elts if pyflow.const_str(e) is not None]

    def values(e):
        if isinstance(e, ast.Constant) and isinstance(e.value, str):
            return [e.value]
        if isinstance(e, ast.Attribute) and e.attr == "language":
            return ["c", "cxx"]
        if isinstance(e, ast.Name) and e.id in loopvals:
            return loopvals[e.id]
        if isinstance(e, ast.BinOp) and isinstance(e.op, ast.Add):
            return [a + b for a in values(e.left) for b in values(e.right)]
        return []
    for n in ast.walk(func):
        if isinstance(n, (ast.Constant, ast.BinOp)):
            out.update(values(n))
    return out


PAYLOAD = {"include", "c_include", "cxx_include", "source", "c_source", "cxx_source", "proto", "cxx_proto", "c_proto",
           "scope", "dependent_helpers", "derived_type", "interface", "modules", "private", "need_numpy"}


def rule_r10(repo, run, T):
    R = run.rule("C05.R10", "every payload key a requested helper defines is looked up by the emitter that gathers it "
                            "(includes, prototypes and sources of helpers reach the output)")
    helpers = T["helpers"]
    wc, wf, wp = repo.module("wrapc"), repo.module("wrapf"), repo.module("wrapp")
    readers = {
        "wrapc": _readable_keys(wc, wc.func("Wrapc._gather_helper_code")),
        "wrapf": _readable_keys(wf, wf.func("Wrapf._gather_helper_code")),
        "wrapp": _readable_keys(wp, wp.func("Wrapp._gather_helper_code")),
    }
    # C helpers requested through the C/Fortran statement table or by name in wrapc
    req = set()
    for lang in ("c", "c++"):
        for name, e in T["fc"].resolve_all(lang).items():
            for h in str(e.get("c_helper") or "").split():
                req.update(match_helper(h, helpers.c))
    for c in ast.walk(wc.tree):
        if isinstance(c, ast.Call) and (pyflow.call_name(c) or "").endswith("add_c_helper") and c.args:
            v = pyflow.const_str(c.args[0])
            if v:
                req.update(match_helper(v, helpers.c))
        if isinstance(c, ast.Assign) and isinstance(c.targets[0], ast.Subscript) and \
                (pyflow.dotted(c.targets[0].value) or "").endswith(("c_helper", "shared_helper")):
            v = pyflow.const_str(c.targets[0].slice)
            if v:
                req.update(match_helper(v, helpers.c))
    hc = closure(sorted(req), helpers.c)
    hp = closure(sorted(k for k, h in helpers.c.items() if any(x in h for x in ("proto", "cxx_proto", "need_numpy"))), helpers.c)
    n = 0
    for reader, keys, tab, side in (("wrapc", hc, helpers.c, "CHelpers"), ("wrapp", hp, helpers.c, "CHelpers"),
                                    ("wrapf", sorted(helpers.f), helpers.f, "FHelpers")):
        for key in keys:
            h = tab[key]
            for k in sorted(set(h.keys()) & PAYLOAD):
                if reader == "wrapc" and k in ("proto", "cxx_proto", "c_proto", "need_numpy"):
                    continue        # prototypes are a Python-emitter concept
                n += 1
                run.check(R, "whelpers.%s[%s].%s->%s" % (side, key, k, reader), k in readers[reader],
                          "helper %s defines %r but %s._gather_helper_code never looks that key up: the %s is missing "
                          "from the generated file" % (key, k, reader, k), repo.module("whelpers").loc(h.node),
                          sample=dict(helper=key, key=k, reader=reader))
    run.floor(R, "helper payload keys", n, 80)
    # a helper's own text is emitted after the text of the helpers it depends on
    for mod, q in ((wc, "Wrapc._gather_helper_code"), (wf, "Wrapf._gather_helper_code"), (wp, "Wrapp._gather_helper_code")):
        fn = mod.func(q)
        rec = [i for i, st in enumerate(fn.body) if any((pyflow.call_name(c) or "").endswith("._gather_helper_code")
                                                         for c in ast.walk(st) if isinstance(c, ast.Call))]
        pay = [i for i, st in enumerate(fn.body) if any(
            isinstance(c, ast.Call) and isinstance(c.func, ast.Attribute) and c.func.attr in ("append", "extend")
            for c in ast.walk(st)) or any(isinstance(a, ast.Assign) and isinstance(a.targets[0], ast.Subscript)
                                          and "done" not in mod.seg(a.targets[0]) for a in ast.walk(st))]
        pay = [i for i in pay if i not in rec]
        run.check(R, "%s.%s:dependencies-first" % (mod.name, q), bool(rec) and bool(pay) and max(rec) < min(pay),
                  "the helper's own includes/types/source are emitted before its dependent helpers were gathered: "
                  "a type or function is used before its definition", mod.loc(fn),
                  sample=dict(function=q, recursion_at=rec, first_payload_at=min(pay) if pay else None))


def rule_r11(repo, run, T):
    R = run.rule("C05.R11", "per-class accumulators of the Fortran module writer are re-created for every class "
                            "(a derived type never lists bindings collected for an earlier class)")
    wf = repo.module("wrapf")
    wc = wf.func("Wrapf.wrap_class")
    finfo = wc.args.args[2].arg
    consumed = {}
    for n in ast.walk(wc):
        # whole-container consumption: iteration or bulk copy of fileinfo.X
        cands = []
        if isinstance(n, (ast.For, ast.comprehension)):
            cands.append(n.iter)
        if isinstance(n, ast.Call) and isinstance(n.func, ast.Attribute) and n.func.attr == "extend" and n.args:
            cands.append(n.args[0])
        for e in cands:
            for x in ast.walk(e):
                if isinstance(x, ast.Attribute) and pyflow.is_name(x.value, finfo):
                    par = getattr(x, "_parent", None)
                    if isinstance(par, ast.Subscript) and par.value is x:
                        continue        # fileinfo.X[key]: keyed per class
                    consumed[x.attr] = wf.loc(n if hasattr(n, "lineno") else e)
    if not consumed:
        raise AnalysisError("C05.R11: wrap_class consumes no container of the module writer")
    mi = wf.cls("ModuleInfo")
    bc = wf.func("ModuleInfo.begin_class")
    fresh = set()
    for n in ast.walk(bc):
        if isinstance(n, ast.Assign):
            for t in n.targets:
                if isinstance(t, ast.Attribute) and pyflow.is_name(t.value, "self") and state.is_mutable_value(n.value):
                    fresh.add(t.attr)
    for attr, loc in sorted(consumed.items()):
        run.check(R, "wrapf.ModuleInfo.begin_class:%s" % attr, attr in fresh,
                  "wrap_class emits the whole of fileinfo.%s for each class, but begin_class does not re-create it: the "
                  "second class of a module repeats the bindings/generics of the first (duplicate `generic ::` / "
                  "`procedure ::` lines do not compile)" % attr, loc, sample=dict(attribute=attr, reset_in_begin_class=attr in fresh))
    run.floor(R, "per-class containers", len(consumed), 2)
    # begin_class precedes the class body in every loop over classes
    wn = wf.func("Wrapf.wrap_namespace")
    nloops = 0
    for lp in ast.walk(wn):
        if isinstance(lp, ast.For) and (pyflow.dotted(lp.iter) or "").endswith(".classes"):
            nloops += 1
            order = []
            for st in lp.body:
                for c in pyflow.calls_in(st):
                    d = pyflow.call_name(c) or ""
                    if d.endswith(".begin_class"):
                        order.append(("begin", st))
                    elif d in ("self.wrap_class", "self.wrap_struct"):
                        order.append(("wrap", st))
            ok = bool(order) and order[0][0] == "begin" and isinstance(order[0][1], ast.Expr)
            run.check(R, "wrapf.Wrapf.wrap_namespace:begin_class-first", ok,
                      "every class must start with an unconditional fileinfo.begin_class() before it is wrapped", wf.loc(lp))
    if nloops != 1:
        raise AnalysisError("C05.R11: loop over classes in wrap_namespace not found")
    # the same for the Python emitter: attributes set while the functions of a class are wrapped and read when the
    # class's type object is written must start from their default for every class
    wp = repo.module("wrapp")
    cls = wp.cls("Wrapp")
    meths = {n.name: n for n in cls.body if isinstance(n, ast.FunctionDef)}

    def reach(name, seen):
        if name in seen or name not in meths:
            return seen
        seen.add(name)
        for c in ast.walk(meths[name]):
            if isinstance(c, ast.Call):
                d = pyflow.call_name(c) or ""
                if d.startswith("self.") and d.count(".") == 1:
                    reach(d[5:], seen)
        return seen
    fw = reach("wrap_functions", set())
    cw = reach("wrap_class", set()) - fw
    written = set()
    for m in fw:
        for n in ast.walk(meths[m]):
            if isinstance(n, ast.Assign):
                for t in n.targets:
                    if isinstance(t, ast.Attribute) and pyflow.is_name(t.value, "self"):
                        v = n.value
                        sticky = (isinstance(v, ast.Constant) and v.value is True) or (
                            isinstance(v, ast.BoolOp) and isinstance(v.op, ast.Or) and any(
                                isinstance(x, ast.Attribute) and x.attr == t.attr for x in v.values))
                        if not sticky:          # `x = True` / `x = x or y` only ever adds a header, never a wrong name
                            written.add(t.attr)
    read = set()
    for m in cw:
        for n in ast.walk(meths[m]):
            if isinstance(n, ast.Attribute) and pyflow.is_name(n.value, "self") and isinstance(n.ctx, ast.Load):
                read.add(n.attr)
    per_class = sorted(written & read)
    wcl = meths["wrap_class"]
    call_idx = [i for i, st in enumerate(wcl.body) if any((pyflow.call_name(c) or "") == "self.wrap_functions"
                                                           for c in pyflow.calls_in(st))]
    if not call_idx:
        raise AnalysisError("C05.R11: Wrapp.wrap_class no longer calls self.wrap_functions")
    for attr in per_class:
        resets = [i for i, st in enumerate(wcl.body[:call_idx[0]]) if isinstance(st, ast.Assign) and any(
            isinstance(t, ast.Attribute) and pyflow.is_name(t.value, "self") and t.attr == attr for t in st.targets)]
        run.check(R, "wrapp.Wrapp.wrap_class:%s" % attr, bool(resets),
                  "self.%s is set while the functions of a class are wrapped and read when the class is written, but "
                  "wrap_class does not reset it before wrapping the functions: a class inherits the value of the "
                  "previous class (e.g. another class's static tp_init)" % attr, wp.loc(wcl),
                  sample=dict(attribute=attr))
    run.floor(R, "per-class attributes of the Python emitter", len(per_class), 1)


def rule_r12(repo, run, T):
    R = run.rule("C05.R12", "a boolean flag kept in a format scope is set on one scope per function (a flag set on "
                            "the child scope of an argument is invisible to the function-level reader)")
    n = 0
    for mn in ("wrapc", "wrapf", "wrapp", "wrapl"):
        m = repo.module(mn)
        for q, fn in sorted(m.functions().items()):
            recv = {}
            for node in ast.walk(fn):
                if isinstance(node, ast.Assign) and isinstance(node.value, ast.Constant) and isinstance(node.value.value, bool):
                    for t in node.targets:
                        if isinstance(t, ast.Attribute) and isinstance(t.value, ast.Name) and t.value.id.startswith("fmt"):
                            recv.setdefault(t.attr, {}).setdefault(t.value.id, node)
            for attr, rs in sorted(recv.items()):
                n += 1
                run.check(R, "%s.%s:%s" % (mn, q, attr), len(rs) == 1,
                          "flag %s is set through %s in the same function: the scopes are parent and child, so one of the "
                          "writes never reaches the code that tests the flag" % (attr, sorted(rs)),
                          m.loc(sorted(rs.values(), key=lambda x: x.lineno)[-1]), sample=dict(function=q, flag=attr, scopes=sorted(rs)))
    run.floor(R, "format-scope flags", n, 5)


def rule_r13(repo, run, T):
    R = run.rule("C05.R13", "conditional-compilation guards of a declaration are opened and closed the same number of "
                            "times under the same test")
    n = 0
    for mn in ("wrapc", "wrapf", "wrapp", "wrapl"):
        m = repo.module(mn)
        for q, fn in sorted(m.functions().items()):
            groups = {}
            for c in ast.walk(fn):
                if isinstance(c, ast.Call) and isinstance(c.func, ast.Attribute) and c.func.attr == "append" and c.args:
                    t = str(m.seg(c.args[0]))
                    kind = None
                    if re.match(r"^'#' \+ .*cpp_if", t):
                        kind = 0
                    elif t.startswith("'#endif"):
                        kind = 1
                    if kind is None:
                        continue
                    tests = [str(m.seg(tt)) for tt, pol in pyflow.dominating_tests(c, stop=fn) if pol and "cpp_if" in str(m.seg(tt))]
                    if not tests:
                        continue            # include guards and the like: not tied to a declaration's cpp_if
                    groups.setdefault(tests[-1], [0, 0])[kind] += 1
            for g, (o, cl) in sorted(groups.items()):
                n += 1
                run.check(R, "%s.%s:if %s" % (mn, q, g), o == cl,
                          "under `if %s` the guard is opened %d time(s) and closed %d time(s): the generated file has an "
                          "unterminated or dangling preprocessor conditional" % (g, o, cl), m.loc(fn),
                          sample=dict(function=q, test=g, opens=o, closes=cl))
    run.floor(R, "guarded open/close groups", n, 10)
    # block openers and closers that one function emits as separate lines (`abstract interface` ... `end interface`,
    # `interface` ... `end interface`, `extern "C" {` ... `}`) are emitted under the same conditions
    PAIRS = [("abstract interface", r"^[-+]*abstract interface\b", r"^[-+]*end interface\b"),
             ("interface", r"^[-+]*interface\b", r"^[-+]*end interface\b"),
             ("extern C", r'extern "C" \{', r"^\}\s*(//.*)?$")]
    k = 0
    for mn in ("wrapf", "wrapc", "wrapp", "wrapl", "whelpers"):
        m = repo.module(mn)
        for q, fn in sorted(m.functions().items()):
            consts = [c for c in ast.walk(fn) if isinstance(c, ast.Constant) and isinstance(c.value, str)
                      and not isinstance(getattr(c, "_parent", None), ast.Expr)]
            for tag, op, cl in PAIRS:
                opens = [c for c in consts if re.search(op, c.value, re.M) and not re.search(cl, c.value, re.M)]
                closes = [c for c in consts if re.search(cl, c.value, re.M) and not re.search(op, c.value, re.M)]
                if tag == "interface":
                    # `abstract interface` has its own pair; count its `end interface` lines there
                    if any(re.search(PAIRS[0][1], c.value, re.M) for c in consts):
                        continue
                if not opens or not closes:
                    continue
                k += 1
                ga = sorted(sorted(pyflow.path_atoms(c, stop=fn, seg=m.seg)) for c in opens)
                gb = sorted(sorted(pyflow.path_atoms(c, stop=fn, seg=m.seg)) for c in closes)
                run.check(R, "%s.%s:%s" % (mn, q, tag), ga == gb,
                          "`%s` is opened under %s but closed under %s: with the conditions disagreeing the block is left open "
                          "or closed twice (the module does not compile)" % (tag, ga, gb), m.loc(opens[0]),
                          sample=dict(function=q, block=tag, opens=ga, closes=gb))
    run.floor(R, "open/close line pairs", k, 6)


def rule_r14(repo, run, T):
    R = run.rule("C05.R14", "what one part requests another part provides: a module never uses itself, every user of a header "
                            "is recorded, C helpers requested by the Fortran pass are written after it")
    wf = repo.module("wrapf")
    sm = wf.func("Wrapf.sort_module_info")
    ifs = [n for n in ast.walk(sm) if isinstance(n, ast.If) and "module_name" in wf.seg(n.test)]
    ok = len(ifs) == 1 and isinstance(ifs[0].test, ast.Compare) and len(ifs[0].test.ops) == 1 and \
        isinstance(ifs[0].test.ops[0], ast.Eq) and bool(ifs[0].orelse)
    if ok:
        uses = [x for st in ifs[0].body for x in ast.walk(st) if isinstance(x, ast.Constant) and isinstance(x.value, str) and "use " in x.value]
        ok = not uses
    run.check(R, "wrapf.Wrapf.sort_module_info:own-module", ok,
              "the `use` statement for other modules must be the else-arm of the plain test `mname == module_name`: with an "
              "extra condition the module's own name falls into the else-arm and a procedure `use`s the module it is in",
              wf.loc(sm))
    # accumulate-by-key: setdefault(k, []).append(v); a non-empty default whose result is dropped records only the first
    n = 0
    for mn in ("util", "wrapc", "wrapf", "wrapp", "wrapl", "generate", "typemap", "ast"):
        m = repo.module(mn)
        for st in ast.walk(m.tree):
            if isinstance(st, ast.Expr) and isinstance(st.value, ast.Call) and isinstance(st.value.func, ast.Attribute) \
                    and st.value.func.attr == "setdefault" and len(st.value.args) == 2:
                n += 1
                d = st.value.args[1]
                nonempty = isinstance(d, (ast.List, ast.Tuple, ast.Set)) and d.elts or isinstance(d, ast.Dict) and d.keys
                fn = enclosing_function(st)
                run.check(R, "%s.%s:%s" % (mn, getattr(fn, "_qualname", "<module>"), re.sub(r"\s+", "", m.seg(st.value))[:50]),
                          not nonempty,
                          "`%s` only stores the first value for a key: later users of the same key (e.g. other types needing "
                          "the same header) are forgotten" % m.seg(st.value), m.loc(st))
    # C helpers requested by a Fortran module (interfaces bound to <prefix>ShroudCopyArray ...) are collected once per
    # *module*: the library, every namespace that is not flattened and every class file
    wmod = wf.func("Wrapf.write_module")
    per_module = set(["Wrapf.write_module"])
    for c in ast.walk(wmod):
        if isinstance(c, ast.Call) and (pyflow.call_name(c) or "").startswith("self.") and any(
                pyflow.is_name(a, "fileinfo") for a in c.args):
            per_module.add("Wrapf." + (pyflow.call_name(c) or "").split(".")[-1])
    acc = []
    for q, fn in wf.functions().items():
        for c in ast.walk(fn):
            if isinstance(c, ast.Call) and str(wf.seg(c.func)) == "self.shared_helper.update" and c.args \
                    and str(wf.seg(c.args[0])).endswith(".c_helper"):
                acc.append((q, c))
    if not acc:
        raise AnalysisError("C05.R14: accumulation of Fortran-requested C helpers (shared_helper.update) not found")
    for q, c in acc:
        run.check(R, "wrapf.%s:shared-helpers-per-module" % q, q in per_module,
                  "the C helpers a Fortran module needs are merged into the shared table in %s, which does not run once per "
                  "module (%s do): helpers requested only by a namespace or class module are bound in its interfaces but never "
                  "written to the C utility file (undefined reference at link time)" % (q, sorted(per_module)), wf.loc(c))
    # order of the passes
    mm = repo.module("main")
    f = mm.func("main_with_args")
    pos = {}
    for c in ast.walk(f):
        if isinstance(c, ast.Call):
            t = str(mm.seg(c))
            if t.endswith(".write_impl_utility()"):
                pos["util"] = c.lineno
            if "Wrapf(" in t and t.endswith(".wrap_library()"):
                pos["fortran"] = c.lineno
    if set(pos) != {"util", "fortran"}:
        raise AnalysisError("C05.R14: pass order of main_with_args not recognised: %s" % pos)
    run.check(R, "main.main_with_args:utility-after-fortran", pos["util"] > pos["fortran"],
              "the C utility file (helpers implemented in C and called from Fortran) is written before the Fortran pass has "
              "registered the helpers it needs: they are never emitted (undefined symbol at link time)", mm.loc(f))
    wu = [c for c in ast.walk(f) if isinstance(c, ast.Call) and str(mm.seg(c)).endswith(".write_impl_utility()")]
    conds = [(str(mm.seg(t)), pol) for t, pol in pyflow.dominating_tests(wu[0], stop=f)]
    run.check(R, "main.main_with_args:utility-guard", not any("wrap.c" == t and pol for t, pol in conds),
              "write_impl_utility must also run when only Fortran is wrapped", mm.loc(wu[0]))


def rule_r19(repo, run, T):
    R = run.rule("C05.R19", "what the type table and the emitters provide for a type is what its declarations use: Fortran kinds "
                            "named by f_type/f_kind/f_cast are imported by f_module, and the headers registered for a C wrapper "
                            "are those of the type that appears in the prototype")
    types = T["types"]
    n = 0
    def kinds(t, flds):
        out = set()
        for fld in flds:
            v = t.get(fld)
            if v:
                out.update(re.findall(r"\bC_[A-Z0-9_]+\b", str(v)))
        return out

    def provided(mod):
        have = set()
        if isinstance(mod, dict):
            for k_, v in mod.items():
                if str(k_) == "iso_c_binding":
                    have.update(str(x) for x in (v or []))
        return have
    for name, t in sorted(types.types.items()):
        fm, fcm = t.get("f_module"), t.get("f_c_module")
        obligations = []
        if fm:
            # wrapper bodies declare with f_type / f_kind / f_cast and import f_module
            obligations.append(("f_module", kinds(t, ("f_type", "f_kind", "f_cast")), provided(fm)))
        # interfaces declare with f_c_type (else f_type) and import `f_c_module or f_module`
        imod = fcm or fm
        if imod:
            obligations.append(("f_c_module" if fcm else "f_module(interface)",
                                kinds(t, ("f_c_type",)) if t.get("f_c_type") else kinds(t, ("f_type",)), provided(imod)))
        for modfld, need, have in obligations:
            if not need:
                continue
            n += 1
            run.check(R, "typemap[%s].%s" % (name, modfld), need <= have,
                      "%s imports %s from iso_c_binding but the Fortran declarations of the type use %s: `use iso_c_binding, "
                      "only :` lacks %s (gfortran: symbol has no IMPLICIT type)" % (modfld, sorted(have), sorted(need),
                                                                                  sorted(need - have)), types.loc(name))
    run.floor(R, "typemaps with Fortran kinds", n, 25)
    wc = repo.module("wrapc")
    wf = wc.func("Wrapc.wrap_function")
    regs = [a for a in ast.walk(wf) if isinstance(a, ast.Assign) and isinstance(a.targets[0], ast.Subscript)
            and pyflow.is_name(a.targets[0].value, "header_typedef_nodes") and isinstance(a.value, ast.Name)]
    k = 0
    for a in regs:
        v = a.value.id
        # the definition of v that reaches the registration in its own statement list
        seq = getattr(a._parent, "body", None)
        if not isinstance(seq, list) or not any(x is a for x in seq):
            continue
        idx = [i for i, x in enumerate(seq) if x is a][0]
        defs = [(i, x) for i, x in enumerate(seq) if isinstance(x, ast.Assign)
                and any(v in [n_.id for n_ in ast.walk(t_) if isinstance(n_, ast.Name)] for t_ in x.targets) and x is not a]
        later = [x for i, x in defs if i > idx and "lookup_c_statements" in wc.seg(x.value)]
        if not defs:
            continue
        k += 1
        run.check(R, "wrapc.Wrapc.wrap_function:header_typedef_nodes[%s]" % v, not later,
                  "the typemap registered for the wrapper header is `%s` as it is *before* lookup_c_statements() replaces it "
                  "by the type that appears in the prototype (the element type of a std::vector): the header of that type "
                  "(<stdint.h> for int64_t) is never included" % v, wc.loc(a))
    run.floor(R, "header registrations of argument types", k, 1)
    # the mirror image in the Fortran wrapper: the kinds imported for a dummy argument are those of the *Fortran* argument
    # (a fortran_generic variant declares real(C_FLOAT) while the C function takes double): the import is made from the
    # typemap as it is before lookup_c_statements(c_arg) replaces it by the C argument's
    wfm = repo.module("wrapf")
    wi = wfm.func("Wrapf.wrap_function_impl")
    k2 = 0
    for c in ast.walk(wi):
        if isinstance(c, ast.Call) and str(wfm.seg(c.func)) == "self.update_f_module" and len(c.args) == 3 \
                and isinstance(c.args[2], ast.Attribute) and isinstance(c.args[2].value, ast.Name) and c.args[2].attr == "f_module":
            v = c.args[2].value.id
            st = c
            while not isinstance(getattr(st, "_parent", None), (ast.For, ast.If, ast.FunctionDef, ast.While)):
                st = st._parent
            seq = [lst for lst in (getattr(st._parent, "body", []), getattr(st._parent, "orelse", [])) if any(x is st for x in lst)]
            if not seq:
                continue
            seq = seq[0]
            idx = [i for i, x in enumerate(seq) if x is st][0]
            redefs = [x for x in seq[:idx] if isinstance(x, ast.Assign) and "lookup_c_statements" in wfm.seg(x.value)
                      and any(v in [n_.id for n_ in ast.walk(t_) if isinstance(n_, ast.Name)] for t_ in x.targets)]
            later = [x for x in seq[idx + 1:] if isinstance(x, ast.Assign) and "lookup_c_statements" in wfm.seg(x.value)
                     and any(v in [n_.id for n_ in ast.walk(t_) if isinstance(n_, ast.Name)] for t_ in x.targets)]
            if not redefs and not later:
                continue
            k2 += 1
            run.check(R, "wrapf.Wrapf.wrap_function_impl:update_f_module(%s.f_module)" % v, not redefs,
                      "the `use` list of the wrapper is filled from `%s.f_module` after lookup_c_statements() has replaced `%s` by "
                      "the C argument's typemap: a generic variant `(float scale)` of `void f(double scale)` declares "
                      "real(C_FLOAT) and imports only C_DOUBLE" % (v, v), wfm.loc(c))
    run.floor(R, "kind imports of Fortran dummy arguments", k2, 1)
    # a function named in a table is defined: the descriptor table names {PY_setter} exactly when the setter is written
    wpm = repo.module("wrapp")
    wv = wpm.func("Wrapp.wrap_class_variable")
    names = [a for a in ast.walk(wv) if isinstance(a, ast.Assign) and isinstance(a.targets[0], ast.Attribute)
             and a.targets[0].attr == "PY_setter" and "nullptr" not in wpm.seg(a.value)]
    defs = [c for c in ast.walk(wv) if isinstance(c, ast.Constant) and isinstance(c.value, str)
            and re.search(r"static\s+int\s+\{PY_setter\}\s*\(", c.value)]
    if not names or not defs:
        raise AnalysisError("C05.R19: naming / definition of the member setter not found in wrap_class_variable")
    a1 = set().union(*[pyflow.path_atoms(a, stop=wv, seg=wpm.seg) for a in names])
    a2 = set().union(*[pyflow.path_atoms(c, stop=wv, seg=wpm.seg) for c in defs])
    run.check(R, "wrapp.Wrapp.wrap_class_variable:setter-named-iff-defined", a1 == a2,
              "PY_setter is given the setter's name under %s but the setter function is written under %s: for a +readonly "
              "member the PyGetSetDef row names a function that does not exist (undeclared identifier)" % (sorted(a1), sorted(a2)),
              wpm.loc(names[0]))
    from checks import c02
    from sa.report import import_rules
    import_rules(run, R, c02, repo, {"C02.R12"}, only=lambda c: c.startswith("wrapc.compute_cxx_deref"))
    # const results are cast before they are stored in a `void *`; references leave the wrapper as pointers (C02.R16)
    import_rules(run, R, c02, repo, {"C02.R16"})
    # one definition per name: the Python dispatcher of overloads / instantiations is named without their suffixes (C08.R4)
    from checks import c08
    import_rules(run, R, c08, repo, {"C08.R4"}, only=lambda c: c.startswith("wrapp."))


def rule_r15(repo, run, T):
    R = run.rule("C05.R15", "requirements accumulate: a flag collected over several helpers is or-ed, the user's header reaches "
                            "C struct typemaps, a bind(C) function that writes through an argument is not PURE")
    wp = repo.module("wrapp")
    g = wp.func("Wrapp._gather_helper_code")
    n = 0
    for a in ast.walk(g):
        if isinstance(a, ast.Assign) and isinstance(a.targets[0], ast.Attribute) and pyflow.is_name(a.targets[0].value, "self") \
                and "helper_info" in wp.seg(a.value):
            n += 1
            attr = a.targets[0].attr
            keeps = any(isinstance(x, ast.Attribute) and x.attr == attr and pyflow.is_name(x.value, "self") for x in ast.walk(a.value))
            run.check(R, "wrapp.Wrapp._gather_helper_code:self.%s" % attr, keeps,
                      "self.%s is set from the current helper alone: it must accumulate (`x or self.%s`) over all helpers "
                      "gathered for the file, otherwise only the last helper decides (the numpy include is lost)" % (attr, attr),
                      wp.loc(a))
    run.floor(R, "accumulated helper flags", n, 1)
    # C struct typemaps include the library's header
    tm = repo.module("typemap")
    fs = tm.func("fill_struct_typemap_defaults")
    asg = pat.find(fs, "ntypemap.c_header = MV_V")
    ok = len(asg) == 1 and "cxx_header" in tm.seg(asg[0][0].value) and not tm.seg(asg[0][0].value).startswith("node.")
    run.check(R, "typemap.fill_struct_typemap_defaults:c_header", ok,
              "for a C library the struct is the user's own: its typemap must include the library's header "
              "(libnode.cxx_header); the struct node's own header list is empty, so wrapper headers lose the #include "
              "and do not compile on their own", tm.loc(fs))
    # PURE: not when a context/capsule argument is written
    wf = repo.module("wrapf")
    wi = wf.func("Wrapf.wrap_function_interface")
    pures = [a for a in ast.walk(wi) if isinstance(a, ast.Assign) and isinstance(a.targets[0], ast.Attribute)
             and a.targets[0].attr == "F_C_pure_clause" and pyflow.const_str(a.value) and "pure" in pyflow.const_str(a.value)]
    for a in pures:
        chain_if = a._parent
        conds = []
        node_ = chain_if
        # collect the tests of the elif chain that lead to this arm (all false before it)
        tests = [str(wf.seg(t)) for t, pol in pyflow.dominating_tests(a, stop=wi) if not pol]
        run.check(R, "wrapf.Wrapf.wrap_function_interface:pure", any("'context' in" in t and "buf_args" in t for t in tests)
                  and any("shadow" in t for t in tests),
                  "a bind(C) interface is marked PURE without excluding results returned through a context argument or a shadow "
                  "capsule (excluded cases: %s): gfortran rejects a PURE function with an INTENT(INOUT) argument" % tests, wf.loc(a))
    if not pures:
        raise AnalysisError("C05.R15: assignment of F_C_pure_clause not found")


def rule_r16(repo, run, T):
    R = run.rule("C05.R16", "an emitter that writes functions of more than one C return type (PyObject* methods and int "
                            "tp_init) returns its fixed error value through the per-kind field, or under a test of the kind")
    wp = repo.module("wrapp")
    lit = re.compile(r"\breturn\s+(\{nullptr\}|NULL|nullptr|-1|0)\s*;")
    n = nf = 0
    for fn in wp.functions().values():
        asg = [a for a in ast.walk(fn) if isinstance(a, ast.Assign) and isinstance(a.targets[0], ast.Attribute)
               and a.targets[0].attr == "PY_error_return"]
        if len(set(str(wp.seg(a.value)) for a in asg)) < 2:
            continue
        nf += 1
        kinds = set()
        for a in asg:
            for t, pol in pyflow.dominating_tests(a, stop=fn):
                kinds.add(str(wp.seg(t)))
        for c in ast.walk(fn):
            if isinstance(c, ast.Constant) and isinstance(c.value, str) and lit.search(c.value):
                if isinstance(getattr(c, "_parent", None), ast.Expr):
                    continue  # docstring
                n += 1
                tests = set(str(wp.seg(t)) for t, pol in pyflow.dominating_tests(c, stop=fn))
                m = lit.search(c.value)
                run.check(R, "wrapp.%s:%s" % (fn._qualname, re.sub(r"\s+", " ", m.group(0))), bool(tests & kinds),
                          "`%s` is emitted for every kind of wrapper (tests on the path: %s; the kind is decided by %s): in a "
                          "tp_init function, which returns int, `return nullptr;` does not compile - use {PY_error_return}"
                          % (m.group(0), sorted(tests), sorted(kinds)), wp.loc(c))
    run.floor(R, "emitters with a per-kind error return", nf, 2)
    run.floor(R, "literal returns in them", n, 1)


def rule_r17(repo, run, T):
    R = run.rule("C05.R17", "helpers are stored under names built from flat_name: typemaps of distinct C++ types have "
                            "distinct flat names, also when a typemap is cloned from another")
    types = T["types"]
    seen = {}
    n = 0
    for name, t in sorted(types.native().items()):
        fl, cx = t.get("flat_name"), t.get("cxx_type")
        if not fl or not cx:
            continue
        n += 1
        other = seen.setdefault(str(fl), (name, str(cx)))
        run.check(R, "typemap[%s].flat_name" % name, other[1] == str(cx),
                  "flat_name %r is also the flat name of %s (%s): the per-type helpers (copy_array_*, to_PyList_*, "
                  "create_from_PyObject_vector_*) of one replace those of the other, with the wrong element type"
                  % (fl, other[0], other[1]), types.loc(name))
    run.floor(R, "native typemaps with a flat name", n, 20)
    tm = repo.module("typemap")
    cf = tm.func("Typemap.compute_flat_name")
    only_if_unset = any(isinstance(i, ast.If) and "self.flat_name" in tm.seg(i.test) for i in ast.walk(cf))
    nclone = 0
    for mn in ("typemap", "ast", "declast", "generate"):
        m = repo.module(mn)
        for q, fn in m.functions().items():
            for a in ast.walk(fn):
                if not (isinstance(a, ast.Assign) and isinstance(a.targets[0], ast.Name) and isinstance(a.value, ast.Call)
                        and isinstance(a.value.func, ast.Attribute) and a.value.func.attr == "clone_as"):
                    continue
                v = a.targets[0].id
                sets = {}
                for b in ast.walk(fn):
                    if isinstance(b, ast.Assign) and isinstance(b.targets[0], ast.Attribute) and pyflow.is_name(b.targets[0].value, v):
                        sets.setdefault(b.targets[0].attr, b)
                if "cxx_type" not in sets:
                    continue
                nclone += 1
                if "typedef" in sets:
                    continue  # an alias of the same C++ type: the helpers of the original are the helpers of the alias
                calls = [c for c in ast.walk(fn) if isinstance(c, ast.Call) and isinstance(c.func, ast.Attribute)
                         and c.func.attr == "compute_flat_name" and pyflow.is_name(c.func.value, v)]
                ok = "flat_name" in sets or (calls and not only_if_unset)
                run.check(R, "%s.%s:%s.flat_name" % (mn, q, v), bool(ok),
                          "%s is cloned from another typemap and given a C++ type of its own, but keeps the flat_name of the "
                          "original (compute_flat_name only fills an unset name): the helpers generated for it are stored "
                          "under the original's helper names and replace them (e.g. create_from_PyObject_vector_int taking "
                          "std::vector<Color> &)" % v, m.loc(a))
    run.floor(R, "cloned typemaps with their own cxx_type", nclone, 2)


def rule_r18(repo, run, T):
    R = run.rule("C05.R18", "header lists (the library's own C++ header among them) are written outside `extern \"C\"`")
    n = 0
    for mn in ("wrapc", "wrapl", "wrapp"):
        m = repo.module(mn)
        for q, fn in sorted(m.functions().items()):
            events = []
            for c in ast.walk(fn):
                if isinstance(c, ast.Call):
                    name = (pyflow.call_name(c) or "").split(".")[-1]
                    if name == "extern_C" and len(c.args) == 2 and pyflow.const_str(c.args[1]) in ("begin", "end"):
                        events.append((c.lineno, c.col_offset, "open" if pyflow.const_str(c.args[1]) == "begin" else "close", c))
                    elif name == "write_headers":
                        events.append((c.lineno, c.col_offset, "headers", c))
                elif isinstance(c, ast.Constant) and isinstance(c.value, str):
                    if re.search(r'extern "C" \{', c.value):
                        events.append((c.lineno, c.col_offset, "open", c))
                    elif re.match(r'\s*\}(\s*//\s*extern "C")?\s*$', c.value) and any(e[2] == "open" for e in events):
                        events.append((c.lineno, c.col_offset, "close", c))
            if not any(e[2] == "headers" for e in events) or not any(e[2] == "open" for e in events):
                continue
            events.sort(key=lambda e: e[:2])
            depth = 0
            for ln, col, kind, node in events:
                if kind == "open":
                    depth += 1
                elif kind == "close":
                    depth = max(0, depth - 1)
                else:
                    n += 1
                    run.check(R, "%s.%s:write_headers" % (mn, q), depth == 0,
                              "the include list is written after `extern \"C\" {` was opened: the library's C++ header (and "
                              "<string>, <vector> behind it) gets C linkage - `template with C linkage` when the header is "
                              "compiled on its own", m.loc(node))
    run.floor(R, "header lists in functions that open extern \"C\"", n, 5)
    # the file with the memory destructor includes the headers of the types it releases: the typemap handed to
    # add_capsule_code is the declared type's (std::vector<int>, not int) and both header lists of it are recorded
    wc = repo.module("wrapc")
    fi = wc.func("Wrapc.find_idtor")
    calls = [c for c in ast.walk(fi) if isinstance(c, ast.Call) and (pyflow.call_name(c) or "") == "self.add_capsule_code" and len(c.args) >= 2]
    named = [c for c in calls if "destructor_name" in ast.unparse(c.args[0])]
    if not named:
        raise AnalysisError("C05.R18: find_idtor no longer registers the statements' destructor_name")
    for c in named:
        run.check(R, "wrapc.Wrapc.find_idtor:add_capsule_code(destructor_name, typemap)", ast.unparse(c.args[1]).endswith(".typemap"),
                  "the destructor of `%s` is registered with the typemap `%s`: for `std::vector<int> &` that is the typemap of the "
                  "template argument (int), so the library file uses std::vector without <vector>"
                  % ("std_vector_{flat_T}", ast.unparse(c.args[1])), wc.loc(c))
    ac = wc.func("Wrapc.add_capsule_code")
    lists = set(x.attr for x in ast.walk(ac) if isinstance(x, ast.Attribute) and x.attr.endswith("_header") and "typemap" in ast.unparse(x.value))
    run.check(R, "wrapc.Wrapc.add_capsule_code:headers", {"cxx_header", "impl_header"} <= lists,
              "add_capsule_code records %s of the released type: std::string keeps <string> in impl_header (the header of the "
              "implementation file, which is where the destructor is written)" % sorted(lists), wc.loc(ac))


# keys of a statement entry whose value is a list of names (helpers, destructors), not code
NAME_KEYS = ("c_helper", "f_helper", "getter_helper", "setter_helper", "destructor_name")
# typemap attributes by what they hold
TYPE_SPELLINGS = ("cxx_type", "c_type")        # text of a type: `unsigned int`, `std::complex<double>`
TYPE_NAMES = ("name", "flat_name")             # the typemap's name / identifier form: `unsigned_int`


def _source_attribute(expr):
    """the typemap attribute a format field is assigned from: X.attr, wformat(X.attr, fmt)"""
    if isinstance(expr, ast.Call) and (pyflow.call_name(expr) or "").endswith("wformat") and expr.args:
        expr = expr.args[0]
    if isinstance(expr, ast.Attribute):
        return expr.attr
    return None


def rule_r20(repo, run, T):
    R = run.rule("C05.R20", "a format field that fills the name of a helper or destructor is assigned from the typemap attribute "
                            "the helpers are registered under (flat_name); a field that fills a type position of C++ code "
                            "(`std::vector<{F}>`, `sizeof({F})`, `_cast<{F}`) is assigned from a type spelling (cxx_type / c_type)")
    # how the helpers of whelpers.py are named when they are registered
    wm = repo.module("whelpers")
    reg = {}
    for q, fn in sorted(wm.functions().items()):
        params = [a.arg for a in fn.args.args]
        if "ntypemap" not in params:
            continue
        local = {}
        for a in ast.walk(fn):
            if isinstance(a, ast.Assign) and len(a.targets) == 1 and isinstance(a.value, ast.Attribute) and \
                    pyflow.is_name(a.value.value, "ntypemap"):
                t = a.targets[0]
                if isinstance(t, ast.Name):
                    local[t.id] = a.value.attr
                elif isinstance(t, ast.Attribute) and pyflow.is_name(t.value, "fmt"):
                    local["{%s}" % t.attr] = a.value.attr
        for a in ast.walk(fn):
            if not (isinstance(a, ast.Assign) and len(a.targets) == 1 and pyflow.is_name(a.targets[0], "name")):
                continue
            v = a.value
            prefix = attr = None
            if isinstance(v, ast.BinOp) and isinstance(v.op, ast.Add):
                # "to_PyList_" + flat_name [+ "_numpy"]
                parts = []
                x = v
                while isinstance(x, ast.BinOp) and isinstance(x.op, ast.Add):
                    parts.insert(0, x.right)
                    x = x.left
                parts.insert(0, x)
                if pyflow.const_str(parts[0]) and len(parts) > 1 and isinstance(parts[1], ast.Name):
                    prefix, attr = pyflow.const_str(parts[0]), local.get(parts[1].id)
            elif isinstance(v, ast.Call) and isinstance(v.func, ast.Attribute) and v.func.attr == "format" and \
                    pyflow.const_str(v.func.value) and v.args and isinstance(v.args[0], ast.Name):
                prefix, attr = pyflow.const_str(v.func.value).split("{")[0], local.get(v.args[0].id)
            elif isinstance(v, ast.Call) and (pyflow.call_name(v) or "").endswith("wformat") and v.args and pyflow.const_str(v.args[0]):
                m_ = re.match(r"(\w+?)(\{\w+\})", pyflow.const_str(v.args[0]))
                if m_:
                    prefix, attr = m_.group(1), local.get(m_.group(2))
            if prefix and attr:
                reg.setdefault(prefix, set()).add(attr)
    if len(reg) < 6:
        raise AnalysisError("C05.R20: registration of per-type helpers in whelpers not recognised (%s)" % sorted(reg))
    # templates
    name_fields, type_fields = {}, {}
    for mn in ("statements", "wrapp", "wrapl"):
        m = repo.module(mn)
        name_values = set()
        for key, val in pyflow.table_fields(m.tree):
            if key in NAME_KEYS and pyflow.const_str(val):
                name_values.add(id(val))
                for word in pyflow.const_str(val).split():
                    for f in re.findall(r"\{(\w+)\}", word):
                        pre = word.split("{")[0]
                        name_fields.setdefault(f, []).append((m, val, key, pre, word))
        for c in ast.walk(m.tree):
            if isinstance(c, ast.Constant) and isinstance(c.value, str) and "{" in c.value and id(c) not in name_values:
                for f in re.findall(r"(?:vector<|sizeof\(|_cast<)\{(\w+)\}", c.value):
                    type_fields.setdefault(f, []).append((m, c))
    if len(name_fields) < 2 or not type_fields:
        raise AnalysisError("C05.R20: helper-name templates / type positions not found (%s / %s)" % (sorted(name_fields), sorted(type_fields)))
    # assignments of those fields in the wrappers
    assigns = {}
    for mn in ("wrapc", "wrapf", "wrapp", "wrapl", "generate"):
        m = repo.module(mn)
        for a in ast.walk(m.tree):
            if isinstance(a, ast.Assign) and len(a.targets) == 1 and isinstance(a.targets[0], ast.Attribute) and \
                    isinstance(a.targets[0].value, ast.Name) and a.targets[0].value.id.startswith("fmt"):
                assigns.setdefault(a.targets[0].attr, []).append((m, a, _source_attribute(a.value)))
    n = 0
    for f, sites in sorted(name_fields.items()):
        keyed = set()
        for m, node, key, pre, word in sites:
            keyed |= reg.get(pre, set())
        m0, node0, key0, pre0, word0 = sites[0]
        for m, a, src in assigns.get(f, []):
            if src is None or src not in TYPE_SPELLINGS + TYPE_NAMES:
                continue     # options, literals: not a typemap attribute
            n += 1
            want = keyed or {"flat_name"}
            run.check(R, "%s:%s.%s=%s:helper-name" % (m.name, a.targets[0].value.id, f, src), src in want,
                      "{%s} fills the name of a helper (`%s=\"%s\"`, %d templates) and the helpers are registered under the "
                      "typemap's %s, but the field is assigned from .%s: `unsigned int` gives two words in a name list / a "
                      "typedef'd type a name no helper has (KeyError in the generator)"
                      % (f, key0, word0, len(sites), "/".join(sorted(want)), src), m.loc(a))
    for f, sites in sorted(type_fields.items()):
        m0, c0 = sites[0]
        for m, a, src in assigns.get(f, []):
            if src is None or src not in TYPE_SPELLINGS + TYPE_NAMES:
                continue
            n += 1
            run.check(R, "%s:%s.%s=%s:type-position" % (m.name, a.targets[0].value.id, f, src), src in TYPE_SPELLINGS,
                      "{%s} fills a type position of the generated C++ (`%s`, %d templates) but is assigned from the typemap's "
                      ".%s, its identifier form: `std::vector<unsigned int>` is written `std::vector<unsigned_int>` (does not compile)"
                      % (f, re.sub(r"\s+", " ", c0.value)[:50], len(sites), src), m.loc(a))
    run.floor(R, "typed format-field assignments", n, 6)


def rule_r22(repo, run, T):
    R = run.rule("C05.R22", "the code that creates a submodule (`register_submodule`) is written into the init function of the "
                            "library module and of every namespace module alike: every name it uses (the init function of the "
                            "child, INITERROR) is declared in both kinds of file")
    wp = repo.module("wrapp")
    rs = wp.func("Wrapp.register_submodule")
    text = " ".join(c.value for c in ast.walk(rs) if isinstance(c, ast.Constant) and isinstance(c.value, str))
    macros = set(re.findall(r"\b([A-Z][A-Z0-9_]{3,})\b", text)) - {"PY_"}
    macros = set(m_ for m_ in macros if m_ in ("INITERROR", "RETVAL"))
    # templates of the two kinds of module file
    tmpl = {}
    for a in wp.tree.body:
        if isinstance(a, ast.Assign) and isinstance(a.targets[0], ast.Name) and pyflow.const_str(a.value):
            tmpl[a.targets[0].id] = pyflow.const_str(a.value)
    top = " ".join(v for k, v in tmpl.items() if k.startswith("module_"))
    sub = " ".join(v for k, v in tmpl.items() if k.startswith("submodule_"))
    if not top or not sub:
        raise AnalysisError("C05.R22: module / submodule templates of wrapp.py not found")
    for m_ in sorted(macros):
        run.check(R, "wrapp.submodule-templates:#define %s" % m_, ("#define %s" % m_) in sub or ("#define %s" % m_) not in top,
                  "register_submodule writes `%s` into the init function of whatever module has namespaces; the macro is defined in "
                  "the library's module file only: the module of a namespace that contains a namespace does not compile" % m_,
                  wp.loc(rs))
    # prototypes of the children's init functions
    wm = wp.func("Wrapp.write_module")
    protos_top = any(isinstance(c, ast.Call) and "module_init_decls" in ast.unparse(c) for c in ast.walk(wm))
    protos_sub = False
    for i in ast.walk(wm):
        if isinstance(i, ast.If) and ast.unparse(i.test) in ("top", "not top"):
            arm = i.orelse if ast.unparse(i.test) == "top" else i.body
            if any("init_{PY_module_init}" in (c.value if isinstance(c, ast.Constant) and isinstance(c.value, str) else "")
                   or "module_init_decls" in ast.unparse(c) for st in arm for c in ast.walk(st)):
                protos_sub = True
    run.check(R, "wrapp.Wrapp.write_module:submodule-init-prototypes", (not protos_top) or protos_sub,
              "the prototypes `PyObject *PY_init_<module>(void);` are written into the library's module file only; a namespace module "
              "that creates the submodule of an inner namespace calls an undeclared function", wp.loc(wm))



def rule_r23(repo, run, T):
    R = run.rule("C05.R23", "a declaration written with the interoperable spelling of a type (gen_arg_as_fortran(bindc=True): "
                            "f_c_type, e.g. character(kind=C_CHAR), logical(C_BOOL)) imports the kinds of that spelling: "
                            "`f_c_module or f_module`, not f_module alone")
    wf = repo.module("wrapf")
    n = 0
    for q, fn in sorted(wf.functions().items()):
        for blk in ast.walk(fn):
            for fld in ("body", "orelse"):
                seq = getattr(blk, fld, None)
                if not isinstance(seq, list):
                    continue
                bindc = False
                for st in seq:
                    if not isinstance(st, ast.stmt):
                        continue
                    calls = [c for c in ast.walk(st) if isinstance(c, ast.Call)] if not isinstance(st, (ast.If, ast.For, ast.While, ast.With, ast.Try)) else []
                    for c in calls:
                        name = (pyflow.call_name(c) or "").split(".")[-1]
                        if (name == "gen_arg_as_fortran" and any(k.arg == "bindc" and isinstance(k.value, ast.Constant) and k.value.value is True
                                                                  for k in c.keywords)) or name == "bind_c" \
                                or any(isinstance(x, ast.Attribute) and x.attr == "f_c_type" for a_ in c.args for x in ast.walk(a_)):
                            bindc = True
                        elif name == "update_f_module" and len(c.args) == 3 and bindc:
                            n += 1
                            a = ast.unparse(c.args[2])
                            run.check(R, "wrapf.%s:bindc-import" % q, "f_c_module" in a,
                                      "the declaration before it is written with the interoperable spelling (bindc=True / bind_c() / f_c_type) and the import is `%s`: a "
                                      "char member of a bind(C) type is declared character(kind=C_CHAR) and C_CHAR is in f_c_module "
                                      "only - the module does not compile" % a, wf.loc(c))
                            bindc = False
    run.floor(R, "imports that follow a bindc=True declaration", n, 2)



def rule_r24(repo, run, T):
    R = run.rule("C05.R24", "a typemap built for a declared type names the type in one way: the name it is registered under, its "
                            "cxx_type and the type inside `static_cast<...>` of c_to_cxx are the same template expanded with the "
                            "same format dictionary")
    tm = repo.module("typemap")
    n = 0
    for q, fn in sorted(tm.functions().items()):
        vals = {}

        def spelling(v):
            """(template text, dictionary) of wformat(T, d); (source text, None) otherwise"""
            if isinstance(v, ast.Call) and (pyflow.call_name(v) or "").endswith("wformat") and len(v.args) == 2 and pyflow.const_str(v.args[0]):
                return pyflow.const_str(v.args[0]), ast.unparse(v.args[1])
            return ast.unparse(v), None
        for a in ast.walk(fn):
            if isinstance(a, ast.Assign) and len(a.targets) == 1 and isinstance(a.targets[0], ast.Attribute) \
                    and a.targets[0].attr in ("cxx_type", "c_to_cxx"):
                vals.setdefault((ast.unparse(a.targets[0].value), a.targets[0].attr), []).append((spelling(a.value), a))
        for (obj, attr), lst in sorted(vals.items()):
            if attr != "c_to_cxx":
                continue
            for (text, dct), a in lst:
                mo = re.search(r"static_cast<\s*(.+?)\s*[*&]?\s*>\(", text)
                ct = vals.get((obj, "cxx_type"))
                if not mo or not ct or dct is None:
                    continue
                n += 1
                (ctext, cdct), ca = ct[0]
                run.check(R, "typemap.%s:c_to_cxx" % q, mo.group(1) == ctext and cdct == dct,
                          "c_to_cxx casts to `%s` (expanded with %s) and cxx_type is `%s` (%s): for a type declared in a namespace or "
                          "a class one of the two names a type that does not exist and the wrapper does not compile"
                          % (mo.group(1), dct, ctext, cdct or "not a template"), tm.loc(a if mo.group(1) != ctext else ca))
    run.floor(R, "typemap constructors that set cxx_type and a cast to it", n, 1)


def rule_r25(repo, run, T):
    R = run.rule("C05.R25", "classes may refer to each other (an argument of a method of A is a B declared further down): the "
                            "Python fields of every class typemap are filled in a pass of their own before the first class is "
                            "wrapped")
    wp = repo.module("wrapp")
    fn = wp.func("Wrapp.wrap_namespace")
    fills = [a for a in ast.walk(fn) if isinstance(a, ast.Assign) and isinstance(a.targets[0], ast.Attribute)
             and a.targets[0].attr.startswith("PY_") and "typemap" in ast.unparse(a.targets[0].value)]
    wraps = [c for c in ast.walk(fn) if isinstance(c, ast.Call) and (pyflow.call_name(c) or "") == "self.wrap_class"]
    if len(fills) < 3 or not wraps:
        raise AnalysisError("C05.R25: the typemap pass / wrap_class call of Wrapp.wrap_namespace not found")

    def loop_of(node):
        p_ = getattr(node, "_parent", None)
        while p_ is not None and not isinstance(p_, (ast.For, ast.While)):
            p_ = getattr(p_, "_parent", None)
        return p_
    fl = set(id(loop_of(a)) for a in fills)
    wl = set(id(loop_of(c)) for c in wraps)
    run.check(R, "wrapp.Wrapp.wrap_namespace:typemap-pass-first", not (fl & wl) and max(a.lineno for a in fills) < min(c.lineno for c in wraps),
              "the typemap fields (%s, ...) are assigned in the loop that also calls wrap_class: a class that is used by a class "
              "declared before it is still an anonymous object when that one is wrapped - `O` without a type check and a cast "
              "of PyObject* to the class" % fills[0].targets[0].attr, wp.loc(fills[0]))


def run(repo, run, tier):
    tables.check_model_assumptions(repo)
    T = dict(
        fc=tables.StatementTable(repo, "statements", "fc_statements"),
        py=tables.StatementTable(repo, "wrapp", "py_statements"),
        lua=tables.StatementTable(repo, "wrapl", "lua_statements"),
        helpers=tables.build_helper_table(repo),
        types=tables.TypeTable(repo),
    )
    rule_r1(repo, run, T)
    rule_r2(repo, run, T)
    rule_r3(repo, run, T)
    rule_r4(repo, run, T)
    rule_r5(repo, run, T)
    rule_r6(repo, run, T)
    rule_r7(repo, run, T)
    rule_r8(repo, run, T)
    rule_r9(repo, run, T)
    rule_r10(repo, run, T)
    rule_r11(repo, run, T)
    rule_r12(repo, run, T)
    rule_r13(repo, run, T)
    rule_r14(repo, run, T)
    rule_r15(repo, run, T)
    rule_r16(repo, run, T)
    rule_r17(repo, run, T)
    rule_r18(repo, run, T)
    rule_r19(repo, run, T)
    rule_r20(repo, run, T)
    rule_r22(repo, run, T)
    rule_r23(repo, run, T)
    rule_r24(repo, run, T)
    rule_r25(repo, run, T)
    run.assumptions.extend([
        "field universe is an over-approximation (any attribute store / Scope keyword in the emitter's "
        "modules defines the field): a report means no assignment exists at all",
        "Python.h provides <string.h>/<stdlib.h> for helpers that use the Python C API",
    ])
