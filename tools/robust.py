#!/usr/bin/env python3
"""Development aid: behaviour-preserving whole-tree transformations of /repo's
sources (as in-memory overlays) that every check must survive without a new
violation and without ANALYSIS-ERROR:

  unparse   every module re-printed by ast.unparse (layout, quoting, parentheses,
            comments and line numbers all change; string concatenations are folded)
  shift     40 blank lines inserted after the module docstring/imports (line numbers)

usage: tools/robust.py [unparse|shift] [C07 ...]
"""
import ast
import glob
import os
import sys
from multiprocessing import Pool

HERE = os.path.dirname(os.path.dirname(os.path.abspath(__file__)))
sys.path.insert(0, HERE)
sys.dont_write_bytecode = True
from sa.loader import AnalysisError  # noqa: E402
from selftest.harness import _violations  # noqa: E402

REPO = os.environ.get("VERIF_REPO", "/repo")
ALL = ["C%02d" % i for i in range(1, 19)]


def overlay(kind):
    ov = {}
    for path in sorted(glob.glob(os.path.join(REPO, "shroud", "*.py"))):
        rel = os.path.relpath(path, REPO)
        text = open(path).read()
        if kind == "unparse":
            ov[rel] = ast.unparse(ast.parse(text)) + "\n"
        elif kind == "shift":
            lines = text.split("\n")
            k = 0
            for i, l in enumerate(lines):
                if l.startswith(("import ", "from ")):
                    k = i + 1
            ov[rel] = "\n".join(lines[:k] + [""] * 40 + lines[k:])
    return ov


def job(args):
    prop, ov = args
    try:
        got, _ = _violations(prop, REPO, ov)
        return prop, sorted(got), None
    except AnalysisError as e:
        return prop, [], "ANALYSIS-ERROR: %s" % e
    except Exception as e:
        return prop, [], "CRASH: %r" % e


def main(argv):
    kinds = [a for a in argv if a in ("unparse", "shift")] or ["unparse", "shift"]
    props = [a.upper() for a in argv if a.upper() in ALL] or ALL
    with Pool(16) as pool:
        base = {p: set(map(tuple, g)) for p, g, e in pool.map(job, [(p, None) for p in props])}
        for kind in kinds:
            ov = overlay(kind)
            for p, got, err in pool.map(job, [(p, ov) for p in props]):
                new = sorted(set(map(tuple, got)) - base[p])
                gone = sorted(base[p] - set(map(tuple, got)))
                status = "ok" if not new and not err and not gone else "DIFFERS"
                print("%-8s %s %s" % (kind, p, status))
                for r, c in new[:8]:
                    print("      + %s %s" % (r, c))
                for r, c in gone[:4]:
                    print("      - %s %s" % (r, c))
                if err:
                    print("      ! %s" % err)


if __name__ == "__main__":
    main(sys.argv[1:])
