"""C13 - line wrapping never alters code and respects Fortran's line limit."""
import ast
import re

from sa import pyflow
from sa.loader import AnalysisError, enclosing_function

EXPLANATION = (
    "Structural analysis of util.WrapperMixin.write_lines / write_continue: (R1) the directive table "
    "of write_lines (tested position, tested character, slice applied, sink) is extracted from the "
    "if/elif chain; every slice that removes a character removes exactly the position that was tested "
    "against a documented metacharacter, '#' lines are written whole, every arm writes the remaining "
    "text, indentation changes by one only in the +/- arms; (R2) the splitting loop of write_continue "
    "drops only the characters compared against \\t and \\f (and a leading \\r); (R3) conservation on "
    "the acyclic paths of the emission loop (a part is appended to the pending line unless the path "
    "is the form-feed path or the part became empty after a break; the pending line is never "
    "reassigned without being written first; the function ends by writing it); (R4) every in-loop "
    "write concatenates self.cont, Wrapf.cont is ' &' and the C family ''; (R5) default F_line_length "
    "+ len(cont) <= 132 and the break decision compares len(pending)+len(part) with linelen.")
NOT_DECIDED = ("Text preservation and the length bound for all strings, widths and indentation depths as "
               "a functional property of write_continue (universally quantified over run-time values).")

DOCUMENTED = {"#", "@", "^", "+", "-"}


def _find_line_loop(f):
    inner = [n for n in ast.walk(f) if isinstance(n, ast.For) and isinstance(n.iter, ast.Call)
             and isinstance(n.iter.func, ast.Attribute) and n.iter.func.attr == "split"]
    if len(inner) != 1 or not isinstance(inner[0].target, ast.Name):
        raise AnalysisError("C13.R1: per-line loop of write_lines not found")
    return inner[0]


def _index_test(test, var):
    """(index, char) for `var[<index>] == "<char>"`."""
    if isinstance(test, ast.Compare) and len(test.ops) == 1 and isinstance(test.ops[0], ast.Eq):
        l, r = test.left, test.comparators[0]
        if isinstance(l, ast.Subscript) and pyflow.is_name(l.value, var):
            idx = l.slice
            if isinstance(idx, ast.UnaryOp) and isinstance(idx.op, ast.USub) and isinstance(idx.operand, ast.Constant):
                i = -idx.operand.value
            elif isinstance(idx, ast.Constant):
                i = idx.value
            else:
                return None
            c = pyflow.const_str(r)
            if c is not None:
                return (i, c)
    return None


def _slice_of(node, var):
    """(lower, upper) ints/None for var[a:b]."""
    if isinstance(node, ast.Subscript) and pyflow.is_name(node.value, var) and isinstance(node.slice, ast.Slice):
        def val(e):
            if e is None:
                return None
            if isinstance(e, ast.Constant):
                return e.value
            if isinstance(e, ast.UnaryOp) and isinstance(e.op, ast.USub) and isinstance(e.operand, ast.Constant):
                return -e.operand.value
            return "?"
        return (val(node.slice.lower), val(node.slice.upper))
    return None


def rule_r1(repo, run, known_c12=True):
    R = run.rule("C13.R1", "directive table of write_lines: only tested metacharacters are removed, every arm "
                           "writes the remaining text")
    um = repo.module("util")
    f = um.func("WrapperMixin.write_lines")
    loop = _find_line_loop(f)
    var = loop.target.id
    fp = f.args.args[1].arg
    chain = loop.body[0]
    if not isinstance(chain, ast.If):
        raise AnalysisError("C13.R1: write_lines chain not found")
    arms = []
    cur = chain
    while True:
        arms.append((cur.test, cur.body))
        if len(cur.orelse) == 1 and isinstance(cur.orelse[0], ast.If):
            cur = cur.orelse[0]
        else:
            arms.append((None, cur.orelse))
            break
    run.floor(R, "arms of the directive chain", len(arms), 6)
    tested_first = []
    for test, body in arms:
        it = _index_test(test, var) if test is not None else None
        label = "default" if test is None else (um.seg(test))
        construct = "util.WrapperMixin.write_lines[%s]" % label
        loc = um.loc(body[0]) if body else um.loc(chain)
        if test is not None and it is None:
            # len(subline) == 0
            src = um.seg(test)
            ok = "len(" in src and "0" in src
            run.check(R, construct, ok, "unrecognised directive test %r" % src, loc)
        if it is not None:
            run.check(R, construct + ".documented", it[0] == 0 and it[1] in DOCUMENTED,
                      "column-one test for %r is not a documented directive %s" % (it[1], sorted(DOCUMENTED)), loc,
                      sample=dict(position=it[0], char=it[1]))
            tested_first.append(it[1])
        # slices in this arm
        for st in body:
            for node in ast.walk(st):
                sl = _slice_of(node, var)
                if sl is None:
                    continue
                lower, upper = sl
                tests = [(_index_test(t, var), p) for t, p in pyflow.dominating_tests(node, stop=f)]
                tests = [(t, p) for t, p in tests if t is not None and p]
                # while-loop removing leading characters: its test dominates the slice
                for anc_t, pol in pyflow.dominating_tests(node, stop=f):
                    pass
                ok = True
                why = []
                if lower not in (None, 0):
                    if lower != 1 or not any(t[0] == 0 and t[1] in DOCUMENTED for t, p in tests):
                        ok = False
                        why.append("removes %r leading character(s) without a column-one metacharacter test"
                                   % lower)
                if upper is not None:
                    if upper != -1 or not any(t[0] == -1 and t[1] in ("+", "-") for t, p in tests):
                        ok = False
                        why.append("removes trailing character(s) without an end-of-line +/- test")
                run.check(R, construct + ":" + um.seg(node), ok, "; ".join(why), um.loc(node),
                          sample=dict(arm=label, slice=um.seg(node), under=[t for t, p in tests]))
        # sink: every path through the arm writes
        if body:
            ps = pyflow.paths(body)
            for p in ps:
                wrote = False
                for st in p.stmts:
                    for c in pyflow.header_calls(st) if isinstance(st, (ast.If, ast.While, ast.For)) else pyflow.calls_in(st):
                        d = pyflow.call_name(c) or ""
                        if d == fp + ".write" or d.endswith("write_continue"):
                            wrote = True
                run.check(R, construct + ".sink", wrote, "a path through this arm writes nothing", loc)
        # '#' arm writes the line whole
        if it is not None and it[1] == "#":
            whole = any(isinstance(c, ast.Call) and (pyflow.call_name(c) or "") == fp + ".write"
                        and c.args and pyflow.is_name(c.args[0], var) for st in body for c in ast.walk(st))
            run.check(R, construct + ".whole", whole, "preprocessor lines must be written unchanged", loc)
        # indentation changes
        for st in body:
            for node in ast.walk(st):
                if isinstance(node, ast.AugAssign) and (pyflow.dotted(node.target) or "") == "self.indent":
                    one = isinstance(node.value, ast.Constant) and node.value.value == 1
                    in_pm = (it is not None and it[1] in "+-") or test is None
                    run.check(R, construct + ".indent@%d" % (node.lineno - f.lineno),
                              one and in_pm,
                              "indentation changed by %s outside the +/- directives" % um.seg(node.value),
                              um.loc(node))
    run.check(R, "util.WrapperMixin.write_lines.directives", set(tested_first) == (DOCUMENTED - {"-"}) or
              set(tested_first) == DOCUMENTED,
              "column-one directives handled %s differ from the documented set %s"
              % (sorted(tested_first), sorted(DOCUMENTED)), um.loc(chain),
              sample=dict(directives=sorted(tested_first)))
    # int items change indent by their value only
    outer_test = [n for n in f.body if isinstance(n, ast.For)][0].body[0]
    if isinstance(outer_test, ast.If):
        src = um.seg(outer_test.test)
        run.check(R, "util.WrapperMixin.write_lines.int-items", "isinstance" in src and "int" in src,
                  "integer items must be recognised by isinstance(line, int)", um.loc(outer_test))


def rule_r2(repo, run):
    R = run.rule("C13.R2", "write_continue drops only the break-hint characters \\t \\f (and a leading \\r)")
    um = repo.module("util")
    f = um.func("WrapperMixin.write_continue")
    line = f.args.args[2].arg
    loops = [n for n in f.body if isinstance(n, ast.For)]
    if len(loops) < 2:
        raise AnalysisError("C13.R2: write_continue loops not found")
    split = loops[0]
    ch = split.target.id
    compared = []
    for node in ast.walk(split):
        if isinstance(node, ast.Compare) and pyflow.is_name(node.left, ch):
            c = pyflow.const_str(node.comparators[0])
            compared.append(c)
    run.check(R, "util.WrapperMixin.write_continue.hints", sorted(compared) == ["\t", "\f"],
              "characters treated as break hints are %r, documented are tab and form feed" % compared,
              um.loc(split), sample=dict(hint_chars=compared))
    # the else arm accumulates the character
    cur = split.body[0]
    while isinstance(cur, ast.If) and len(cur.orelse) == 1 and isinstance(cur.orelse[0], ast.If):
        cur = cur.orelse[0]
    default = cur.orelse if isinstance(cur, ast.If) else []
    acc = [n for st in default for n in ast.walk(st) if isinstance(n, ast.AugAssign)
           and isinstance(n.op, ast.Add) and pyflow.is_name(n.value, ch)]
    run.check(R, "util.WrapperMixin.write_continue.accumulate", len(acc) == 1 and len(default) == 1,
              "every non-hint character must be appended to the current part", um.loc(split))
    partvar = acc[0].target.id if acc else "part"
    # every completed part is appended; after the loop the last part too
    apps = [n for n in ast.walk(split) if isinstance(n, ast.Call) and (pyflow.call_name(n) or "").endswith(".append")
            and n.args and pyflow.is_name(n.args[0], partvar)]
    run.check(R, "util.WrapperMixin.write_continue.parts", len(apps) == 2,
              "both hint arms must push the pending part", um.loc(split))
    idx = [i for i, s in enumerate(f.body) if s is split][0]
    tail = f.body[idx + 1]
    ok = isinstance(tail, ast.If) and pyflow.is_name(tail.test, partvar) and any(
        isinstance(n, ast.Call) and (pyflow.call_name(n) or "").endswith(".append") for n in ast.walk(tail))
    run.check(R, "util.WrapperMixin.write_continue.last-part", ok,
              "the part after the last hint must be kept", um.loc(tail))
    # leading \r
    rt = [n for n in ast.walk(f) if isinstance(n, ast.Compare) and pyflow.const_str(n.comparators[0]) == "\r"]
    ok = len(rt) == 1 and _index_test(rt[0], line) == (0, "\r")
    run.check(R, "util.WrapperMixin.write_continue.cr", ok, "\\r must only be recognised at index 0", um.loc(f))
    if ok:
        parent_if = rt[0]._parent
        sl = [_slice_of(n, line) for n in ast.walk(parent_if) if _slice_of(n, line)]
        run.check(R, "util.WrapperMixin.write_continue.cr-slice", sl == [(1, None)],
                  "the \\r branch must remove exactly the first character", um.loc(parent_if))


def _short(t):
    return re.sub(r"\s+", " ", t)[:60]


def rule_r3_r4(repo, run):
    R3 = run.rule("C13.R3", "conservation on the paths of the emission loop")
    R4 = run.rule("C13.R4", "every broken line carries the continuation marker")
    um = repo.module("util")
    f = um.func("WrapperMixin.write_continue")
    fp = f.args.args[1].arg
    loops = [n for n in f.body if isinstance(n, ast.For)]
    emit = loops[-1]
    part = emit.target.id
    # pending line variable: the one written by the final fp.write of the function
    last = f.body[-1]
    lw = [c for c in pyflow.calls_in(last) if (pyflow.call_name(c) or "") == fp + ".write"]
    if not lw:
        run.check(R3, "util.WrapperMixin.write_continue.final-write", False,
                  "function must end by writing the pending line", um.loc(last))
        return
    names = [n.id for n in ast.walk(lw[0].args[0]) if isinstance(n, ast.Name)]
    pending = names[0]
    run.check(R3, "util.WrapperMixin.write_continue.final-write", True, "", sample=dict(pending=pending))
    run.check(R4, "util.WrapperMixin.write_continue.final-no-cont", "cont" not in um.seg(lw[0].args[0]),
              "the last physical line must not carry a continuation marker", um.loc(lw[0]))
    ps = [p for p in pyflow.paths(emit.body) if pyflow.feasible_flags(p)]
    run.floor(R3, "feasible paths through the emission loop body", len(ps), 5)
    for i, p in enumerate(ps):
        appended = False
        wrote_before_reset = True
        written = False
        ff_path = False
        empty_after_strip = False
        for test, pol in p.conds:
            src = um.seg(test)
            if pyflow.const_str(getattr(test, "comparators", [None])[0]) == "\f" and pol:
                ff_path = True
            if (src.replace(" ", "") in ("not%s" % part,) and pol) or (src.strip() == part and not pol):
                empty_after_strip = True
        for st in p.stmts:
            if isinstance(st, ast.AugAssign) and pyflow.is_name(st.target, pending) and pyflow.is_name(st.value, part):
                appended = True
            for c in (pyflow.calls_in(st) if not isinstance(st, (ast.If, ast.For, ast.While)) else []):
                if (pyflow.call_name(c) or "") == fp + ".write":
                    written = True
                    src = um.seg(c.args[0])
                    run.check(R4, "util.WrapperMixin.write_continue.cont@path%d" % i,
                              "self.cont" in src and pending in src,
                              "in-loop write %r does not append the continuation marker to the pending line"
                              % src, um.loc(c))
            if isinstance(st, ast.Assign) and any(pyflow.is_name(t, pending) for t in st.targets):
                if not written:
                    wrote_before_reset = False
        skipped = p.end == "continue"
        cond_desc = [("%s=%s" % (um.seg(t), pol)) for t, pol in p.conds]
        if skipped:
            # `if not part: continue` : nothing to conserve
            run.check(R3, "util.WrapperMixin.write_continue.path%d" % i,
                      any((um.seg(t).replace(" ", "") == "not%s" % part and pol) or (um.seg(t).strip() == part and not pol)
                          for t, pol in p.conds),
                      "a part is skipped on a path other than the empty-part path: %s" % cond_desc, um.loc(emit))
            continue
        run.check(R3, "util.WrapperMixin.write_continue.path%d" % i,
                  appended or ff_path or empty_after_strip,
                  "a non-empty part is dropped on the path %s" % cond_desc, um.loc(emit),
                  sample=dict(path=cond_desc, appended=appended))
        run.check(R3, "util.WrapperMixin.write_continue.path%d.write-before-reset" % i, wrote_before_reset,
                  "the pending line is reassigned without having been written on the path %s" % cond_desc,
                  um.loc(emit))
    # lstrip only after a break
    for node in ast.walk(emit):
        if isinstance(node, ast.Call) and isinstance(node.func, ast.Attribute) and node.func.attr in ("lstrip", "strip", "rstrip"):
            tests = [um.seg(t) for t, p in pyflow.dominating_tests(node, stop=f) if p]
            run.check(R3, "util.WrapperMixin.write_continue.%s" % node.func.attr,
                      node.func.attr == "lstrip" and any("dump" in t for t in tests),
                      "whitespace is stripped from a part outside the line-break branch (%s)" % tests, um.loc(node))
    # the only change ever made to a part is dropping the blanks that would start a continuation line
    for node in ast.walk(emit):
        if isinstance(node, (ast.Assign, ast.AugAssign)):
            tg = node.targets if isinstance(node, ast.Assign) else [node.target]
            if any(pyflow.is_name(t, part) for t in tg):
                v = node.value
                ok = isinstance(node, ast.Assign) and isinstance(v, ast.Call) and isinstance(v.func, ast.Attribute) \
                    and v.func.attr == "lstrip" and pyflow.is_name(v.func.value, part) and not v.args
                run.check(R3, "util.WrapperMixin.write_continue.part-altered:%s" % _short(um.seg(node)), ok,
                          "the text of a part is changed by `%s`; only `%s = %s.lstrip()` after a break keeps every "
                          "non-blank character" % (um.seg(node), part, part), um.loc(node))
    # stand-alone writers (--write-helpers): a writer fed from the Fortran helper table continues with `&`, the C one with ''
    wh = repo.module("whelpers")
    nw = 0
    for q, fn in sorted(wh.functions().items()):
        mk = [a for a in ast.walk(fn) if isinstance(a, ast.Assign) and isinstance(a.value, ast.Call)
              and (pyflow.call_name(a.value) or "").endswith("WrapperMixin")]
        if not mk:
            continue
        w = mk[0].targets[0].id
        src = str(wh.seg(fn))
        fortran = "FHelpers" in src
        conts = [pyflow.const_str(a.value) for a in ast.walk(fn) if isinstance(a, ast.Assign)
                 and (pyflow.dotted(a.targets[0]) or "") == w + ".cont"]
        nw += 1
        run.check(R4, "whelpers.%s:cont" % q, len(conts) == 1 and (("&" in (conts[0] or "")) == fortran),
                  "the writer of %s helpers continues a broken line with %r: a Fortran line that is wrapped without `&` is two "
                  "statements, a C line wrapped with `&` does not compile" % ("Fortran" if fortran else "C", conts), wh.loc(fn))
    if nw < 2:
        raise AnalysisError("C13.R4: stand-alone helper writers not found")
    # cont attributes
    for mname, cname, want in (("wrapf", "Wrapf", " &"), ("wrapc", "Wrapc", ""), ("wrapp", "Wrapp", ""),
                               ("wrapl", "Wrapl", "")):
        m = repo.module(mname)
        init = m.func(cname + ".__init__")
        val = None
        for node in ast.walk(init):
            if isinstance(node, ast.Assign) and any((pyflow.dotted(t) or "") == "self.cont" for t in node.targets):
                val = pyflow.const_str(node.value)
        run.check(R4, "%s.%s.cont" % (mname, cname), val == want,
                  "continuation marker is %r, expected %r" % (val, want), m.loc(init),
                  sample=dict(cls=cname, cont=val))


def rule_r5(repo, run):
    R = run.rule("C13.R5", "line-length limits: defaults fit Fortran's 132 columns; the break decision uses "
                           "len(pending)+len(part) > linelen")
    am = repo.module("ast")
    f = am.func("LibraryNode.default_options")
    vals = {}
    for node in ast.walk(f):
        if isinstance(node, ast.Call) and (pyflow.call_name(node) or "").split(".")[-1] == "Scope":
            for k in node.keywords:
                if k.arg in ("C_line_length", "F_line_length"):
                    vals[k.arg] = k.value.value if isinstance(k.value, ast.Constant) else None
    for k in ("C_line_length", "F_line_length"):
        run.check(R, "ast.LibraryNode.default_options.%s" % k, isinstance(vals.get(k), int) and vals[k] > 0,
                  "%s default is %r (must be a positive integer literal)" % (k, vals.get(k)), am.loc(f),
                  sample={k: vals.get(k)})
    wf = repo.module("wrapf")
    init = wf.func("Wrapf.__init__")
    cont = None
    for node in ast.walk(init):
        if isinstance(node, ast.Assign) and any((pyflow.dotted(t) or "") == "self.cont" for t in node.targets):
            cont = pyflow.const_str(node.value)
    if isinstance(vals.get("F_line_length"), int) and cont is not None:
        run.check(R, "F_line_length+cont<=132", vals["F_line_length"] + len(cont) <= 132,
                  "default F_line_length %d plus continuation marker %r exceeds 132 columns"
                  % (vals["F_line_length"], cont), am.loc(f))
    # each emitter takes its limit from the option of its own language family
    for mname, cname, want in (("wrapf", "Wrapf", "F_line_length"), ("wrapc", "Wrapc", "C_line_length"),
                               ("wrapp", "Wrapp", "C_line_length"), ("wrapl", "Wrapl", "C_line_length")):
        m = repo.module(mname)
        ini = m.func(cname + ".__init__")
        src = [n.value for n in ast.walk(ini) if isinstance(n, ast.Assign)
               and any((pyflow.dotted(t) or "") == "self.linelen" for t in n.targets)]
        opts = sorted(set(x.attr for v in src for x in ast.walk(v) if isinstance(x, ast.Attribute)
                          and x.attr.endswith("_line_length")))
        run.check(R, "%s.%s.linelen" % (mname, cname), len(src) == 1 and opts == [want],
                  "%s.linelen must be read from options.%s (found %s)" % (cname, want, [m.seg(v) for v in src]),
                  m.loc(ini), sample=dict(emitter=cname, option=opts))
    um = repo.module("util")
    wc = um.func("WrapperMixin.write_continue")
    cmps = [n for n in ast.walk(wc) if isinstance(n, ast.Compare) and isinstance(n.ops[0], ast.Gt)
            and "linelen" in um.seg(n)]
    ok = False
    for c in cmps:
        src = um.seg(c.left).replace(" ", "")
        if src.count("len(") == 2 and "+" in src and pyflow.is_name(c.comparators[0], "linelen"):
            ok = True
    run.check(R, "util.WrapperMixin.write_continue.break-decision", ok,
              "the break decision must compare len(pending) + len(part) with linelen", um.loc(wc),
              sample=dict(tests=[um.seg(c) for c in cmps]))
    ll = [n for n in ast.walk(wc) if isinstance(n, ast.Assign) and pyflow.is_name(n.targets[0], "linelen")]
    run.check(R, "util.WrapperMixin.write_continue.linelen-source",
              len(ll) == 1 and (pyflow.dotted(ll[0].value) or "") == "self.linelen",
              "linelen must come from self.linelen", um.loc(wc))


# Longest text a format field can expand to for identifiers of ordinary length (<= 63 characters, the Fortran
# limit, as the property states).  NAME = a user identifier; generated names add a fixed prefix/suffix.
NAME = 63
RESULT_NAME = 6         # SHT_rv
FIELD_BOUND = {
    "f_var": NAME, "c_var": NAME + 3, "c_var_context": NAME + 1, "c_var_capsule": NAME + 1, "F_pointer": NAME + 6,
    "c_var_len": NAME + 1, "c_var_trim": NAME + 1, "c_var_size": NAME + 1, "f_shape_var": NAME + 6,
    "hnamefunc0": 40, "hnamefunc1": 40, "f_type": 26, "f_intent": 5, "f_assumed_shape": 15, "f_c_dimension": 3,
    "f_kind": 20, "F_capsule_type": 30, "F_array_type": 30, "F_result": RESULT_NAME, "F_derived_member": 6,
    "rank": 1, "F_capsule_data_type": 30,
}
# fields whose text is itself assembled with break hints (argument lists, shapes built from user expressions)
SELF_BREAKING = {"F_arg_c_call", "F_C_call", "f_array_shape", "f_array_allocate", "f_declare_shape_array",
                 "f_pointer_shape", "f_get_shape_array", "c_var_dimension", "F_C_arguments", "F_arguments",
                 "f_declare_shape_prefix"}
BODY_INDENT = 8


def rule_r6(repo, run):
    R = run.rule("C13.R6", "every piece of a Fortran statement template between two break hints fits in 132 columns "
                           "for identifiers of up to 63 characters")
    from sa import tables
    table = tables.StatementTable(repo, "statements", "fc_statements")
    n = 0
    for name, e in sorted(table.resolve_all("c++").items()):
        if not name.startswith("f_"):
            continue
        is_result = "result" in name.split("_")
        for clause in ("declare", "pre_call", "call", "post_call", "arg_decl"):
            for s_ in e.lines(clause):
                for line in s_.split("\n"):
                    if not line.strip():
                        continue
                    worst, wseg = 0, ""
                    unknown = []
                    for seg in re.split(r"[\t\f]", line):
                        text = re.sub(r"^[-+#^@]+", "", seg)
                        fields = re.findall(r"\{(\w+)\}", text)
                        if any(f in SELF_BREAKING for f in fields):
                            # the field brings break hints of its own; what stands in front of it in the same piece
                            # still has to fit (the field is taken to be breakable from its first character on)
                            text = re.split(r"\{(?:%s)\}" % "|".join(sorted(SELF_BREAKING)), text)[0]
                            fields = re.findall(r"\{(\w+)\}", text)
                        size = len(re.sub(r"\{\w+\}", "", text).replace("{{", "{").replace("}}", "}"))
                        for f in fields:
                            b = FIELD_BOUND.get(f)
                            if b is None:
                                unknown.append(f)
                                b = 20
                            if is_result and f in ("f_var", "c_var", "c_var_context", "c_var_capsule", "F_pointer"):
                                b = b - NAME + RESULT_NAME
                            size += b
                        if size > worst:
                            worst, wseg = size, seg
                    n += 1
                    for f in sorted(set(unknown)):
                        run.unmodelled_site(R, "statements.fc_statements[%s].%s" % (name, clause),
                                            "no length bound for field {%s}; 20 assumed" % f)
                    run.check(R, "statements.fc_statements[%s].%s:%s" % (name, clause, re.sub(r"\s+", " ", line.strip())[:40]),
                              BODY_INDENT + worst + 2 <= 132,
                              "the piece %r can reach %d columns (indent %d + text + continuation) with 63-character "
                              "names and has no break hint (\\t) inside: gfortran rejects the line as truncated"
                              % (wseg.strip()[:60], BODY_INDENT + worst + 2, BODY_INDENT), table.loc(e.raw),
                              sample=dict(entry=name, clause=clause, piece=wseg.strip()[:80], bound=BODY_INDENT + worst + 2))
    run.floor(R, "Fortran statement template lines", n, 90)


def rule_r7(repo, run):
    R = run.rule("C13.R7", "a template line whose code begins with a layout metacharacter is marked literal with @")
    n = 0
    for mn in ("wrapc", "wrapf", "wrapp", "wrapl", "statements", "whelpers", "util", "typemap"):
        m = repo.module(mn)
        for node in ast.walk(m.tree):
            if isinstance(node, ast.Constant) and isinstance(node.value, str) and ("--" in node.value or "++" in node.value):
                for line in node.value.split("\n"):
                    mm = re.match(r"^(@?)(--|\+\+)\s*[A-Za-z_(\[{*]", line)
                    if not mm:
                        continue
                    code_like = ";" in line or "->" in line or re.search(r"[=()]", line) is not None
                    if not code_like:
                        continue            # e.g. the placeholder names '--none--'
                    n += 1
                    run.check(R, "%s:%s" % (mn, re.sub(r"\s+", " ", line.strip())[:40]), mm.group(1) == "@",
                              "the line `%s` starts with the C operator %s, which write_lines reads as two indentation "
                              "directives and deletes: the statement loses its operator. Prefix the line with @"
                              % (line.strip()[:50], mm.group(2)), m.loc(node), sample=dict(line=line.strip()[:60]))
    if n < 1:
        raise AnalysisError("C13.R7: the literal-line example (`@--cap->refcount;`) was not found; rule would be vacuous")
    # YAML list items start with "- ": emitted through write_lines they need the literal marker as well
    for mn in ("main", "util", "ast", "typemap"):
        m = repo.module(mn)
        for c in ast.walk(m.tree):
            if isinstance(c, ast.Call) and isinstance(c.func, ast.Attribute) and c.func.attr == "append" and c.args:
                lead = None
                for x in ast.walk(c.args[0]):
                    if isinstance(x, ast.Constant) and isinstance(x.value, str):
                        lead = x.value
                        break
                if lead is not None and re.match(r"^@?- [\w{]", lead):
                    n += 1
                    run.check(R, "%s:%s" % (mn, lead.strip()[:30]), lead.startswith("@"),
                              "the line `%s...` starts with `- ` (a YAML list item); write_lines takes the `-` for a de-indent "
                              "directive and deletes it unless the line is marked literal with @" % lead[:20], m.loc(c))
    # the double-indent directive \r is only recognised as the first character of a line
    ncr = 0
    for mn in ("wrapc", "wrapf", "wrapp", "wrapl", "statements", "whelpers"):
        m = repo.module(mn)
        for node in ast.walk(m.tree):
            if isinstance(node, ast.Constant) and isinstance(node.value, str) and "\r" in node.value:
                for line in node.value.split("\n"):
                    if "\r" in line:
                        ncr += 1
                        run.check(R, "%s:cr@%s" % (mn, re.sub(r"\s+", " ", line.replace("\r", "<CR>"))[:40]), line.index("\r") == 0 and line.count("\r") == 1,
                                  "a \\r directive stands in the middle of a template line: write_continue only removes it at "
                                  "index 0, elsewhere a raw carriage return is written into the generated file", m.loc(node))
    if ncr < 1:
        raise AnalysisError("C13.R7: no \\r directive found in the templates; rule would be vacuous")
    # `use m, only : a, b, ...` and `import :: a, b, ...` grow with the number of kinds a procedure uses: joined with a hint too
    nu = 0
    for q, fn in sorted(repo.module("wrapf").functions().items()):
        wfm = repo.module("wrapf")
        for e in ast.walk(fn):
            if not isinstance(e, ast.BinOp):
                continue
            lead = None
            if isinstance(e.op, ast.Mod) and isinstance(e.left, ast.Constant) and isinstance(e.left.value, str):
                lead = e.left.value
            elif isinstance(e.op, ast.Add) and isinstance(e.left, ast.Constant) and isinstance(e.left.value, str):
                lead = e.left.value
            if lead is None or not re.search(r"only\s*:|import\s*::", lead):
                continue
            for j in ast.walk(e.right):
                if isinstance(j, ast.Call) and isinstance(j.func, ast.Attribute) and j.func.attr == "join" \
                        and isinstance(j.func.value, ast.Constant) and "," in str(j.func.value.value):
                    nu += 1
                    run.check(R, "wrapf.%s:join@%s" % (q, lead.strip()[:20]), "\t" in j.func.value.value,
                              "the name list after `%s` is joined with %r: a procedure that uses a dozen kinds gets a line of "
                              "150 columns that cannot be continued (gfortran: line truncated)" % (lead.strip(), j.func.value.value),
                              wfm.loc(j))
    if nu < 3:
        raise AnalysisError("C13.R7: use/import name lists not found in wrapf (%d)" % nu)
    # a procedure header `subroutine NAME(args) bind(C, name="CNAME")` holds two generated names (prefixes are the user's):
    # the bind clause stands behind a break hint or on a line of its own
    nb = 0
    for mn in ("wrapf", "whelpers", "statements"):
        m = repo.module(mn)
        for node in ast.walk(m.tree):
            if isinstance(node, ast.Constant) and isinstance(node.value, str) and "bind(C" in node.value:
                for line in node.value.split("\n"):
                    mm_ = re.search(r"\b(subroutine|function)\b[^\n]*?bind\(C", line)
                    if not mm_ or line.lstrip().startswith(("!", "//", "end ")):
                        continue
                    nb += 1
                    head = line[:line.index("bind(C")]
                    run.check(R, "%s:bind-clause@%s" % (mn, re.sub(r"\s+", " ", line.strip())[:40]), head.rstrip(" ").endswith("\t")
                              or "\t" in head[head.rfind(")"):],
                              "the header `%s` has no break hint in front of `bind(C, ...)`: with a long C_prefix the line exceeds "
                              "132 columns and cannot be continued" % line.strip()[:60], m.loc(node))
    if nb < 2:
        raise AnalysisError("C13.R7: procedure headers with a bind(C) clause not found (%d)" % nb)
    # comma lists of dummy arguments are joined with a break hint
    wf = repo.module("wrapf")
    nj = 0
    for q, fn in sorted(wf.functions().items()):
        for j in ast.walk(fn):
            if isinstance(j, ast.Call) and isinstance(j.func, ast.Attribute) and j.func.attr == "join" and \
                    isinstance(j.func.value, ast.Constant) and isinstance(j.func.value.value, str) and "," in j.func.value.value \
                    and j.args and isinstance(j.args[0], ast.Name) and re.search(r"arg_\w*names|arg_c_call", j.args[0].id):
                nj += 1
                run.check(R, "wrapf.%s:join(%s)" % (q, j.args[0].id), "\t" in j.func.value.value,
                          "the argument list `%s` is joined with %r: without a \\t break hint the statement cannot be "
                          "continued and exceeds 132 columns for long argument lists" % (j.args[0].id, j.func.value.value),
                          wf.loc(j))
    run.floor(R, "joined argument lists in wrapf", nj, 4)
    # a list with one name per overload / specific (generic interfaces, type-bound generics) is unbounded as well
    for q, fn in sorted(wf.functions().items()):
        for j in ast.walk(fn):
            if isinstance(j, ast.Call) and isinstance(j.func, ast.Attribute) and j.func.attr == "join" and \
                    isinstance(j.func.value, ast.Constant) and isinstance(j.func.value.value, str) and "," in j.func.value.value \
                    and j.args and isinstance(j.args[0], (ast.ListComp, ast.GeneratorExp)) and \
                    re.search(r"fmtdict\.|F_name|\.name\b", ast.unparse(j.args[0].elt)):
                run.check(R, "wrapf.%s:join(%s)" % (q, re.sub(r"\s+", "", ast.unparse(j.args[0]))[:40]), "\t" in j.func.value.value,
                          "one name per overload is joined with %r into a single statement without a \\t break hint: six specifics of "
                          "thirty characters exceed 132 columns and the line cannot be continued" % j.func.value.value, wf.loc(j))
    # leading blanks of user splicer lines are kept (they shield a leading - + @ ^ from the layout interpreter)
    from checks import c12
    from sa.report import import_rules
    import_rules(run, R, c12, repo, {"C12.R4"}, only=lambda c: c == "reader.store")
    # a tab or a leading / trailing directive character in the *user's* code is text, not layout: every way user code
    # enters the output goes through the filter that turns tabs into blanks and marks the line literal (C12.R6)
    import_rules(run, R, c12, repo, {"C12.R6"}, only=lambda c: "user-code" in c or "write_lines:default" in c or c.endswith(":verbatim"))
    # the line lengths are options: a length given on the command line is the one that is used (C14.R5)
    from checks import c14
    import_rules(run, R, c14, repo, {"C14.R5"}, only=lambda c: c.endswith(":command-line-wins") or c.endswith(":int-options"))
    # statements that list one name per overload must be breakable
    wf = repo.module("wrapf")
    wcl = wf.func("Wrapf.wrap_class")
    gens = [c for c in ast.walk(wcl) if isinstance(c, ast.Call) and isinstance(c.func, ast.Attribute) and c.func.attr == "append"
            and c.args and any(isinstance(x, ast.Constant) and isinstance(x.value, str) and "generic ::" in x.value
                               for x in ast.walk(c.args[0]))]
    lists = [a for a in ast.walk(wcl) if isinstance(a, ast.Assign) and isinstance(a.value, ast.List)
             and any(isinstance(e, ast.Constant) and isinstance(e.value, str) and "generic ::" in e.value for e in a.value.elts)]
    joined = [c for c in ast.walk(wcl) if isinstance(c, ast.Call) and isinstance(c.func, ast.Attribute) and c.func.attr == "join"
              and isinstance(c.func.value, ast.Constant) and c.args and isinstance(c.args[0], ast.Name)
              and c.args[0].id in [a.targets[0].id for a in lists if isinstance(a.targets[0], ast.Name)]]
    gens = [c for c in gens if any(isinstance(j, ast.Call) and isinstance(j.func, ast.Attribute) and j.func.attr == "join"
                                    and isinstance(j.func.value, ast.Constant) and "\t" not in str(j.func.value.value)
                                    for j in ast.walk(c.args[0]))]
    ok = not gens and len(lists) == 1 and len(joined) == 1 and "\t" in joined[0].func.value.value
    run.check(R, "wrapf.Wrapf.wrap_class:generic-list-breakable", ok,
              "the type-bound `generic :: name => a, b, ...` statement lists one specific per overload and must be "
              "assembled from parts joined with break hints (\\t); as one string it cannot be continued and exceeds 132 "
              "columns for a handful of overloads", wf.loc(wcl))
    # the parameter line of an enumerator: name and value are as long as the user's identifiers (the value can be an
    # expression of other enumerators): it must be continuable
    for q, fn in sorted(wf.functions().items()):
        for c in ast.walk(fn):
            if isinstance(c, ast.Constant) and isinstance(c.value, str) and "parameter ::" in c.value and "{" in c.value:
                hints = c.value.count("\t")
                run.check(R, "wrapf.%s:parameter-line" % q, hints >= 1,
                          "`%s` has no \\t break hint: an enumerator whose value is an expression of other enumerators gives a line "
                          "of more than 132 columns that cannot be continued" % c.value, wf.loc(c))


def run(repo, run, tier):
    rule_r1(repo, run)
    rule_r2(repo, run)
    rule_r3_r4(repo, run)
    rule_r5(repo, run)
    rule_r6(repo, run)
    rule_r7(repo, run)
