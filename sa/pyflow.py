"""Syntax-directed flow helpers over Python function bodies.

specialize(body, var, value)  statements executed when `var == value`
                              (if/elif chains on a string variable)
keys_compared(body, var)      constants `var` is compared against
paths(body)                   acyclic path enumeration with conditions
dominating_tests(node)        the (test, polarity) stack guarding a node
effects / receivers           classification of mutation calls
"""
import ast

from .loader import parent_chain


# --------------------------------------------------------------------------
# basic predicates
# --------------------------------------------------------------------------

def is_name(node, name):
    return isinstance(node, ast.Name) and node.id == name


def const_str(node):
    if isinstance(node, ast.Constant) and isinstance(node.value, str):
        return node.value
    return None


def table_fields(tree):
    """(key, value node) of every `dict(key=value, ...)` call and `{"key": value, ...}` literal below tree: the two
    spellings of a table entry"""
    for n in ast.walk(tree):
        if isinstance(n, ast.Call) and isinstance(n.func, (ast.Name, ast.Attribute)):
            for k in n.keywords:
                if k.arg:
                    yield k.arg, k.value
        elif isinstance(n, ast.Dict):
            for k, v in zip(n.keys, n.values):
                if isinstance(k, ast.Constant) and isinstance(k.value, str):
                    yield k.value, v


def dotted(node):
    """a.b.c -> 'a.b.c' (Name/Attribute chains only) else None."""
    parts = []
    while isinstance(node, ast.Attribute):
        parts.append(node.attr)
        node = node.value
    if isinstance(node, ast.Name):
        parts.append(node.id)
        return ".".join(reversed(parts))
    return None


def call_name(call):
    """Dotted name of the callee of a Call node or None."""
    if not isinstance(call, ast.Call):
        return None
    return dotted(call.func)


def static_test(test, var, value):
    """Evaluate `test` under the assumption var == value.
    Returns True / False / None (unknown)."""
    if isinstance(test, ast.Compare) and len(test.ops) == 1:
        l, op, r = test.left, test.ops[0], test.comparators[0]
        if is_name(l, var):
            c = const_str(r)
            if c is not None:
                if isinstance(op, ast.Eq):
                    return value == c
                if isinstance(op, ast.NotEq):
                    return value != c
            if isinstance(r, (ast.List, ast.Tuple, ast.Set)):
                vals = [const_str(e) for e in r.elts]
                if all(v is not None for v in vals):
                    if isinstance(op, ast.In):
                        return value in vals
                    if isinstance(op, ast.NotIn):
                        return value not in vals
    if isinstance(test, ast.BoolOp):
        vals = [static_test(v, var, value) for v in test.values]
        if isinstance(test.op, ast.And):
            if any(v is False for v in vals):
                return False
            if all(v is True for v in vals):
                return True
        else:
            if any(v is True for v in vals):
                return True
            if all(v is False for v in vals):
                return False
    if isinstance(test, ast.UnaryOp) and isinstance(test.op, ast.Not):
        v = static_test(test.operand, var, value)
        if v is not None:
            return not v
    return None


def keys_compared(body, var):
    """All string constants `var` is compared to (==, !=, in [...])."""
    out = []
    for st in body:
        for node in ast.walk(st):
            if isinstance(node, ast.Compare) and is_name(node.left, var):
                for c in node.comparators:
                    s = const_str(c)
                    if s is not None:
                        out.append(s)
                    elif isinstance(c, (ast.List, ast.Tuple, ast.Set)):
                        for e in c.elts:
                            s = const_str(e)
                            if s is not None:
                                out.append(s)
    seen = []
    for k in out:
        if k not in seen:
            seen.append(k)
    return seen


class Spec(object):
    """Result of specialize(): flat list of (stmt, conditional) in order and
    how the walk ended: 'continue' | 'raise' | 'return' | 'fall' | 'break'."""

    def __init__(self):
        self.stmts = []
        self.end = "fall"
        self.end_node = None


def specialize(body, var, value, _spec=None, _cond=False):
    """Statements executed for var == value.  If tests that do not depend on
    `var` are descended with conditional=True (both arms)."""
    spec = _spec or Spec()
    for st in body:
        if isinstance(st, ast.If):
            t = static_test(st.test, var, value)
            if t is True:
                specialize(st.body, var, value, spec, _cond)
                if spec.end != "fall" and not _cond:
                    return spec
            elif t is False:
                specialize(st.orelse, var, value, spec, _cond)
                if spec.end != "fall" and not _cond:
                    return spec
            else:
                spec.stmts.append((st, _cond, "test"))
                sub1 = Spec()
                specialize(st.body, var, value, sub1, True)
                sub2 = Spec()
                specialize(st.orelse, var, value, sub2, True)
                if sub1.end != "fall" and sub2.end == "fall":
                    # the then-arm always leaves: the else-arm is the continuation
                    spec.stmts.extend(sub1.stmts)
                    specialize(st.orelse, var, value, spec, _cond)
                    if spec.end != "fall":
                        return spec
                elif sub2.end != "fall" and sub1.end == "fall" and st.orelse:
                    spec.stmts.extend(sub2.stmts)
                    specialize(st.body, var, value, spec, _cond)
                    if spec.end != "fall":
                        return spec
                else:
                    spec.stmts.extend(sub1.stmts)
                    spec.stmts.extend(sub2.stmts)
                    if sub1.end != "fall" and sub2.end != "fall":
                        spec.end = sub1.end
                        spec.end_node = sub1.end_node
                        return spec
            continue
        spec.stmts.append((st, _cond, "stmt"))
        if isinstance(st, ast.Continue):
            spec.end, spec.end_node = "continue", st
        elif isinstance(st, ast.Raise):
            spec.end, spec.end_node = "raise", st
        elif isinstance(st, ast.Return):
            spec.end, spec.end_node = "return", st
        elif isinstance(st, ast.Break):
            spec.end, spec.end_node = "break", st
        if spec.end != "fall":
            if not _cond:
                return spec
            return spec
        if isinstance(st, (ast.For, ast.While)):
            sub = Spec()
            specialize(st.body, var, value, sub, True)
            spec.stmts.extend(sub.stmts)
        elif isinstance(st, ast.With):
            specialize(st.body, var, value, spec, _cond)
        elif isinstance(st, ast.Try):
            sub = Spec()
            specialize(st.body, var, value, sub, True)
            spec.stmts.extend(sub.stmts)
    return spec


def find_loop_over(func, var):
    """The `for var in ...:` loops of a function."""
    out = []
    for node in ast.walk(func):
        if isinstance(node, ast.For) and is_name(node.target, var):
            out.append(node)
    return out


# --------------------------------------------------------------------------
# mutation classification
# --------------------------------------------------------------------------

MUTATORS = {"append", "extend", "insert", "update", "setdefault", "pop", "clear",
            "remove", "sort", "reverse", "add", "discard", "popitem", "appendleft"}


def mutation_sites(node_or_body):
    """Yield (kind, receiver_dotted, node):
       kind in call:<method> | setitem | delitem | augassign | setattr"""
    nodes = node_or_body if isinstance(node_or_body, list) else [node_or_body]
    for root in nodes:
        for n in ast.walk(root):
            if isinstance(n, ast.Call) and isinstance(n.func, ast.Attribute) \
                    and n.func.attr in MUTATORS:
                yield ("call:" + n.func.attr, dotted(n.func.value), n)
            elif isinstance(n, (ast.Assign, ast.AugAssign, ast.AnnAssign)):
                targets = n.targets if isinstance(n, ast.Assign) else [n.target]
                for t in targets:
                    for tt in (t.elts if isinstance(t, (ast.Tuple, ast.List)) else [t]):
                        if isinstance(tt, ast.Subscript):
                            yield ("setitem", dotted(tt.value), n)
                        elif isinstance(tt, ast.Attribute):
                            yield ("setattr", dotted(tt), n)
                        elif isinstance(n, ast.AugAssign) and isinstance(tt, ast.Name):
                            yield ("augassign", tt.id, n)
            elif isinstance(n, ast.Delete):
                for t in n.targets:
                    if isinstance(t, ast.Subscript):
                        yield ("delitem", dotted(t.value), n)


# --------------------------------------------------------------------------
# guards
# --------------------------------------------------------------------------

def dominating_tests(node, stop=None):
    """[(test_node, polarity)] of enclosing if/while/ifexp tests, innermost
    first, up to `stop` (a FunctionDef) or the enclosing function."""
    out = []
    child = node
    for p in parent_chain(node):
        if p is stop or isinstance(p, (ast.FunctionDef, ast.AsyncFunctionDef, ast.ClassDef)):
            break
        if isinstance(p, ast.If) or isinstance(p, ast.While):
            if _in_list(child, p.body):
                out.append(_positive(p.test, True))
            elif _in_list(child, p.orelse):
                out.append(_positive(p.test, False))
        elif isinstance(p, ast.IfExp):
            if child is p.body:
                out.append(_positive(p.test, True))
            elif child is p.orelse:
                out.append(_positive(p.test, False))
        child = p
    return out


def path_atoms(node, stop=None, seg=ast.unparse):
    """The conjunction of conditions under which `node` executes, as a set of (atom text, polarity):
    `if a and not b:` (true arm) gives {(a, True), (b, False)}, the false arm of `if a or b:` gives
    {(a, False), (b, False)}; a test that cannot be split (false arm of an `and`, ...) is kept whole."""
    out = set()

    def add(test, pol):
        test, pol = _positive(test, pol)
        if isinstance(test, ast.BoolOp) and ((isinstance(test.op, ast.And) and pol) or (isinstance(test.op, ast.Or) and not pol)):
            for v in test.values:
                add(v, pol)
        else:
            out.add((str(seg(test)), pol))
    for t, pol in dominating_tests(node, stop=stop):
        add(t, pol)
    # position inside a short-circuit expression: in `a and b` b is evaluated when a held, in `a or b` when it did not
    child = node
    for p in parent_chain(node):
        if p is stop or isinstance(p, (ast.FunctionDef, ast.AsyncFunctionDef, ast.ClassDef, ast.stmt)):
            break
        if isinstance(p, ast.BoolOp):
            for v in p.values:
                if v is child:
                    break
                add(v, isinstance(p.op, ast.And))
        child = p
    return out


def if_arms(node):
    """(test, body-when-true, body-when-false) of an `if`, with `not X` tests turned around"""
    test, body, orelse = node.test, node.body, node.orelse
    while isinstance(test, ast.UnaryOp) and isinstance(test.op, ast.Not):
        test, body, orelse = test.operand, orelse, body
    return test, body, orelse


def _positive(test, pol):
    """(`not X`, p) is reported as (X, not p): rules do not depend on how a branch is spelled"""
    while isinstance(test, ast.UnaryOp) and isinstance(test.op, ast.Not):
        test, pol = test.operand, not pol
    return (test, pol)


def _in_list(node, lst):
    return any(node is x for x in lst)


# calls that always raise (the parser's error reporter; sys.exit)
NEVER_RETURN = ("error_msg",)


def _never_returns(st):
    return isinstance(st, ast.Expr) and isinstance(st.value, ast.Call) and isinstance(st.value.func, ast.Attribute) \
        and st.value.func.attr in NEVER_RETURN


def early_exit_guards(func, node):
    """Tests `if T: return/raise/continue` that precede `node` in the same
    statement list (any enclosing level): node is reached only when T is
    false.  Returns [(test, False)]."""
    out = []
    child = node
    for p in parent_chain(node):
        for field in ("body", "orelse", "finalbody"):
            lst = getattr(p, field, None)
            if isinstance(lst, list) and _in_list(child, lst):
                for st in lst:
                    if st is child:
                        break
                    if isinstance(st, ast.If) and not st.orelse and st.body and \
                            (isinstance(st.body[-1], (ast.Return, ast.Raise, ast.Continue, ast.Break)) or _never_returns(st.body[-1])):
                        out.append(_positive(st.test, False))
        if p is func:
            break
        child = p
    return out


# --------------------------------------------------------------------------
# acyclic paths
# --------------------------------------------------------------------------

class Path(object):
    __slots__ = ("stmts", "conds", "end")

    def __init__(self, stmts=None, conds=None, end="fall"):
        self.stmts = stmts or []
        self.conds = conds or []
        self.end = end

    def extend(self, other):
        return Path(self.stmts + other.stmts, self.conds + other.conds, other.end)


def paths(body, limit=20000):
    """Enumerate acyclic paths through a statement list.  Loops are taken
    0 or 1 times; try bodies are followed on the no-exception path plus one
    path per handler (entered from the start of the try body).
    end in fall|return|raise|continue|break."""
    result = [Path()]
    for st in body:
        new = []
        for p in result:
            if p.end != "fall":
                new.append(p)
                continue
            for q in _stmt_paths(st, limit):
                new.append(p.extend(q))
                if len(new) > limit:
                    raise OverflowError("too many paths")
        result = new
    return result


def _stmt_paths(st, limit):
    if isinstance(st, ast.If):
        out = []
        for q in paths(st.body, limit):
            out.append(Path([st] + q.stmts, [_positive(st.test, True)] + q.conds, q.end))
        for q in paths(st.orelse, limit):
            out.append(Path([st] + q.stmts, [_positive(st.test, False)] + q.conds, q.end))
        return out
    if isinstance(st, (ast.For, ast.While)):
        out = []
        # zero iterations
        for q in paths(st.orelse, limit):
            out.append(Path([st] + q.stmts, q.conds, q.end))
        # one iteration
        for q in paths(st.body, limit):
            if q.end in ("continue", "fall"):
                for r in paths(st.orelse, limit):
                    out.append(Path([st] + q.stmts + r.stmts, q.conds + r.conds, r.end))
            elif q.end == "break":
                out.append(Path([st] + q.stmts, q.conds, "fall"))
            else:
                out.append(Path([st] + q.stmts, q.conds, q.end))
        return out
    if isinstance(st, ast.With):
        return [Path([st] + q.stmts, q.conds, q.end) for q in paths(st.body, limit)]
    if isinstance(st, ast.Try):
        out = []
        fin = paths(st.finalbody, limit) if st.finalbody else [Path()]
        for q in paths(st.body, limit):
            if q.end == "fall":
                for e in paths(st.orelse, limit):
                    for f in fin:
                        end = f.end if f.end != "fall" else e.end
                        out.append(Path([st] + q.stmts + e.stmts + f.stmts,
                                        q.conds + e.conds + f.conds, end))
            else:
                for f in fin:
                    end = f.end if f.end != "fall" else q.end
                    out.append(Path([st] + q.stmts + f.stmts, q.conds + f.conds, end))
        for h in st.handlers:
            for q in paths(h.body, limit):
                for f in fin:
                    end = f.end if f.end != "fall" else q.end
                    out.append(Path([st, h] + q.stmts + f.stmts, q.conds + f.conds, end))
        return out
    if isinstance(st, ast.Return):
        return [Path([st], [], "return")]
    if isinstance(st, ast.Raise):
        return [Path([st], [], "raise")]
    if isinstance(st, ast.Continue):
        return [Path([st], [], "continue")]
    if isinstance(st, ast.Break):
        return [Path([st], [], "break")]
    return [Path([st], [], "fall")]


def calls_in(node, shallow=False):
    """Call nodes inside a statement (not descending into nested defs)."""
    out = []
    stack = [node]
    while stack:
        n = stack.pop()
        if isinstance(n, ast.Call):
            out.append(n)
        for c in ast.iter_child_nodes(n):
            if isinstance(c, (ast.FunctionDef, ast.AsyncFunctionDef, ast.ClassDef, ast.Lambda)):
                continue
            if shallow and isinstance(c, list):
                continue
            stack.append(c)
    return out


def header_calls(st):
    """Calls evaluated by the statement itself, excluding nested statement
    bodies (for If/For/While/With/Try only the header expressions)."""
    if isinstance(st, ast.If) or isinstance(st, ast.While):
        return calls_in(st.test)
    if isinstance(st, ast.For):
        return calls_in(st.iter)
    if isinstance(st, ast.With):
        out = []
        for item in st.items:
            out.extend(calls_in(item.context_expr))
        return out
    if isinstance(st, (ast.Try, ast.ExceptHandler)):
        return []
    return calls_in(st)


# --------------------------------------------------------------------------
# relevance-pruned paths (avoids 2^n blow-up in long emitter functions)
# --------------------------------------------------------------------------

def _contains(st, pred):
    for n in ast.walk(st):
        if pred(n):
            return True
    return False


def prune(body, pred):
    """Copy of a statement list in which compound statements that contain no
    node satisfying `pred` (and no return/raise/break/continue) are replaced by
    `ast.Pass` placeholders that keep the original location."""
    out = []
    for st in body:
        if isinstance(st, (ast.If, ast.For, ast.While, ast.With, ast.Try)):
            exits = _contains(st, lambda n: isinstance(n, (ast.Return, ast.Raise, ast.Break, ast.Continue)))
            if not _contains(st, pred) and not exits:
                p = ast.Pass()
                ast.copy_location(p, st)
                p._orig = st
                out.append(p)
                continue
            new = _shallow_copy(st)
            for fld in ("body", "orelse", "finalbody"):
                if hasattr(st, fld) and isinstance(getattr(st, fld), list):
                    setattr(new, fld, prune(getattr(st, fld), pred))
            if isinstance(st, ast.Try):
                new.handlers = []
                for h in st.handlers:
                    nh = _shallow_copy(h)
                    nh.body = prune(h.body, pred)
                    new.handlers.append(nh)
            out.append(new)
        else:
            out.append(st)
    return out


def _shallow_copy(node):
    new = type(node)()
    for f in node._fields:
        if hasattr(node, f):
            setattr(new, f, getattr(node, f))
    ast.copy_location(new, node)
    new._orig = node
    return new


def stable_names(func):
    """Parameter names never re-bound inside the function."""
    params = set(a.arg for a in func.args.args + func.args.kwonlyargs)
    for n in ast.walk(func):
        if isinstance(n, ast.Name) and isinstance(n.ctx, ast.Store) and n.id in params:
            params.discard(n.id)
    return params


def feasible(path, stable):
    """False when the path takes both polarities of a test that only reads
    stable names (correlated branches such as `if top: push ... if top: pop`)."""
    seen = {}
    for test, pol in path.conds:
        names = set(n.id for n in ast.walk(test) if isinstance(n, ast.Name))
        if not names or not names <= stable:
            continue
        if any(isinstance(n, ast.Call) for n in ast.walk(test)):
            continue
        key = ast.dump(test)
        if key in seen and seen[key] != pol:
            return False
        seen[key] = pol
    return True


def feasible_flags(path):
    """Constant-propagate `name = <bool constant>` along the path and reject
    paths that then take the wrong arm of `if name:` / `if not name:`."""
    env = {}
    ci = 0
    for st in path.stmts:
        if isinstance(st, ast.If):
            if ci >= len(path.conds):
                break
            test, pol = path.conds[ci]
            ci += 1
            val = None
            if isinstance(test, ast.Name) and test.id in env:
                val = env[test.id]
            elif isinstance(test, ast.UnaryOp) and isinstance(test.op, ast.Not) and \
                    isinstance(test.operand, ast.Name) and test.operand.id in env:
                val = not env[test.operand.id]
            if val is not None and bool(val) != pol:
                return False
        elif isinstance(st, ast.Assign):
            for t in st.targets:
                for tt in (t.elts if isinstance(t, (ast.Tuple, ast.List)) else [t]):
                    if isinstance(tt, ast.Name):
                        if isinstance(st.value, ast.Constant) and isinstance(st.value.value, bool) \
                                and len(st.targets) == 1 and tt is t:
                            env[tt.id] = st.value.value
                        else:
                            env.pop(tt.id, None)
        elif isinstance(st, ast.AugAssign) and isinstance(st.target, ast.Name):
            env.pop(st.target.id, None)
        elif isinstance(st, (ast.For, ast.While)):
            for n in ast.walk(st):
                if isinstance(n, ast.Name) and isinstance(n.ctx, ast.Store):
                    env.pop(n.id, None)
    return True


# ---------------------------------------------------------------------------
# straight-line dependency analysis inside one branch
# ---------------------------------------------------------------------------
def branch_return_deps(stmts, roots):
    """For a straight-line-ish statement list (nested ifs are followed on both arms,
    the dependency sets are joined), compute for every `return <expr>` the set of
    `roots` (dotted prefixes such as "node.args", "self.arg") its value depends on through local
    assignments made *in this branch*.  -> list of (Return node, set of roots)."""
    out = []

    def expr_deps(e, env):
        deps = set()
        for x in ast.walk(e):
            if isinstance(x, ast.Name) and isinstance(x.ctx, ast.Load) and x.id in env:
                deps |= env[x.id]
            if isinstance(x, (ast.Attribute, ast.Name)):
                d = dotted(x)
                if d:
                    for r in roots:
                        if d == r or d.startswith(r + ".") or d.startswith(r + "["):
                            deps.add(r)
            if isinstance(x, ast.Subscript):
                d = dotted(x.value)
                if d:
                    for r in roots:
                        if d == r or d.startswith(r + "."):
                            deps.add(r)
        return deps

    def walk(body, env):
        for st in body:
            if isinstance(st, ast.Assign):
                deps = expr_deps(st.value, env)
                for t in st.targets:
                    if isinstance(t, ast.Name):
                        env[t.id] = deps
            elif isinstance(st, ast.Return) and st.value is not None:
                out.append((st, expr_deps(st.value, env)))
            elif isinstance(st, ast.If):
                e1, e2 = dict(env), dict(env)
                walk(st.body, e1)
                walk(st.orelse, e2)
                for k in set(e1) | set(e2):
                    env[k] = e1.get(k, set()) | e2.get(k, set())
            elif isinstance(st, (ast.For, ast.While, ast.With, ast.Try)):
                walk(getattr(st, "body", []), env)
    walk(stmts, {})
    return out
