"""C12 - user splicer code is carried into the named blocks unchanged."""
import ast
import re

from sa import pattern as P, pyflow
from sa import pattern as pat
from sa.loader import AnalysisError, enclosing_function

EXPLANATION = (
    "Writer/reader agreement and pairing analysis: (R1) the begin/end marker constants of "
    "splicer.get_splicers are substrings of the format strings util._create_splicer writes, at the "
    "same position relative to the block name, names joined with '.' by the writer and split on '.' "
    "by the reader, marker preceded by a comment leader, begin and end emitted under one condition; "
    "(R2) precedence force > user splicer > default in _create_splicer, each arm extending the output "
    "with the whole list; (R3) path-sensitive pairing of _push_splicer/_pop_splicer in every emitter "
    "method (same name expression, proper nesting, balanced at every normal exit and inside every "
    "loop body); (R4) reader state machine shape (collect only between markers, rstrip only); (R5) "
    "every contribution to the splicer dictionary is merged per block name; (R6) user splicer lines "
    "reach the layout interpreter unescaped - the default branch of write_lines must not delete "
    "characters from lines that do not start with a formatting metacharacter.")
NOT_DECIDED = "Full round-trip equality of regenerated files (needs running the generator twice)."


def _strs(func):
    return [n.value for n in ast.walk(func) if isinstance(n, ast.Constant) and isinstance(n.value, str)]


def rule_r1(repo, run):
    R = run.rule("C12.R1", "splicer marker writer (_create_splicer) and reader (get_splicers) agree")
    um = repo.module("util")
    sm = repo.module("splicer")
    w = um.func("WrapperMixin._create_splicer")
    r = sm.func("get_splicers")
    # reader constants: names compared through line.find(X)
    finds = []
    consts = {}
    for node in ast.walk(r):
        if isinstance(node, ast.Assign) and len(node.targets) == 1 and isinstance(node.targets[0], ast.Name):
            s = pyflow.const_str(node.value)
            if s is not None:
                consts[node.targets[0].id] = s
    for node in ast.walk(r):
        if isinstance(node, ast.Call) and isinstance(node.func, ast.Attribute) and node.func.attr == "find" \
                and node.args:
            a = node.args[0]
            s = pyflow.const_str(a) or (consts.get(a.id) if isinstance(a, ast.Name) else None)
            if s:
                finds.append(s)
    if len(finds) != 2:
        raise AnalysisError("C12.R1: expected two marker find() calls in get_splicers, found %r" % finds)
    rb, re_ = finds
    # writer format strings
    wfmts = [s for s in _strs(w) if "%s" in s]
    if len(wfmts) != 2:
        raise AnalysisError("C12.R1: expected two marker format strings in _create_splicer, found %r" % wfmts)
    wb, we = wfmts
    loc = um.loc(w)
    for tag, rc, wf in (("begin", rb, wb), ("end", re_, we)):
        i = wf.find(rc)
        run.check(R, "marker.%s.substring" % tag, i >= 0,
                  "reader looks for %r which the writer's format %r does not contain" % (rc, wf), loc,
                  sample=dict(reader=rc, writer=wf))
        if i < 0:
            continue
        run.check(R, "marker.%s.leader" % tag, i > 0 and wf[:i].strip() == "%s",
                  "writer must put exactly the comment leader before the marker (reader requires find() > 0); "
                  "format is %r" % wf, loc)
        tail = wf[i + len(rc):]
        run.check(R, "marker.%s.name-follows" % tag, tail.startswith(" %s"),
                  "the block name must follow the marker after one blank (reader takes the first "
                  "whitespace-separated field); format tail is %r" % tail, loc)
    run.check(R, "marker.begin!=end", rb != re_ and rb not in re_ and re_ not in rb,
              "begin and end markers are not distinguishable: %r / %r" % (rb, re_), sm.loc(r))
    # reader requires > 0
    gt0 = [n for n in ast.walk(r) if isinstance(n, ast.Compare) and isinstance(n.ops[0], ast.Gt)
           and isinstance(n.comparators[0], ast.Constant) and n.comparators[0].value == 0]
    run.check(R, "reader.find>0", len(gt0) == 2, "reader no longer tests find(...) > 0 for both markers", sm.loc(r))
    # the % arguments of begin and end are the same expressions
    mods = [n for n in ast.walk(w) if isinstance(n, ast.BinOp) and isinstance(n.op, ast.Mod)]
    if len(mods) == 2:
        a0 = ast.dump(mods[0].right)
        a1 = ast.dump(mods[1].right)
        run.check(R, "writer.begin-end-same-name", a0 == a1,
                  "begin and end markers are formatted from different expressions: %s / %s"
                  % (um.seg(mods[0].right), um.seg(mods[1].right)), loc,
                  sample=dict(args=um.seg(mods[0].right)))
        first = mods[0].right.elts[0] if isinstance(mods[0].right, ast.Tuple) else None
        run.check(R, "writer.leader-is-comment", first is not None and (pyflow.dotted(first) or "").endswith(".comment"),
                  "first marker argument must be self.comment", loc)
        # same guard
        g0 = [ast.dump(t) for t, p in pyflow.dominating_tests(mods[0], stop=w)]
        g1 = [ast.dump(t) for t, p in pyflow.dominating_tests(mods[1], stop=w)]
        run.check(R, "writer.begin-end-same-guard", g0 == g1 and len(g0) == 1,
                  "begin and end markers are emitted under different conditions", loc)
    else:
        raise AnalysisError("C12.R1: marker formatting expressions not found")
    # join / split on "."
    pushf = um.func("WrapperMixin._push_splicer")
    joins = [n for n in ast.walk(pushf) if isinstance(n, ast.Call) and isinstance(n.func, ast.Attribute)
             and n.func.attr == "join"]
    sep = pyflow.const_str(joins[0].func.value) if joins else None
    splits = [pyflow.const_str(n.args[0]) for n in ast.walk(r) if isinstance(n, ast.Call)
              and isinstance(n.func, ast.Attribute) and n.func.attr == "split" and n.args]
    run.check(R, "name-separator", sep is not None and sep in splits,
              "writer joins nested names with %r but the reader splits on %r" % (sep, splits), loc,
              sample=dict(join=sep, split=splits))
    # path written ends with the separator so that path + name is separated
    for fn in ("WrapperMixin._push_splicer", "WrapperMixin._pop_splicer", "WrapperMixin._update_splicer_top"):
        f = um.func(fn)
        for node in ast.walk(f):
            if isinstance(node, ast.Assign) and any((pyflow.dotted(t) or "") == "self.splicer_path" for t in node.targets):
                v = node.value
                ok = (pyflow.const_str(v) == "") or (isinstance(v, ast.BinOp) and isinstance(v.op, ast.Add)
                                                   and pyflow.const_str(v.right) == sep)
                run.check(R, "util.%s:splicer_path" % fn, ok,
                          "splicer_path must be '' or join(names) + %r, got %s" % (sep, um.seg(v)), um.loc(node))


def _user_filter(um, name):
    """What `WrapperMixin.<name>(lines)` does to the text of user code.  Returns None when the method is not a per-line
    filter that keeps the characters of every line, else dict(tabs=..., literal=..., unmarked=[...]):
      tabs      the tabs of a line are expanded to blanks (a tab is white space in user code),
      literal   the line is prefixed with the literal marker "@" of write_lines (which removes it again),
      unmarked  the conditions under which a line is *not* marked.
    Two shapes are understood: `return [line.expandtabs() ... for line in lines]` and a loop that appends every line
    (or every `split("\\n")` piece of it) to the list it returns."""
    fq = "WrapperMixin.%s" % name
    if not um.has_func(fq):
        return None
    fn = um.func(fq)
    body = [st for st in fn.body if not (isinstance(st, ast.Expr) and isinstance(st.value, ast.Constant))]
    if len(body) == 1 and isinstance(body[0], ast.Return) and isinstance(body[0].value, ast.ListComp):
        elt = ast.unparse(body[0].value.elt)
        if re.fullmatch(r"line\.expandtabs\(\)( if isinstance\(line, str\) else line)?", elt):
            return dict(tabs=True, literal=False, unmarked=["always"])
        return None
    if any(isinstance(x, (ast.Continue, ast.Break)) for x in ast.walk(fn)):
        return None
    rets = [x for x in ast.walk(fn) if isinstance(x, ast.Return)]
    if len(rets) != 1 or not isinstance(rets[0].value, ast.Name) or body[-1] is not rets[0]:
        return None
    out = rets[0].value.id
    loops = [st for st in body if isinstance(st, ast.For)]
    params = [a.arg for a in fn.args.args if a.arg != "self"]
    if len(loops) != 1 or len(params) != 1 or not pyflow.is_name(loops[0].iter, params[0]) or not isinstance(loops[0].target, ast.Name):
        return None
    info = dict(tabs=False, literal=False, unmarked=[])

    def text_of(expr, var):
        """expr is `var` or `var.expandtabs()`"""
        if pyflow.is_name(expr, var):
            return True
        if isinstance(expr, ast.Call) and isinstance(expr.func, ast.Attribute) and expr.func.attr == "expandtabs" \
                and pyflow.is_name(expr.func.value, var) and not expr.args:
            info["tabs"] = True
            return True
        return False

    def keeps(stmts, var):
        """every path through stmts appends the (text of) var exactly once and changes it only in the accepted ways"""
        appended = False
        for st in stmts:
            if isinstance(st, ast.Assign) and len(st.targets) == 1 and pyflow.is_name(st.targets[0], var):
                v = st.value
                if text_of(v, var) and not pyflow.is_name(v, var):
                    continue
                if isinstance(v, ast.BinOp) and isinstance(v.op, ast.Add) and pyflow.const_str(v.left) == "@" and pyflow.is_name(v.right, var):
                    return None          # a marker outside a condition is handled by the If arm below
                return None
            if isinstance(st, ast.Expr) and isinstance(st.value, ast.Call) and ast.unparse(st.value.func) == "%s.append" % out \
                    and len(st.value.args) == 1 and pyflow.is_name(st.value.args[0], var):
                if appended:
                    return None
                appended = True
                continue
            if isinstance(st, ast.If):
                # `if <cond>: var = "@" + var` (no else): the marker
                if not st.orelse and len(st.body) == 1 and isinstance(st.body[0], ast.Assign) \
                        and pyflow.is_name(st.body[0].targets[0], var):
                    v = st.body[0].value
                    if isinstance(v, ast.BinOp) and isinstance(v.op, ast.Add) and pyflow.const_str(v.left) == "@" and pyflow.is_name(v.right, var):
                        info["literal"] = True
                        info["unmarked"].append("not (%s)" % re.sub(r"\b%s\b" % re.escape(var), "LINE", ast.unparse(st.test)))
                        continue
                    return None
                a, b = keeps(st.body, var), keeps(st.orelse, var)
                if a is None or b is None or a != b:
                    return None
                if a:
                    if appended:
                        return None
                    appended = True
                continue
            if isinstance(st, ast.For) and isinstance(st.target, ast.Name) and isinstance(st.iter, ast.Call) \
                    and isinstance(st.iter.func, ast.Attribute) and st.iter.func.attr == "split" \
                    and [pyflow.const_str(x) for x in st.iter.args] == ["\n"] and text_of(st.iter.func.value, var) and not st.orelse:
                # the pieces of the line, each appended: write_lines splits at the same character
                if keeps(st.body, st.target.id) is not True or appended:
                    return None
                appended = True
                continue
            return None
        return appended

    if keeps(loops[0].body, loops[0].target.id) is not True:
        return None
    if not info["literal"]:
        info["unmarked"] = ["always"]
    return info


def _unwrap_tab_filter(um, node):
    """`self._user_code(x)` -> x when the method keeps the characters of each line (tabs become blanks, the literal marker
    of write_lines may be put in front: the property is about the characters of the user's code as they are written)"""
    if isinstance(node, ast.Call) and isinstance(node.func, ast.Attribute) and pyflow.is_name(node.func.value, "self") and len(node.args) == 1:
        if _user_filter(um, node.func.attr) is not None:
            return node.args[0]
    return node


def rule_r2(repo, run):
    R = run.rule("C12.R2", "precedence force > user splicer > default, whole list each")
    um = repo.module("util")
    w = um.func("WrapperMixin._create_splicer")
    params = [a.arg for a in w.args.args]
    # find the if/elif chain that extends `out`
    chain = None
    for node in w.body:
        if isinstance(node, ast.If) and any(isinstance(n, ast.Call) and (pyflow.call_name(n) or "").endswith(".extend")
                                            for n in ast.walk(node)):
            chain = node
    if chain is None:
        raise AnalysisError("C12.R2: extend chain not found in _create_splicer")
    arms = []
    cur = chain
    while True:
        arms.append((cur.test, cur.body))
        if len(cur.orelse) == 1 and isinstance(cur.orelse[0], ast.If):
            cur = cur.orelse[0]
        else:
            arms.append((None, cur.orelse))
            break
    loc = um.loc(chain)

    def names_in(t):
        return set(n.id for n in ast.walk(t) if isinstance(n, ast.Name)) if t is not None else set()

    def extended(body):
        for st in body:
            for c in pyflow.calls_in(st):
                if (pyflow.call_name(c) or "").endswith(".extend") and c.args:
                    return c
        return None
    order = []
    for test, body in arms:
        ext = extended(body)
        if test is None or ext is None:
            continue
        if "force" in names_in(test):
            order.append("force")
            run.check(R, "arm.force", pyflow.is_name(_unwrap_tab_filter(um, ext.args[0]), "force"),
                      "force arm must extend the output with `force`", loc)
        elif "default" in names_in(test):
            order.append("default")
            run.check(R, "arm.default", pyflow.is_name(ext.args[0], "default"),
                      "default arm must extend the output with `default`", loc)
        elif any(isinstance(n, ast.Compare) and isinstance(n.ops[0], ast.In) for n in ast.walk(test)):
            order.append("user")
            # value looked up under the same name
            src = um.seg(_unwrap_tab_filter(um, ext.args[0]))
            ok = isinstance(_unwrap_tab_filter(um, ext.args[0]), ast.Name) or "splicer_stack" in src
            run.check(R, "arm.user", ok, "user arm must extend the output with the stored splicer list", loc)
    run.check(R, "order", order == ["force", "user", "default"],
              "precedence chain is %s, documented order is force > user splicer > default" % order, loc,
              sample=dict(order=order))
    # the user arm looks the name up in the current level of the stack with the same `name`
    ins = [n for n in ast.walk(chain) if isinstance(n, ast.Compare) and isinstance(n.ops[0], ast.In)]
    if ins:
        run.check(R, "user.lookup-key", pyflow.is_name(ins[0].left, params[1]),
                  "membership test must use the splicer name parameter", loc)


PUSH = "_push_splicer"
POP = "_pop_splicer"
UPD = "_update_splicer_top"


def _sp_call(n):
    if isinstance(n, ast.Call) and isinstance(n.func, ast.Attribute) and n.func.attr in (PUSH, POP, UPD):
        return n.func.attr
    return None


def rule_r3(repo, run):
    R = run.rule("C12.R3", "_push_splicer/_pop_splicer are paired on every path with the same name, properly nested")
    pairs = 0
    for mname in ("wrapc", "wrapf", "wrapp", "wrapl"):
        mod = repo.module(mname)
        for q, func in mod.functions().items():
            own = [n for n in ast.walk(func) if _sp_call(n) and enclosing_function(n) is func]
            if not own:
                continue
            npush = len([n for n in own if _sp_call(n) == PUSH])
            pairs += npush
            construct = "%s.%s" % (mname, q)
            body = pyflow.prune(func.body, lambda n: _sp_call(n) is not None)
            try:
                allpaths = pyflow.paths(body, limit=200000)
            except OverflowError:
                run.unmodelled_site(R, construct, "too many paths")
                continue
            problems = []
            stable = pyflow.stable_names(func)
            for p in allpaths:
                if not pyflow.feasible(p, stable):
                    continue
                stack = []
                bad = None
                for st in p.stmts:
                    if isinstance(st, (ast.If, ast.For, ast.While, ast.With, ast.Try)):
                        calls = pyflow.header_calls(getattr(st, "_orig", st))
                    elif isinstance(st, ast.ExceptHandler):
                        calls = []
                    else:
                        calls = [c for c in pyflow.calls_in(st)]
                    calls = sorted([c for c in calls if _sp_call(c)], key=lambda c: (c.lineno, c.col_offset))
                    for c in calls:
                        kind = _sp_call(c)
                        arg = _norm(mod.seg(c.args[0])) if c.args else ""
                        if kind == PUSH:
                            stack.append((arg, c.lineno))
                        elif kind == POP:
                            if not stack:
                                bad = "pop(%s) at line %d without a matching push on this path" % (arg, c.lineno)
                                break
                            top, ln = stack.pop()
                            if top != arg:
                                bad = "pop(%s) at line %d closes push(%s) from line %d" % (arg, c.lineno, top, ln)
                                break
                        elif kind == UPD:
                            pass
                    if bad:
                        break
                if not bad and p.end in ("fall", "return") and stack:
                    bad = "push(%s) from line %d is still open at %s" % (stack[-1][0], stack[-1][1],
                                                                         "return" if p.end == "return" else "end of function")
                if bad and bad not in problems:
                    problems.append(bad)
            # loop bodies must be balanced on their own (0 or n iterations)
            for loop in [n for n in ast.walk(func) if isinstance(n, (ast.For, ast.While))
                         and enclosing_function(n) is func]:
                if not any(_sp_call(n) for n in ast.walk(loop)):
                    continue
                lb = pyflow.prune(loop.body, lambda n: _sp_call(n) is not None)
                try:
                    lpaths = pyflow.paths(lb, limit=50000)
                except OverflowError:
                    continue
                for p in lpaths:
                    depth = 0
                    for st in p.stmts:
                        if isinstance(st, (ast.If, ast.For, ast.While, ast.With, ast.Try)):
                            calls = pyflow.header_calls(getattr(st, "_orig", st))
                        elif isinstance(st, ast.ExceptHandler):
                            calls = []
                        else:
                            calls = pyflow.calls_in(st)
                        for c in calls:
                            k = _sp_call(c)
                            if k == PUSH:
                                depth += 1
                            elif k == POP:
                                depth -= 1
                    if depth != 0 and p.end in ("fall", "continue", "break"):
                        msg = "loop body at line %d changes the splicer depth by %+d per iteration" % (loop.lineno, depth)
                        if msg not in problems:
                            problems.append(msg)
            run.check(R, construct, not problems, "; ".join(problems[:3]), mod.loc(func),
                      sample=dict(function=construct, pushes=npush, paths=len(allpaths)))
    run.floor(R, "push/pop pairs", pairs, 30)


def _norm(s):
    return re.sub(r"\s+", "", s)


def rule_r4(repo, run):
    R = run.rule("C12.R4", "reader collects only between markers and stores lines with rstrip() only")
    sm = repo.module("splicer")
    r = sm.func("get_splicers")
    loc = sm.loc(r)
    appends = [n for n in ast.walk(r) if isinstance(n, ast.Call) and isinstance(n.func, ast.Attribute)
               and n.func.attr == "append"]
    save_appends = [a for a in appends if a.args and isinstance(a.args[0], ast.Call)
                    and isinstance(a.args[0].func, ast.Attribute)]
    ok = len(save_appends) == 1 and save_appends[0].args[0].func.attr == "rstrip" and not save_appends[0].args[0].args
    run.check(R, "reader.store", ok,
              "collected lines must be stored as line.rstrip() exactly (no strip/lstrip/slicing)", loc,
              sample=dict(stored=sm.seg(save_appends[0].args[0]) if save_appends else None))
    if save_appends:
        a = save_appends[0]
        tests = pyflow.dominating_tests(a, stop=r)
        srcs = [sm.seg(t) for t, p in tests]
        in_collect = any("collect" in s for s in srcs)
        after_end_test = any((not p) for t, p in tests if "> 0" in sm.seg(t))
        run.check(R, "reader.collect-state", in_collect and after_end_test,
                  "line is stored outside the collect state / not in the else-arm of the end-marker test: %s" % srcs, loc)
    # transitions
    assigns = [n for n in ast.walk(r) if isinstance(n, ast.Assign) and len(n.targets) == 1
               and pyflow.is_name(n.targets[0], "state") and isinstance(n.value, ast.Name)]
    targets = sorted(set(a.value.id for a in assigns))
    run.check(R, "reader.transitions", len(assigns) >= 3 and len(targets) == 2,
              "reader state machine must have look->collect and collect->look transitions, found %s" % targets, loc,
              sample=dict(transitions=[sm.seg(a) for a in assigns]))
    # the stored block is keyed by the last component of the begin tag
    stores = [n for n in ast.walk(r) if isinstance(n, ast.Assign) and isinstance(n.targets[0], ast.Subscript)
              and isinstance(n.value, ast.Name)]
    run.check(R, "reader.store-key", len(stores) == 1,
              "exactly one place must store the collected block under its name", loc)
    # dotted names: the cursor descends level by level from itself, over every component but the
    # last, starting at (and returning to) the caller's dictionary; the block is stored through it
    outp = r.args.args[1].arg if len(r.args.args) > 1 else None
    desc = P.find(r, """
for MV_S in MV_L[:-1]:
    MV_T = MV_T.setdefault(MV_S, {})
""")
    ok = False
    why = "no loop `for s in parts[:-1]: cur = cur.setdefault(s, {})` (cursor must descend from itself)"
    if len(desc) == 1 and outp:
        env = desc[0][1]
        T, L = env["T"], env["L"]
        split = P.has(r, "%s = MV_TAG.split('.')" % L)
        last = P.find(r, "MV_K = %s[-1]" % L)
        store = P.find(r, "%s[MV_K] = MV_V" % T)
        resets = P.count(r, "%s = %s" % (T, outp))
        probs = []
        if not split:
            probs.append("components must come from <tag>.split('.')")
        if not last or not store or last[0][1]["K"] != store[0][1]["K"]:
            probs.append("the block must be stored under the last component through the cursor")
        if resets < 2:
            probs.append("the cursor must start at the caller's dictionary and return to it after each block "
                         "(%d assignments `%s = %s`)" % (resets, T, outp))
        other = [sm.seg(n) for n in ast.walk(r) if isinstance(n, ast.Assign) and len(n.targets) == 1
                 and pyflow.is_name(n.targets[0], T) and not P.match(P.parse("%s = %s" % (T, outp))[1], n, {})
                 and not P.match(P.parse("%s = %s.setdefault(MV_S, {})" % (T, T))[1], n, {})]
        if other:
            probs.append("unexpected cursor assignment %s" % other)
        ok, why = not probs, "; ".join(probs)
    run.check(R, "reader.descent", ok, why, loc, sample=dict(descent=[e for _, e in desc]))
    # mismatched begin/end raises
    raises = [n for n in ast.walk(r) if isinstance(n, ast.Raise)]
    run.check(R, "reader.mismatch-raises", len(raises) >= 1, "mismatched begin/end tags must raise", loc)
    # a block that is defined twice is reported: the test looks up the key the block is stored under
    if stores:
        key = ast.unparse(stores[0].targets[0].slice)
        cont = ast.unparse(stores[0].targets[0].value)
        dup = [i for i in ast.walk(r) if isinstance(i, ast.If) and isinstance(i.test, ast.Compare) and isinstance(i.test.ops[0], ast.In)
               and ast.unparse(i.test.comparators[0]) == cont and any(isinstance(x, ast.Raise) for st in i.body for x in ast.walk(st))]
        run.check(R, "splicer.get_splicers:duplicate-test-key", bool(dup) and all(ast.unparse(i.test.left) == key for i in dup),
                  "blocks are stored as `%s[%s]` and the test that refuses a second definition looks up `%s`: for a dotted name "
                  "(`function.beta`) the full tag is never a key of the innermost dictionary, a block defined in two splicer files "
                  "is accepted and the later text silently replaces the earlier"
                  % (cont, key, ast.unparse(dup[0].test.left) if dup else "nothing"), sm.loc(dup[0]) if dup else loc)


def rule_r5(repo, run):
    R = run.rule("C12.R5", "all splicer sources are merged per block name (no wholesale replacement of a "
                           "language subtree)")
    mm = repo.module("main")
    f = mm.func("main_with_args")
    n = 0
    for node in ast.walk(f):
        if isinstance(node, ast.Call) and isinstance(node.func, ast.Attribute) and node.func.attr == "update":
            recv = pyflow.dotted(node.func.value) or ""
            if recv == "splicers":
                n += 1
                run.check(R, "main.main_with_args:splicers.update(%s)" % _norm(mm.seg(node.args[0])), False,
                          "dict.update replaces the whole per-language subtree: blocks read from splicer "
                          "files of the same language are dropped when splicer_code names that language",
                          mm.loc(node))
        if isinstance(node, ast.Assign):
            for t in node.targets:
                if isinstance(t, ast.Subscript) and pyflow.is_name(t.value, "splicers"):
                    n += 1
                    run.fail(R, "main.main_with_args:splicers[...]=", "language subtree of the splicer dictionary "
                             "is overwritten", mm.loc(node))
    # accepted idioms: setdefault per language + get_splicers into the sub dict, recursive merge helper
    merges = [nd for nd in ast.walk(f) if isinstance(nd, ast.Call) and
              (pyflow.call_name(nd) or "").split(".")[-1] in ("get_splicers", "get_splicer_based_on_suffix", "update")
              and nd.args and any(isinstance(a, ast.Name) and a.id in ("splicers", "subsplicer") for a in nd.args)]
    for mcall in merges:
        run.ok(R, "main.main_with_args:%s" % _norm(mm.seg(mcall.func)), sample=dict(merge=mm.seg(mcall)[:80]))
    if not merges and n == 0:
        raise AnalysisError("C12.R5: no splicer merge sites found in main_with_args")
    # get_splicers must refuse duplicates within the same dictionary rather than overwrite silently
    sm = repo.module("splicer")
    r = sm.func("get_splicers")
    dup = [nd for nd in ast.walk(r) if isinstance(nd, ast.Raise) and "exists" in sm.seg(nd)]
    run.check(R, "splicer.get_splicers:duplicate-block", len(dup) == 1,
              "a block defined twice must be rejected", sm.loc(r))


def rule_r6(repo, run):
    R = run.rule("C12.R6", "user splicer lines are data: the layout interpreter must not delete characters "
                           "from a line that does not begin with a formatting metacharacter")
    um = repo.module("util")
    f = um.func("WrapperMixin.write_lines")
    # locate the per-line if/elif chain and its final else arm
    inner = [n for n in ast.walk(f) if isinstance(n, ast.For) and isinstance(n.iter, ast.Call)
             and isinstance(n.iter.func, ast.Attribute) and n.iter.func.attr == "split"]
    if len(inner) != 1:
        raise AnalysisError("C12.R6: per-line loop of write_lines not found")
    var = inner[0].target.id
    chain = inner[0].body[0]
    if not isinstance(chain, ast.If):
        raise AnalysisError("C12.R6: write_lines per-line chain not found")
    cur = chain
    while len(cur.orelse) == 1 and isinstance(cur.orelse[0], ast.If):
        cur = cur.orelse[0]
    default = cur.orelse
    if not default:
        raise AnalysisError("C12.R6: write_lines has no default arm")
    # slices applied to the line variable in the default arm
    for node in [n for st in default for n in ast.walk(st)]:
        if isinstance(node, ast.Subscript) and pyflow.is_name(node.value, var) and isinstance(node.slice, ast.Slice):
            sl = um.seg(node)
            tests = pyflow.dominating_tests(node, stop=f)
            cond = [um.seg(t) for t, p in tests if var in um.seg(t)]
            lower = node.slice.lower is not None
            if lower:
                # leading characters removed: only for lines that start with the tested metacharacter
                run.ok(R, "util.WrapperMixin.write_lines:default:%s" % sl,
                       sample=dict(slice=sl, under=cond, note="line begins with a metacharacter: outside the property's domain"))
            else:
                # the trailing character is a directive of *generated* lines; it is taken from a user's line unless every
                # user line reaches write_lines marked as literal (`@`), which this arm never sees
                w = um.func("WrapperMixin._create_splicer")
                filters = []
                for c in ast.walk(w):
                    if isinstance(c, ast.Call) and (pyflow.call_name(c) or "").endswith(".extend") and c.args \
                            and "default" not in [x.id for x in ast.walk(c.args[0]) if isinstance(x, ast.Name)]:
                        a = c.args[0]
                        filters.append(_user_filter(um, a.func.attr) if isinstance(a, ast.Call) and isinstance(a.func, ast.Attribute) else None)
                harmless = {"not (LINE and LINE[0] != '#')", "not (LINE != '' and LINE[0] != '#')", "not (len(LINE) > 0 and LINE[0] != '#')",
                            "not (LINE and (not LINE.startswith('#')))"}
                marked = bool(filters) and all(f_ is not None and f_["literal"] and set(f_["unmarked"]) <= harmless for f_ in filters)
                # the `#` arm of write_lines writes the line as it is
                hash_arm = [i for i in ast.walk(f) if isinstance(i, ast.If) and um.seg(i.test) in ("%s[0] == '#'" % var, '%s[0] == "#"' % var)]
                hash_ok = len(hash_arm) == 1 and not any(isinstance(x, ast.Subscript) and isinstance(x.slice, ast.Slice)
                                                         for st in hash_arm[0].body for x in ast.walk(st))
                # documentation text is the user's as well
                dl = um.func("WrapperMixin.write_doxygen_lines")
                apps = [c for c in ast.walk(dl) if isinstance(c, ast.Call) and (pyflow.call_name(c) or "").endswith(".append") and c.args]
                def _leads_literal(e):
                    while isinstance(e, ast.BinOp) and isinstance(e.op, ast.Add):
                        e = e.left
                    return (pyflow.const_str(e) or "").startswith("@")
                doc_ok = bool(apps) and all(_leads_literal(c.args[0]) for c in apps)
                why = []
                if not marked:
                    why.append("the splicer lines are not all marked literal (%s)" % [None if f_ is None else f_["unmarked"] for f_ in filters])
                if not hash_ok:
                    why.append("the `#` arm of write_lines does not write the line as it is")
                if not doc_ok:
                    why.append("write_doxygen_lines appends documentation text without the literal marker")
                run.check(R, "util.WrapperMixin.write_lines:default:%s" % sl, marked and hash_ok and doc_ok,
                          "a line that does not start with a metacharacter still loses its last character when "
                          "%s: user code such as `x = a +` is altered; %s" % ((cond[:1] or ["?"])[0], "; ".join(why)), um.loc(node),
                          sample=dict(slice=sl, filters=filters))
    # the splicer contents enter the output list as they are
    w = um.func("WrapperMixin._create_splicer")
    ext = [c for c in ast.walk(w) if isinstance(c, ast.Call) and (pyflow.call_name(c) or "").endswith(".extend")]
    run.check(R, "util.WrapperMixin._create_splicer:verbatim", len(ext) == 3 and all(
        isinstance(_unwrap_tab_filter(um, c.args[0]), ast.Name) for c in ext),
        "splicer lists must be passed on unchanged (out.extend(list))", um.loc(w))


def rule_r6b(repo, run):
    R = run.rule("C12.R6", "user splicer lines reach the layout interpreter unescaped")
    um = repo.module("util")
    cs = um.func("WrapperMixin._create_splicer")
    n = 0
    for c in ast.walk(cs):
        if not (isinstance(c, ast.Call) and isinstance(c.func, ast.Attribute) and c.func.attr == "extend" and c.args):
            continue
        arg = c.args[0]
        if not pyflow.is_name(c.func.value, "out") or "default" in [x.id for x in ast.walk(arg) if isinstance(x, ast.Name)]:
            continue      # the generated default needs no treatment
        n += 1
        ok = False
        if isinstance(arg, ast.Call):
            callee = arg.func.attr if isinstance(arg.func, ast.Attribute) else getattr(arg.func, "id", "")
            fq = "WrapperMixin.%s" % callee
            if um.has_func(fq):
                flt = _user_filter(um, callee)
                body = ast.unparse(um.func(fq))
                ok = flt["tabs"] if flt is not None else ("expandtabs" in body or "replace('\\t'" in body)
        run.check(R, "util.WrapperMixin._create_splicer:user-code:tabs@%s" % re.sub(r"\s+", "", ast.unparse(arg))[:30], ok,
                  "user code is added to the output as it is (`%s`): a tab in it is the layout language's break hint and is deleted "
                  "when the line is written - `if (a)<TAB>return<TAB>1;` becomes `if (a)return1;`" % ast.unparse(c), um.loc(c))
    if n < 1:
        raise AnalysisError("C12.R6: the user-code branches of _create_splicer were not found")


import builtins as _builtins
_BUILTIN_NAMES = set(dir(_builtins))


def rule_r7(repo, run):
    R = run.rule("C12.R7", "user text reaches the block it names: splicer text given in YAML keeps every line, merges "
                           "are deep, and a named block is created for every declaration of its kind")
    am = repo.module("ast")
    lf = am.func("listify")
    # string -> lines: split on newline, drop only the empty string after a final newline
    comps = [c for c in ast.walk(lf) if isinstance(c, (ast.ListComp, ast.GeneratorExp)) and any(g.ifs for g in c.generators)
             and any("split" in am.seg(g.iter) for g in c.generators)]
    run.check(R, "ast.listify:keep-lines", not comps,
              "lines of a block scalar are filtered (%s): blank lines inside user code are dropped"
              % [am.seg(c) for c in comps][:1], am.loc(lf))
    split = pat.find(lf, "MV_N[MV_K] = MV_V.split('\\n')")
    run.check(R, "ast.listify:split", len(split) == 1,
              "a string value must become its lines by split('\\n') (only the empty element after a trailing newline "
              "is removed)", am.loc(lf))
    pops = [c for c in ast.walk(lf) if isinstance(c, ast.Call) and isinstance(c.func, ast.Attribute) and c.func.attr == "pop"]
    for c in pops:
        tests = [am.seg(t) for t, pol in pyflow.dominating_tests(c, stop=lf) if pol]
        run.check(R, "ast.listify:pop", any("[-1] == '\\n'" in t for t in tests) and not c.args,
                  "an element is removed from the user's lines under %s: only the last one after a trailing newline may go"
                  % tests, am.loc(c))
    # deep merge used for splicer_code
    um = repo.module("util")
    up = um.func("update")
    d, u = [a.arg for a in up.args.args][:2]
    rec = pat.find(up, "%s[MV_K] = update(%s.get(MV_K, {}), MV_V)" % (d, d)) or \
        pat.find(up, "MV_R = update(%s.get(MV_K, {}), MV_V)\n%s[MV_K] = MV_R" % (d, d))
    run.check(R, "util.update:recursive", bool(rec),
              "util.update must merge nested mappings recursively (d[k] = update(d.get(k, {}), v)): a one-level "
              "dict.update replaces every file-supplied block of a group that splicer_code also mentions", um.loc(up))
    # named blocks are created whatever the shape of the declaration
    n = 0
    for mn in ("wrapc", "wrapf", "wrapp", "wrapl"):
        m = repo.module(mn)
        for c in ast.walk(m.tree):
            if isinstance(c, ast.Call) and (pyflow.call_name(c) or "").endswith("._create_splicer"):
                fn = enclosing_function(c)
                n += 1
                bad = []
                for t, pol in pyflow.dominating_tests(c, stop=fn):
                    for x in ast.walk(t):
                        if isinstance(x, ast.Attribute) and isinstance(x.value, ast.Name) and \
                                x.value.id in ("node", "cls", "ast", "function", "method", "var", "arg") and \
                                x.attr not in ("options", "wrap", "fmtdict", "cpp_if"):
                            bad.append(m.seg(t))
                name = pyflow.const_str(c.args[0]) if c.args else None
                run.check(R, "%s.%s:_create_splicer(%s)" % (mn, getattr(fn, "_qualname", "?"), name or m.seg(c.args[0])[:30] if c.args else "?"),
                          not bad, "the splicer block is only created when %s: for other declarations the user's code for "
                          "this named block is silently dropped" % sorted(set(bad)), m.loc(c))
    run.floor(R, "_create_splicer call sites", n, 40)
    # every splicer file named on the command line is read: the suffix dispatcher has no way out before the read
    sm = repo.module("splicer")
    sf = sm.func("get_splicer_based_on_suffix")
    rets = [x for x in ast.walk(sf) if isinstance(x, ast.Return)]
    glob = [x.id for x in ast.walk(sf) if isinstance(x, ast.Name) and isinstance(x.ctx, ast.Load)
            and x.id not in [a.arg for a in sf.args.args] and x.id not in ("os", "get_splicers") and x.id not in _BUILTIN_NAMES
            and x.id not in [t.id for a in ast.walk(sf) if isinstance(a, ast.Assign) for t in ast.walk(a.targets[0]) if isinstance(t, ast.Name)]]
    run.check(R, "splicer.get_splicer_based_on_suffix:always-reads", not rets and not glob,
              "a splicer file can be skipped (%s): blocks of a file given on the command line are silently not read"
              % (["early return"] * bool(rets) + ["depends on module state %s" % sorted(set(glob))] * bool(glob)), sm.loc(sf))
    # the Fortran emitter names the blocks of a namespace's module after that namespace: after descending into
    # nested namespaces the top splicer name is restored before the module is written
    wf = repo.module("wrapf")
    wn = wf.func("Wrapf.wrap_namespace")
    ups = [c for c in ast.walk(wn) if isinstance(c, ast.Call) and (pyflow.call_name(c) or "") == "self._update_splicer_top"]
    inner = [c for c in ups if "ns." in wf.seg(c.args[0])]
    restore = [c for c in ups if "node." in wf.seg(c.args[0])]
    wm = [c for c in ast.walk(wn) if isinstance(c, ast.Call) and (pyflow.call_name(c) or "") == "self.write_module"]
    ok = bool(inner) and bool(restore) and bool(wm) and max(c.lineno for c in inner) < min(c.lineno for c in restore) < wm[0].lineno
    if ok:
        conds = [(wf.seg(t), pol) for t, pol in pyflow.dominating_tests(restore[0], stop=wn)]
        ok = conds in ([("top", False)], [])
    run.check(R, "wrapf.Wrapf.wrap_namespace:restore-splicer-top", ok,
              "after wrapping nested namespaces (which rename the top splicer level) the namespace's own name must be "
              "restored before its module is written; otherwise file_top/module_use/module_top of the outer module are "
              "looked up under the inner namespace's name and the user's code is lost", wf.loc(wn))
    # a user line that cannot be broken is written as it is: write_continue only starts a continuation line when
    # something has already been written on the current one
    um = repo.module("util")
    wc = repo.module("wrapc")
    wcn = um.func("WrapperMixin.write_continue")
    dumps = [a for a in ast.walk(wcn) if isinstance(a, ast.Assign) and pyflow.is_name(a.targets[0], "dump")
             and isinstance(a.value, ast.Constant) and a.value.value is True]
    long_arm = [a for a in dumps if any("linelen" in um.seg(t) for t, pol in pyflow.dominating_tests(a, stop=wcn) if pol)]
    okd = len(long_arm) == 1 and any("nparts > 0" == str(um.seg(t)) and pol for t, pol in pyflow.dominating_tests(long_arm[0], stop=wcn))
    run.check(R, "util.WrapperMixin.write_continue:no-empty-continuation", okd,
              "a line is broken because it is too long even when nothing has been put on it yet (no `nparts > 0` test): an "
              "unbreakable user splicer line gets a bare continuation line in front of it, one more on every round trip",
              um.loc(wcn))
    # the declaration's own splicer is the *forced* text (it wins over same-named blocks from files / splicer_code)
    wfi = wf.func("Wrapf.wrap_function_impl")
    reads = [a for a in ast.walk(wfi) if isinstance(a, ast.Assign) and "node.splicer['f']" in wf.seg(a.value)]
    run.check(R, "wrapf.Wrapf.wrap_function_impl:declaration-splicer-is-forced",
              len(reads) == 1 and pyflow.is_name(reads[0].targets[0], "F_force"),
              "the Fortran splicer written on the declaration must be passed to _create_splicer as the forced text (F_force); "
              "stored as the default body it is overridden by a same-named block of a splicer file", wf.loc(wfi))
    wcf = wc.func("Wrapc.wrap_function")
    reads = [a for a in ast.walk(wcf) if isinstance(a, ast.Assign) and "node.splicer[splicer_name]" in wc.seg(a.value)]
    run.check(R, "wrapc.Wrapc.wrap_function:declaration-splicer-is-forced",
              len(reads) == 1 and pyflow.is_name(reads[0].targets[0], "C_force"),
              "the C splicer written on the declaration must be the forced text (C_force)", wc.loc(wcf))
    # a file that holds nothing but user splicer text is still written
    for mod, q in ((wc, "Wrapc.write_impl"), (wc, "Wrapc.write_header")):
        fn = mod.func(q)
        for c in ast.walk(fn):
            if isinstance(c, ast.Call) and (pyflow.call_name(c) or "") == "self._create_splicer":
                par = c._parent
                used = isinstance(par, ast.If) and par.test is c and pat.has(par.body, "write_file = True")
                run.check(R, "%s.%s:_create_splicer(%s)->write_file" % (mod.name, q, pyflow.const_str(c.args[0])), used,
                          "_create_splicer reports whether the user supplied text for this block; the result must switch "
                          "write_file on, otherwise a file whose only content is the user's block is not written", mod.loc(c))
    # a declaration-level splicer forces the wrapper that contains it
    wc = repo.module("wrapc")
    for mod, q in ((wc, "Wrapc.wrap_function"), (wf, "Wrapf.wrap_function_impl")):
        fn = mod.func(q)
        tests = [t for t in ast.walk(fn) if isinstance(t, ast.If) and "node.splicer" in mod.seg(t.test)
                 or isinstance(t, ast.If) and "_force" in mod.seg(t.test) and "is not None" in mod.seg(t.test)]
        forced = False
        for t in tests:
            if "in node.splicer" in mod.seg(t.test) and pat.has(t.body, "need_wrapper = True"):
                forced = True
        reads = any("node.splicer" in mod.seg(x) for x in ast.walk(fn) if isinstance(x, (ast.Subscript, ast.Call, ast.Compare)))
        if reads:
            run.check(R, "%s.%s:declaration-splicer-forces-wrapper" % (mod.name, q), forced,
                      "the declaration's own splicer (YAML `splicer:`) is looked up but does not force need_wrapper: for a "
                      "function that needs no other wrapping the user's code is dropped together with the wrapper",
                      mod.loc(fn))


def rule_r8(repo, run):
    R = run.rule("C12.R8", "a declaration's own splicers reach the emitter that looks them up: every key an emitter reads is "
                           "turned into a list of lines and kept by the function node; replacing the top of the block stack "
                           "is pop followed by push")
    am = repo.module("ast")
    gm = repo.module("generate")
    wc = repo.module("wrapc")
    sm = repo.module("statements")
    # keys the emitters read
    consumed = {}
    for mn, q in (("wrapf", "Wrapf.wrap_function_impl"), ("wrapp", "Wrapp.wrap_function")):
        m = repo.module(mn)
        for x in ast.walk(m.func(q)):
            if isinstance(x, ast.Subscript) and str(m.seg(x.value)) == "node.splicer" and pyflow.const_str(x.slice):
                consumed[pyflow.const_str(x.slice)] = "%s.%s" % (mn, q)
    # the C emitter computes its key from the suffix of the generated variant
    wfun = wc.func("Wrapc.wrap_function")
    comp = pat.find(wfun, "splicer_name = statements.compute_name(['c', generated_suffix])")
    cn = sm.func("compute_name")
    joins = "char.join(work)" in sm.seg(cn) and "if part" in sm.seg(cn)
    if not comp or not joins:
        raise AnalysisError("C12.R8: the C emitter's splicer key (compute_name(['c', generated_suffix])) is no longer recognised")
    suffixes = set([""])
    for a in ast.walk(gm.tree):
        if isinstance(a, ast.Assign) and pyflow.is_name(a.targets[0], "generated_suffix") and pyflow.const_str(a.value) is not None:
            suffixes.add(pyflow.const_str(a.value))
    for sfx in sorted(suffixes):
        consumed["c_" + sfx if sfx else "c"] = "wrapc.Wrapc.wrap_function (generated_suffix %r)" % sfx
    if len(consumed) < 5:
        raise AnalysisError("C12.R8: only %d consumed splicer keys found: %s" % (len(consumed), sorted(consumed)))
    # listified keys
    ad = am.func("add_declarations")
    lists = [c for c in ast.walk(ad) if isinstance(c, ast.Call) and pyflow.is_name(c.func, "listify")
             and "'splicer'" in am.seg(c.args[0]) and len(c.args) == 2 and isinstance(c.args[1], ast.List)]
    if len(lists) != 1:
        raise AnalysisError("C12.R8: listify(dct['splicer'], [...]) of add_declarations not found")
    listed = set(pyflow.const_str(e) for e in lists[0].args[1].elts)
    for key, who in sorted(consumed.items()):
        run.check(R, "ast.add_declarations:splicer-keys[%s]" % key, key in listed,
                  "%s reads node.splicer[%r] but add_declarations only turns %s into lists of lines: the text stays one string "
                  "and is emitted one character per line" % (who, key, sorted(listed)), am.loc(lists[0]))
    # the function node keeps what it is given
    fi = am.func("FunctionNode.__init__")
    whole = pat.find(fi, "self.splicer = kwargs['splicer']")
    kept = None
    if not whole:
        kept = set()
        for c in ast.walk(fi):
            if isinstance(c, ast.Compare) and len(c.ops) == 1 and isinstance(c.ops[0], ast.In) \
                    and isinstance(c.comparators[0], (ast.List, ast.Tuple, ast.Set)) and "splicer" in am.seg(fi):
                vals = [pyflow.const_str(e) for e in c.comparators[0].elts]
                if vals and all(v is not None for v in vals) and set(vals) & set(consumed):
                    kept.update(vals)
    for key, who in sorted(consumed.items()):
        run.check(R, "ast.FunctionNode.__init__:splicer[%s]" % key, whole or (kept is not None and key in kept),
                  "%s reads node.splicer[%r] but FunctionNode.__init__ only keeps %s of the declaration's splicers: the user's "
                  "block is silently replaced by the generated default" % (who, key, sorted(kept or [])), am.loc(fi))
    # two blocks of one emitter function have two names: with one name the reader keeps one text for both, and a user's
    # replacement for the block lands in both places
    nd = 0
    for mn in ("wrapc", "wrapf", "wrapp", "wrapl"):
        m = repo.module(mn)
        for q, fn in sorted(m.functions().items()):
            seen = {}
            for c in ast.walk(fn):
                if isinstance(c, ast.Call) and (pyflow.call_name(c) or "") == "self._create_splicer" and c.args \
                        and pyflow.const_str(c.args[0]) is not None:
                    seen.setdefault(pyflow.const_str(c.args[0]), []).append(c)
            for name_, calls in sorted(seen.items()):
                nd += 1
                if len(calls) == 1:
                    run.ok(R, "%s.%s:block[%s]" % (mn, q, name_))
                    continue
                # the same name is fine on mutually exclusive paths (if / else arms of one test)
                atoms = [pyflow.path_atoms(c, stop=fn, seg=m.seg) for c in calls]
                exclusive = all(any((t, not p) in atoms[j] for t, p in atoms[i]) for i in range(len(calls))
                                for j in range(len(calls)) if i != j)
                run.check(R, "%s.%s:block[%s]" % (mn, q, name_), exclusive,
                          "%d blocks of %s are created under the one name %r (lines %s): the splicer reader keeps a single text "
                          "per name, so the user's code for the block is put into every one of them - bodies of different "
                          "functions" % (len(calls), q, name_, [c.lineno for c in calls]), m.loc(calls[1]))
    run.floor(R, "named blocks with a constant name", nd, 30)
    # a pop always pops: the placeholder level of a namespace is renamed by _update_splicer_top, so the name given to
    # _pop_splicer need not be the name on the stack - a pop that is skipped leaves every later block one level too deep
    um_ = repo.module("util")
    pp = um_.func("WrapperMixin._pop_splicer")
    pops = [c for c in ast.walk(pp) if isinstance(c, ast.Call) and isinstance(c.func, ast.Attribute) and c.func.attr == "pop"
            and "splicer_" in um_.seg(c.func.value)]
    cond = [c for c in pops if pyflow.path_atoms(c, stop=pp, seg=um_.seg) or pyflow.early_exit_guards(pp, c)]
    run.check(R, "util.WrapperMixin._pop_splicer:unconditional", len(pops) == 2 and not cond,
              "_pop_splicer pops the level and its name only under a condition (%s): a pop whose name differs from the stack top "
              "(the renamed namespace placeholder) is skipped and the library-level blocks are looked up under the namespace"
              % [sorted(pyflow.path_atoms(c, stop=pp, seg=um_.seg)) or "after an early return" for c in cond][:1], um_.loc(pp))
    # the emitters that give a namespace file its own block level do so after the child namespaces are done: a child
    # replaces the top level with its own name
    ne = 0
    for mn, q in (("wrapc", "Wrapc.wrap_namespace"), ("wrapp", "Wrapp.wrap_namespace")):
        m = repo.module(mn)
        fn = m.func(q)
        ups = [c for c in ast.walk(fn) if isinstance(c, ast.Call) and (pyflow.call_name(c) or "") == "self._update_splicer_top"
               and "node." in m.seg(c)]
        recs = [c for c in ast.walk(fn) if isinstance(c, ast.Call) and (pyflow.call_name(c) or "") == "self.wrap_namespace"]
        if not ups or not recs:
            raise AnalysisError("C12.R8: %s: own-level rename or recursion not found" % q)
        ne += 1
        run.check(R, "%s.%s:own-level-after-children" % (mn, q), max(c.lineno for c in recs) < min(c.lineno for c in ups),
                  "the namespace's own block level is set before the child namespaces are wrapped: each child renames the top "
                  "level, so the blocks of `outer` are afterwards looked up (and named) as `outer::inner`, and the user's code "
                  "for outer::inner::f is spliced into outer::f", m.loc(ups[0]))
    # _update_splicer_top(name) == _pop_splicer(); _push_splicer(name)
    um = repo.module("util")
    up = um.func("WrapperMixin._update_splicer_top")
    look = pat.find(up, "MV_L = self.splicer_stack[MV_I].setdefault(name, {})")
    store = pat.find(up, "self.splicer_stack[MV_J] = MV_L2")
    ok = len(look) == 1 and len(store) == 1 and look[0][1]["I"] == "-2" and store[0][1]["J"] == "-1" \
        and look[0][1]["L"] == store[0][1]["L2"]
    run.check(R, "util.WrapperMixin._update_splicer_top:parent-level", ok,
              "the replacement level must be looked up in the parent of the top (splicer_stack[-2], what a pop followed by a "
              "push would use) and stored as the new top: looked up below the top itself, every block after a namespace "
              "is searched under the placeholder and the user's code is never found", um.loc(up))


def _line_normalisers(am):
    """module functions of ast.py that turn the text values of a (nested) dictionary into lists of lines: they walk
    `.items()` of their parameter, split text at newlines and replace None items"""
    out = {}
    for q, fn in am.functions().items():
        if "." in q or not fn.args.args:
            continue
        p0 = fn.args.args[0].arg
        walks = any(isinstance(c, ast.Call) and isinstance(c.func, ast.Attribute) and c.func.attr == "items"
                    and pyflow.is_name(c.func.value, p0) for c in ast.walk(fn))
        splits = any(isinstance(c, ast.Call) and isinstance(c.func, ast.Attribute) and c.func.attr == "split" and c.args
                     and pyflow.const_str(c.args[0]) == "\n" for c in ast.walk(fn))
        nones = any(isinstance(c, ast.Compare) and isinstance(c.ops[0], ast.Is) and isinstance(c.comparators[0], ast.Constant)
                    and c.comparators[0].value is None for c in ast.walk(fn))
        if walks and splits and nones:
            out[q] = fn
    return out


def rule_r9(repo, run):
    R = run.rule("C12.R9", "splicer text written in the YAML file reaches the splicer store only through a function that turns it "
                           "into lines (text split at newlines, blank items replaced): the `splicer` group of a declaration and "
                           "the top level `splicer_code` group alike")
    am, mm = repo.module("ast"), repo.module("main")
    norm = _line_normalisers(am)
    if not norm:
        raise AnalysisError("C12.R9: no function of ast.py turns splicer text into lines")
    n = 0
    # the driver: whatever of the input file is merged into `splicers`
    mw = mm.func("main_with_args")
    for c in ast.walk(mw):
        if not (isinstance(c, ast.Call) and (pyflow.call_name(c) or "") in ("util.update", "splicers.update")):
            continue
        args = c.args[1:] if (pyflow.call_name(c) or "") == "util.update" else c.args
        if (pyflow.call_name(c) or "") == "util.update" and not (c.args and pyflow.is_name(c.args[0], "splicers")):
            continue
        for a in args:
            if "allinput" not in str(mm.seg(a)):
                continue
            n += 1
            ok = isinstance(a, ast.Call) and (pyflow.call_name(a) or "").split(".")[-1] in norm
            run.check(R, "main.main_with_args:splicers<-%s" % re.sub(r"\s+", "", str(mm.seg(a)))[:40], ok,
                      "the group is merged into the splicer store as the YAML loader returned it: a block string is later "
                      "written one character per line and a blank list item (None) ends in AttributeError in write_lines",
                      mm.loc(c))
    # a declaration: the value handed to the node is the normalised one
    ad = am.func("add_declarations")
    for a in ast.walk(ad):
        if isinstance(a, ast.Assign) and isinstance(a.targets[0], ast.Subscript) and pyflow.const_str(a.targets[0].slice) == "splicer":
            n += 1
            ok = isinstance(a.value, ast.Call) and (pyflow.call_name(a.value) or "").split(".")[-1] in norm
            run.check(R, "ast.add_declarations:dct[splicer]", ok,
                      "the splicer group of a declaration is stored without being turned into lines", am.loc(a))
    run.floor(R, "entry points of splicer text", n, 2)
    # the last piece of `text.split("\n")` is dropped only when the text ends with a newline (a YAML block scalar does,
    # a one-line value does not)
    k = 0
    for q, fn in sorted(norm.items()):
        for c in ast.walk(fn):
            if not (isinstance(c, ast.Call) and isinstance(c.func, ast.Attribute) and c.func.attr == "split" and c.args
                    and pyflow.const_str(c.args[0]) == "\n"):
                continue
            k += 1
            par = getattr(c, "_parent", None)
            drops = []
            if isinstance(par, ast.Subscript) and isinstance(par.slice, ast.Slice) and par.slice.upper is not None:
                drops.append(par)
            tgt = None
            st = par
            while st is not None and not isinstance(st, ast.stmt):
                st = getattr(st, "_parent", None)
            if isinstance(st, ast.Assign):
                tgt = ast.unparse(st.targets[0])
                for p_ in ast.walk(fn):
                    if isinstance(p_, ast.Call) and isinstance(p_.func, ast.Attribute) and p_.func.attr == "pop" and \
                            ast.unparse(p_.func.value) == tgt and p_.lineno > c.lineno:
                        drops.append(p_)
            for d in drops:
                conds = " ".join(t for t, pol in pyflow.path_atoms(d, stop=fn, seg=ast.unparse) if pol)
                ok = "'\\n'" in conds or "endswith" in conds or "== ''" in conds
                run.check(R, "ast.%s:%s:last-piece" % (q, re.sub(r"\s+", "", ast.unparse(d))[:30]), ok,
                          "`%s` drops the last piece of the split text without having seen that the text ends with a newline: a one-line "
                          "value (`C_definitions: int x;`, or a `|-` block) loses its last line" % ast.unparse(d), am.loc(d))
    run.floor(R, "texts split into lines", k, 2)


def rule_r10(repo, run):
    R = run.rule("C12.R10", "user code is looked up one level below the block that is open (_push_splicer descends from the top "
                            "of the stack, not from the root), and what a wrapper passes as `force` - the contents that replace "
                            "the user's block - is itself user code (a declaration's `splicer` group), never generated text")
    um = repo.module("util")
    ps = um.func("WrapperMixin._push_splicer")
    pushed = [c for c in ast.walk(ps) if isinstance(c, ast.Call) and ast.unparse(c.func) == "self.splicer_stack.append" and c.args]
    if not pushed:
        raise AnalysisError("C12.R10: _push_splicer no longer pushes a level")
    src = pushed[0].args[0]
    text = ast.unparse(src)
    if isinstance(src, ast.Name):
        for a in ast.walk(ps):
            if isinstance(a, ast.Assign) and pyflow.is_name(a.targets[0], src.id):
                text = ast.unparse(a.value)
    run.check(R, "util.WrapperMixin._push_splicer:descends-from-top", "self.splicer_stack[-1]" in text,
              "the level pushed for a nested block is `%s`: it is looked up in another dictionary than the block that is open, so user "
              "code for `class.X.method.m` / `namespace.N.*` is searched at the wrong place and the generated default is written" % text,
              um.loc(pushed[0]))
    n = 0
    for mn in ("wrapc", "wrapf", "wrapp", "wrapl", "util"):
        m = repo.module(mn)
        for q, fn in sorted(m.functions().items()):
            for c in ast.walk(fn):
                if not (isinstance(c, ast.Call) and (pyflow.call_name(c) or "") == "self._create_splicer"):
                    continue
                force = None
                for k in c.keywords:
                    if k.arg == "force":
                        force = k.value
                if force is None and len(c.args) >= 4:
                    force = c.args[3]
                if force is None or (isinstance(force, ast.Constant) and force.value is None):
                    continue
                n += 1
                ok = False

                def user_sourced(f_, name, depth=0):
                    binds = [a for a in ast.walk(f_) if isinstance(a, ast.Assign) and any(pyflow.is_name(t, name) for t in a.targets)]
                    if binds:
                        return all((isinstance(a.value, ast.Constant) and a.value.value is None) or ".splicer" in ast.unparse(a.value)
                                   for a in binds)
                    params = [a.arg for a in f_.args.args]
                    if name in params and depth < 2:
                        idx = params.index(name) - (1 if params and params[0] == "self" else 0)
                        sites = []
                        for q2, f2 in m.functions().items():
                            for c2 in ast.walk(f2):
                                if isinstance(c2, ast.Call) and isinstance(c2.func, ast.Attribute) and c2.func.attr == f_.name:
                                    arg = None
                                    for k2 in c2.keywords:
                                        if k2.arg == name:
                                            arg = k2.value
                                    if arg is None and idx < len(c2.args):
                                        arg = c2.args[idx]
                                    sites.append((f2, arg))
                        return bool(sites) and all(a is not None and ((isinstance(a, ast.Constant) and a.value is None) or
                                                   (isinstance(a, ast.Name) and user_sourced(f2, a.id, depth + 1)) or
                                                   ".splicer" in ast.unparse(a)) for f2, a in sites)
                    return False
                if isinstance(force, ast.Name):
                    ok = user_sourced(fn, force.id)
                elif ".splicer" in ast.unparse(force):
                    ok = True
                run.check(R, "%s.%s:_create_splicer(%s):force" % (mn, q, re.sub(r"\s+", "", ast.unparse(c.args[0]))[:30] if c.args else "?"), ok,
                          "`force=%s` replaces whatever the user supplied for this block, and it is not taken from a declaration's "
                          "`splicer` group: generated text passed in this slot silently discards the user's code (it belongs in "
                          "`default`)" % ast.unparse(force), m.loc(c))
    run.floor(R, "blocks with forced contents", n, 2)



def rule_r11(repo, run):
    R = run.rule("C12.R11", "a block is found again by its name: the names of the per-function blocks are the wrapper names, "
                            "so two wrappers never share a block (C08.R2: the name templates keep every distinguishing field; "
                            "C08.R9: an overload keeps its suffix in the Python wrapper)")
    from checks import c08
    from sa.report import import_rules
    import_rules(run, R, c08, repo, {"C08.R2"}, only=lambda c: "name" in c.lower())
    import_rules(run, R, c08, repo, {"C08.R9"}, only=lambda c: "suffix" in c)


def run(repo, run, tier):
    rule_r1(repo, run)
    rule_r2(repo, run)
    rule_r3(repo, run)
    rule_r4(repo, run)
    rule_r5(repo, run)
    rule_r6(repo, run)
    rule_r6b(repo, run)
    rule_r7(repo, run)
    rule_r8(repo, run)
    rule_r9(repo, run)
    rule_r10(repo, run)
    rule_r11(repo, run)
