#!/usr/bin/env python3
"""Record, per function of /repo/shroud/*.py, the ordered list of local names it binds (sa/names.json).
The loader uses the record to map a *renamed* local back to the name the rules were written against
(see sa/loader.py: canonical_locals).  Re-run after a change of /repo that is meant to stay (fix commits)."""
import ast, glob, json, os, sys
HERE = os.path.dirname(os.path.dirname(os.path.abspath(__file__)))
sys.path.insert(0, HERE)
from sa.loader import bound_names, _qualified_functions
out = {}
for path in sorted(glob.glob("/repo/shroud/*.py")):
    mod = os.path.basename(path)[:-3]
    tree = ast.parse(open(path).read())
    out[mod] = {q: bound_names(fn) for q, fn in _qualified_functions(tree)}
json.dump(out, open(os.path.join(HERE, "sa", "names.json"), "w"), indent=0, sort_keys=True)
print("functions recorded:", sum(len(v) for v in out.values()))
