"""Repository-wide lints of general form, shared by several property checks.  Each returns a list of
(module name, qualified function, node, message) for the constructs it objects to, plus the number of
sites it looked at, so that callers can set floors."""
import ast

from . import pyflow

# parsed values for which "absent" (None) and "empty / zero" are different things
OPTIONAL_FIELDS = {
    "init": "a default value of 0 / 0.0 / '' is a default value",
    "params": "an empty parameter list `()` is a parameter list (a function), None means no parentheses",
    "args": "an empty argument list `f()` is a call, None means a plain name",
}


def truthiness_of_optional(repo, modules, fields=None):
    """`if x.init:` / `if not x.params:` where the field distinguishes None from empty."""
    out, n = [], 0
    for mn in modules:
        m = repo.module(mn)
        for q, fn in m.functions().items():
            for node in ast.walk(fn):
                if not isinstance(node, (ast.If, ast.While, ast.IfExp)):
                    continue
                t = node.test
                for c in (t.values if isinstance(t, ast.BoolOp) else [t]):
                    neg = False
                    if isinstance(c, ast.UnaryOp) and isinstance(c.op, ast.Not):
                        c, neg = c.operand, True
                    if isinstance(c, ast.Attribute) and c.attr in OPTIONAL_FIELDS and (fields is None or c.attr in fields):
                        n += 1
                        # allowed: inside a block already guarded by `<same> is not None` (then emptiness is the question)
                        text = ast.unparse(c)
                        guarded = any(ast.unparse(tt) == text + " is not None" and pol
                                      for tt, pol in pyflow.dominating_tests(node, stop=fn))
                        # allowed: conjunction with another discriminating test on the same object (size(...) and node.args)
                        conj = isinstance(t, ast.BoolOp) and isinstance(t.op, ast.And) and len(t.values) > 1 and not neg
                        if not guarded and not conj:
                            out.append((mn, q, node, "`%s%s` tests truthiness of %s: %s" % ("not " if neg else "", text, c.attr,
                                                                                              OPTIONAL_FIELDS[c.attr])))
    return out, n


def loop_variable_after_loop(repo, modules):
    """A for-loop target read after the loop in the same block (it holds the *last* element only)."""
    out, n = [], 0
    for mn in modules:
        m = repo.module(mn)
        for q, fn in m.functions().items():
            for owner in ast.walk(fn):
                for fld in ("body", "orelse", "finalbody"):
                    blk = getattr(owner, fld, None)
                    if not (isinstance(blk, list) and blk and isinstance(blk[0], ast.stmt)):
                        continue
                    for i, st in enumerate(blk):
                        if not isinstance(st, ast.For):
                            continue
                        n += 1
                        live = set(x.id for x in ast.walk(st.target) if isinstance(x, ast.Name))
                        for later in blk[i + 1:]:
                            stores = set(x.id for x in ast.walk(later) if isinstance(x, ast.Name) and isinstance(x.ctx, ast.Store))
                            for x in ast.walk(later):
                                if isinstance(x, ast.Name) and isinstance(x.ctx, ast.Load) and x.id in live and x.id not in stores:
                                    out.append((mn, q, x, "`%s` is the target of the loop at line %d and is read after the loop: "
                                                "only the last element is processed" % (x.id, st.lineno)))
                                    live = live - {x.id}
                            live = live - stores
    return out, n


def library_options_in_node_pass(repo, modules):
    """`options = self.newlibrary.options` in a function that works on one declaration."""
    out, n = [], 0
    for mn in modules:
        m = repo.module(mn)
        for q, fn in m.functions().items():
            params = [a.arg for a in fn.args.args]
            if not any(p in params for p in ("node", "cls", "function", "method", "var")):
                continue
            for a in ast.walk(fn):
                if isinstance(a, ast.Assign) and pyflow.is_name(a.targets[0], "options"):
                    n += 1
                    if "newlibrary.options" in ast.unparse(a.value) or "library.options" in ast.unparse(a.value):
                        out.append((mn, q, a, "`%s` in a pass over one declaration: options set on the declaration or its "
                                    "containers are ignored (only the library level counts)" % ast.unparse(a)))
    return out, n


def rebound_parameter_in_loop(repo, modname, qual, param):
    """parameter `param` of modname.qual assigned inside a loop of that function"""
    m = repo.module(modname)
    fn = m.func(qual)
    out = []
    for lp in ast.walk(fn):
        if isinstance(lp, (ast.For, ast.While)):
            for a in ast.walk(lp):
                if isinstance(a, (ast.Assign, ast.AugAssign)):
                    for t in (a.targets if isinstance(a, ast.Assign) else [a.target]):
                        if pyflow.is_name(t, param):
                            out.append((modname, qual, a, "parameter `%s` is rebound inside the loop: the following iterations "
                                        "(siblings) see the new value" % param))
    return out


def degenerate_dict_key(repo, modules):
    """`d[E]` / `E in d` where a dominating test pins E to a constant (`if E == "template":`): every entry
    shares one key, so a cache keyed that way returns the first value for everything."""
    out, n = [], 0
    for mn in modules:
        m = repo.module(mn)
        for q, fn in m.functions().items():
            for node in ast.walk(fn):
                key = None
                if isinstance(node, ast.Subscript) and not isinstance(node.slice, (ast.Constant, ast.Slice)):
                    key = node.slice
                elif isinstance(node, ast.Compare) and len(node.ops) == 1 and isinstance(node.ops[0], (ast.In, ast.NotIn)) \
                        and not isinstance(node.left, ast.Constant):
                    key = node.left
                if key is None or isinstance(key, ast.Name):
                    continue
                n += 1
                kt = ast.unparse(key)
                for t, pol in pyflow.dominating_tests(node, stop=fn):
                    if pol and isinstance(t, ast.Compare) and len(t.ops) == 1 and isinstance(t.ops[0], ast.Eq) \
                            and ast.unparse(t.left) == kt and isinstance(t.comparators[0], ast.Constant):
                        out.append((mn, q, node, "the key `%s` is known to equal %r here (guard `%s`): all entries collapse onto "
                                    "one key" % (kt, t.comparators[0].value, ast.unparse(t))))
                        break
    return out, n


def aliased_then_mutated(repo, modname, qual):
    """`a = x.attr` (no copy) followed by a store through `a` (a.f = .. / a.d[k] = ..): the original is changed."""
    m = repo.module(modname)
    fn = m.func(qual)
    out = []
    for asg in ast.walk(fn):
        if isinstance(asg, ast.Assign) and isinstance(asg.targets[0], ast.Name) and isinstance(asg.value, ast.Attribute):
            a = asg.targets[0].id
            for st in ast.walk(fn):
                if isinstance(st, ast.Assign) and st.lineno > asg.lineno:
                    for t in st.targets:
                        base = t
                        while isinstance(base, (ast.Attribute, ast.Subscript)):
                            base = base.value
                        if isinstance(t, (ast.Attribute, ast.Subscript)) and isinstance(base, ast.Name) and base.id == a:
                            out.append((modname, qual, st, "`%s` is bound to `%s` without a copy and then written through (`%s`): the "
                                        "object it came from is modified" % (a, ast.unparse(asg.value), ast.unparse(st)[:50])))
    return out


LIBRARY_LEVEL_OPTIONS = {
    "literalinclude2": "documented as a library-level option (C16: 'library-level literalinclude2 excluded')",
    "PY_write_helper_in_util": "one utility file per library: a per-declaration value has no meaning",
}


def library_option_reads(repo, modules):
    """`<library>.options.X` read in a function that works on one declaration (has a node/cls/... parameter)"""
    out, n = [], 0
    for mn in modules:
        m = repo.module(mn)
        for q, fn in m.functions().items():
            params = [a.arg for a in fn.args.args]
            if not any(p in params for p in ("node", "cls", "function", "method", "var")):
                continue
            for x in ast.walk(fn):
                if isinstance(x, ast.Attribute) and isinstance(x.value, ast.Attribute) and x.value.attr == "options":
                    d = pyflow.dotted(x.value.value) or ""
                    if d.endswith("newlibrary") or d in ("libnode", "library"):
                        n += 1
                        if x.attr not in LIBRARY_LEVEL_OPTIONS:
                            out.append((mn, q, x, "`%s` reads the option at library level inside a pass over one declaration: "
                                        "the same option set on the declaration (or its class/namespace) is ignored"
                                        % (pyflow.dotted(x) or x.attr)))
    return out, n


def dead_none_tests(repo, modules):
    """`x.F is None` / `is not None` where F is a field that Declaration.__init__ creates as a list and nothing ever
    sets to None: the test is constant, so a check guarded by it never runs (use `not x.F`)."""
    dm = repo.module("declast")
    ini = dm.func("Declaration.__init__")
    lists = set(a.targets[0].attr for a in ast.walk(ini) if isinstance(a, ast.Assign)
                and isinstance(a.targets[0], ast.Attribute) and isinstance(a.value, ast.List))
    for m in repo.modules():
        for a in ast.walk(m.tree):
            if isinstance(a, ast.Assign) and isinstance(a.targets[0], ast.Attribute) and a.targets[0].attr in lists \
                    and isinstance(a.value, ast.Constant) and a.value.value is None:
                lists.discard(a.targets[0].attr)
    out, n = [], 0
    for mn in modules:
        m = repo.module(mn)
        for q, fn in m.functions().items():
            for c in ast.walk(fn):
                if isinstance(c, ast.Compare) and len(c.ops) == 1 and isinstance(c.ops[0], (ast.Is, ast.IsNot)) \
                        and isinstance(c.comparators[0], ast.Constant) and c.comparators[0].value is None:
                    n += 1
                    src = c.left
                    # follow one local alias:  temp = arg.template_arguments ; if temp is None
                    if isinstance(src, ast.Name):
                        defs = [a.value for a in ast.walk(fn) if isinstance(a, ast.Assign) and pyflow.is_name(a.targets[0], src.id)]
                        if len(defs) == 1:
                            src = defs[0]
                    if isinstance(src, ast.Attribute) and src.attr in lists:
                        out.append((mn, q, c, "`%s` can never hold: %s is always a list (possibly empty); the check it guards "
                                    "is dead" % (ast.unparse(c), src.attr)))
    return out, n, lists
