#!/usr/bin/env python3
"""Development aid: rewrite seeded/<prop>/<k>/patch.diff so that it applies to /repo's current HEAD
(`git -C /repo apply <file>`), after "fix:" commits moved the lines it touches.  The patch is applied to
the commit it was made against (meta.json base_commit, default: the commit before the first later fix),
committed in a scratch worktree and cherry-picked onto HEAD; conflicts are reported for manual repair."""
import glob, json, os, shutil, subprocess, sys, tempfile
HERE = os.path.dirname(os.path.dirname(os.path.abspath(__file__)))

def sh(*a, **k):
    return subprocess.run(a, capture_output=True, text=True, **k)

def main():
    for patch in sorted(glob.glob(os.path.join(HERE, "seeded", "C??", "*", "patch.diff"))):
        if sh("git", "-C", "/repo", "apply", "--check", patch).returncode == 0:
            continue
        prop, k = patch.split(os.sep)[-3:-1]
        done = False
        for base in subprocess.check_output(["git", "-C", "/repo", "log", "--format=%H", "-40"]).decode().split()[1:]:
            tmp = tempfile.mkdtemp(prefix="refresh.")
            wt = os.path.join(tmp, "wt")
            try:
                sh("git", "-C", "/repo", "worktree", "add", "--detach", "-q", wt, base)
                if sh("git", "-C", wt, "apply", patch).returncode != 0:
                    continue
                sh("git", "-C", wt, "-c", "user.name=x", "-c", "user.email=x@x", "commit", "-qam", "seed")
                seed = subprocess.check_output(["git", "-C", wt, "rev-parse", "HEAD"]).decode().strip()
                sh("git", "-C", wt, "checkout", "-q", "--detach", subprocess.check_output(["git", "-C", "/repo", "rev-parse", "HEAD"]).decode().strip())
                r = sh("git", "-C", wt, "-c", "user.name=x", "-c", "user.email=x@x", "cherry-pick", "--no-commit", seed)
                if r.returncode != 0:
                    print(prop, k, "CONFLICT rebasing from", base[:7]); print(sh("git", "-C", wt, "diff").stdout[:1500])
                    done = True
                    break
                new = sh("git", "-C", wt, "diff", "HEAD").stdout
                open(patch, "w").write(new)
                print(prop, k, "refreshed from base", base[:7])
                done = True
                break
            finally:
                sh("git", "-C", "/repo", "worktree", "remove", "--force", wt)
                shutil.rmtree(tmp, ignore_errors=True)
        if not done:
            print(prop, k, "NO BASE FOUND")
    sh("git", "-C", "/repo", "worktree", "prune")

if __name__ == "__main__":
    main()
