#!/usr/bin/env python3
"""Development aid: behaviour-preserving whole-tree transformations of /repo's
sources (as in-memory overlays) that every check must survive without a new
violation and without ANALYSIS-ERROR:

  unparse   every module re-printed by ast.unparse (layout, quoting, parentheses,
            comments and line numbers all change; string concatenations are folded)
  shift     40 blank lines inserted after the module docstring/imports (line numbers)

usage: tools/robust.py [unparse|shift] [C07 ...]
"""
import ast
import glob
import os
import sys
from multiprocessing import Pool

HERE = os.path.dirname(os.path.dirname(os.path.abspath(__file__)))
sys.path.insert(0, HERE)
sys.dont_write_bytecode = True
from sa.loader import AnalysisError  # noqa: E402
from selftest.harness import _violations  # noqa: E402

REPO = os.environ.get("VERIF_REPO", "/repo")
ALL = ["C%02d" % i for i in range(1, 19)]


class _Rename(ast.NodeTransformer):
    """alpha-rename the locals of every function (parameters other than self/cls included)"""

    def visit_FunctionDef(self, node):
        if any(isinstance(c, ast.Call) and isinstance(c.func, ast.Name) and c.func.id in ("locals", "vars", "eval", "exec")
               for c in ast.walk(node)):
            return node                 # introspects its own names: renaming would change behaviour
        names = set()
        glob = set()
        for n in ast.walk(node):
            if isinstance(n, (ast.Global, ast.Nonlocal)):
                glob.update(n.names)
        for n in ast.walk(node):
            if isinstance(n, ast.Name) and isinstance(n.ctx, (ast.Store, ast.Del)):
                names.add(n.id)
            elif isinstance(n, ast.ExceptHandler) and n.name:
                names.add(n.name)
        # parameters keep their names (callers may pass them by keyword)
        allargs = node.args.posonlyargs + node.args.args + node.args.kwonlyargs
        params = set(a.arg for a in allargs)
        if node.args.vararg:
            params.add(node.args.vararg.arg)
        if node.args.kwarg:
            params.add(node.args.kwarg.arg)
        names -= params | glob
        # nested function names and imported names are left alone
        for n in ast.walk(node):
            if isinstance(n, (ast.FunctionDef, ast.ClassDef)) and n is not node:
                names.discard(n.name)
        # a nested function that binds one of the names itself (parameter or assignment) has its own variable of
        # that name: leave those names alone altogether
        for n in ast.walk(node):
            if isinstance(n, (ast.FunctionDef, ast.Lambda)) and n is not node:
                a = n.args
                inner = set(x.arg for x in a.posonlyargs + a.args + a.kwonlyargs)
                if a.vararg:
                    inner.add(a.vararg.arg)
                if a.kwarg:
                    inner.add(a.kwarg.arg)
                if isinstance(n, ast.FunctionDef):
                    for m in ast.walk(n):
                        if isinstance(m, ast.Name) and isinstance(m.ctx, (ast.Store, ast.Del)):
                            inner.add(m.id)
                names -= inner
        mapping = {x: x + "_rn" for x in names}
        for n in ast.walk(node):
            if isinstance(n, ast.Name) and n.id in mapping:
                n.id = mapping[n.id]
            elif isinstance(n, ast.ExceptHandler) and n.name in mapping:
                n.name = mapping[n.name]
        return node


class _DictLit(ast.NodeTransformer):
    """dict(a=1, b=2) -> {"a": 1, "b": 2}"""

    def visit_Call(self, node):
        self.generic_visit(node)
        if isinstance(node.func, ast.Name) and node.func.id == "dict" and not node.args and node.keywords \
                and all(k.arg for k in node.keywords):
            return ast.copy_location(ast.Dict(keys=[ast.Constant(k.arg) for k in node.keywords],
                                              values=[k.value for k in node.keywords]), node)
        return node


class _IfInvert(ast.NodeTransformer):
    """if c: A else: B  ->  if not c: B else: A   (only plain if/else with non-empty else that is not an elif)"""

    def visit_If(self, node):
        self.generic_visit(node)
        if node.orelse and not (len(node.orelse) == 1 and isinstance(node.orelse[0], ast.If)) and \
                isinstance(node.test, ast.Name):
            node.test = ast.UnaryOp(op=ast.Not(), operand=node.test)
            node.body, node.orelse = node.orelse, node.body
        return node


def overlay(kind):
    ov = {}
    for path in sorted(glob.glob(os.path.join(REPO, "shroud", "*.py"))):
        rel = os.path.relpath(path, REPO)
        text = open(path).read()
        if kind == "unparse":
            ov[rel] = ast.unparse(ast.parse(text)) + "\n"
        elif kind == "rename":
            tree = ast.parse(text)
            _Rename().visit(tree)
            ov[rel] = ast.unparse(tree) + "\n"
        elif kind in ("dictlit", "ifinvert"):
            tree = ast.parse(text)
            ({"dictlit": _DictLit, "ifinvert": _IfInvert}[kind])().visit(tree)
            ast.fix_missing_locations(tree)
            ov[rel] = ast.unparse(tree) + "\n"
        elif kind == "shift":
            lines = text.split("\n")
            k = 0
            for i, l in enumerate(lines):
                if l.startswith(("import ", "from ")):
                    k = i + 1
            ov[rel] = "\n".join(lines[:k] + [""] * 40 + lines[k:])
    return ov


def job(args):
    prop, ov = args
    try:
        got, _ = _violations(prop, REPO, ov)
        return prop, sorted(got), None
    except AnalysisError as e:
        return prop, [], "ANALYSIS-ERROR: %s" % e
    except Exception as e:
        return prop, [], "CRASH: %r" % e


def main(argv):
    kinds = [a for a in argv if a in ("unparse", "shift", "rename", "dictlit", "ifinvert")] or ["unparse", "shift", "rename"]
    props = [a.upper() for a in argv if a.upper() in ALL] or ALL
    with Pool(16) as pool:
        base = {p: set(map(tuple, g)) for p, g, e in pool.map(job, [(p, None) for p in props])}
        for kind in kinds:
            ov = overlay(kind)
            for p, got, err in pool.map(job, [(p, ov) for p in props]):
                new = sorted(set(map(tuple, got)) - base[p])
                gone = sorted(base[p] - set(map(tuple, got)))
                status = "ok" if not new and not err and not gone else "DIFFERS"
                print("%-8s %s %s" % (kind, p, status))
                for r, c in new[:8]:
                    print("      + %s %s" % (r, c))
                for r, c in gone[:4]:
                    print("      - %s %s" % (r, c))
                if err:
                    print("      ! %s" % err)


if __name__ == "__main__":
    main(sys.argv[1:])
