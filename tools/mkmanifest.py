#!/usr/bin/env python3
"""Regenerate /verif/MANIFEST.json from the table below (kept next to the
checks so that claimed properties and not_applicable stay in sync)."""
import json
import os

HERE = os.path.dirname(os.path.dirname(os.path.abspath(__file__)))

BASELINE = ("cd /repo && /venv/bin/python -m pytest -ra -q -p no:cacheprovider --timeout=900 "
            "--continue-on-collection-errors")

# property -> (technique, level text, level note, design ref)
CLAIMED = {}
NOT_APPLICABLE = {}


def claim(pid, technique, text, note, ref):
    CLAIMED[pid] = (technique, text, note, ref)


def na(pid, reason):
    NOT_APPLICABLE[pid] = reason


exec(open(os.path.join(HERE, "tools", "claims.py")).read())


def _rules_of(pid):
    """rule titles as recorded by the last run of the check (evidence is written by ./check)"""
    import re
    try:
        ev = json.load(open(os.path.join(HERE, "evidence", "%s.json" % pid)))
        rules = ev["coverage"]["rules"]
    except (IOError, KeyError, ValueError):
        return ""
    keys = sorted(rules, key=lambda k: int(re.sub(r"\D", "", k.split(".")[-1]) or 0))
    return " Rules: " + "; ".join("%s %s" % (k.split(".")[-1], rules[k]["text"]) for k in keys) + "."


def main():
    checks = []
    for pid in sorted(CLAIMED):
        technique, text, note, ref = CLAIMED[pid]
        checks.append(dict(
            property_id=pid,
            quick_cmd="./check %s --tier quick" % pid,
            thorough_cmd="./check %s --tier thorough" % pid,
            evidence_file="/verif/evidence/%s.json" % pid,
            replay_cmd_template="./check %s --replay {path}" % pid,
            engine="sa",
            level_claimed=dict(category="other", text=text + _rules_of(pid) + " The rules applied in a run, with their instance counts and "
                               "floors, are listed in evidence coverage.rules; rules whose subject this property shares "
                               "with a sibling property are imported from that property's check (DESIGN.md section 9.4); "
                               "general lints come from sa/lints.py.", design_ref=ref),
            level_note=note,
            technique=technique,
        ))
    manifest = dict(
        version=1,
        setup_cmd="python3 -c \"import ast, json, re; print('stdlib only: nothing to build')\"",
        hooks=dict(
            guard="VSOCH_SHROUD_VERIF",
            enable="none needed: the checks parse /repo's sources and never execute them",
            baseline_off_cmd=BASELINE,
            source_commits=[],
            add_only=True,
        ),
        engines=[dict(
            name="sa",
            path="/verif/sa",
            serves_properties=sorted(CLAIMED),
            kind_free_text="custom static analysis over Python ast: canonical (ast.unparse, recorded local names) program "
                           "text, structural patterns with metavariables, table evaluator, statement/type/helper table "
                           "models with lookup-closure enumeration, decision-table extraction, template lexers, "
                           "syntax-directed flow walker with path feasibility, general lints, clang JSON AST bounds "
                           "prover (linear forms + Fourier-Motzkin) for embedded C helpers",
        )],
        checks=checks,
        notes="Static analysis only: nothing of /repo is imported or executed. Exit 0 ok / 1 VIOLATION / 2 ANALYSIS-ERROR "
              "(anchor vanished, model out of date, instance count below its floor, self-test failed). Known findings and "
              "the record of fix commits in /verif/known_findings.json. The quick tier runs every rule (lookup closures "
              "included); the thorough tier adds the checker self-test: hand-written in-memory variants of the current "
              "/repo source plus the sub-agent seeded changes under /verif/seeded, each of which must be reported (or stay "
              "silent, or stop with ANALYSIS-ERROR) as declared. tools/ holds development aids that no check depends on.",
        not_applicable=[dict(property_id=p, reason=r) for p, r in sorted(NOT_APPLICABLE.items())],
    )
    with open(os.path.join(HERE, "MANIFEST.json"), "w") as fp:
        json.dump(manifest, fp, indent=1)
        fp.write("\n")


if __name__ == "__main__":
    main()
