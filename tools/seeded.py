#!/usr/bin/env python3
"""Run every check against the seeded changes kept under /verif/seeded/.

  python3 tools/seeded.py [C07 ...] [--write]

Each /verif/seeded/<prop>/<k>/patch.diff is applied to a scratch worktree of
/repo's HEAD under $TMPDIR (removed afterwards); the files it changes are
then analysed as an in-memory overlay on /repo (same mechanism as the
self-test), for all 18 properties.  Output: which (property, rule, construct)
violations are NEW compared with the unchanged tree.  --write stores the
table as /verif/seeded/RESULTS.json (a development record, not evidence).
"""
import glob
import json
import os
import shutil
import subprocess
import sys
import tempfile
from multiprocessing import Pool

HERE = os.path.dirname(os.path.dirname(os.path.abspath(__file__)))
sys.path.insert(0, HERE)
sys.dont_write_bytecode = True

from sa.loader import AnalysisError  # noqa: E402
from selftest.harness import _violations  # noqa: E402

ALL = ["C%02d" % i for i in range(1, 19)]
REPO = os.environ.get("VERIF_REPO", "/repo")


def overlay_of(patch):
    tmp = tempfile.mkdtemp(prefix="seedrun.")
    wt = os.path.join(tmp, "wt")
    try:
        subprocess.check_call(["git", "-C", REPO, "worktree", "add", "--detach", "-q", wt, "HEAD"])
        for extra in ([], ["-C1"], ["-C0", "--unidiff-zero"]):
            r = subprocess.run(["git", "-C", wt, "apply"] + extra + [os.path.abspath(patch)], capture_output=True)
            if r.returncode == 0:
                break
        else:
            raise RuntimeError("patch does not apply to /repo HEAD: %s" % patch)
        names = subprocess.check_output(["git", "-C", wt, "diff", "--name-only"]).decode().split()
        ov = {}
        for n in names:
            with open(os.path.join(wt, n)) as fp:
                ov[n] = fp.read()
        return ov
    finally:
        subprocess.call(["git", "-C", REPO, "worktree", "remove", "--force", wt])
        shutil.rmtree(tmp, ignore_errors=True)


def _job(args):
    prop, overlay = args
    try:
        got, _ = _violations(prop, REPO, overlay)
        return prop, sorted(got), None
    except AnalysisError as e:
        return prop, [], "ANALYSIS-ERROR: %s" % e
    except Exception as e:  # a crash of the checker on a seeded tree is a defect of the checker
        return prop, [], "CRASH: %r" % e


def _job2(args):
    patch, prop, overlay = args
    return _job((prop, overlay))


def main(argv):
    write = "--write" in argv
    want = [a.upper() for a in argv if not a.startswith("--")]
    patches = sorted(glob.glob(os.path.join(HERE, "seeded", "C??", "*", "patch.diff")))
    if want:
        patches = [p for p in patches if p.split(os.sep)[-3] in want]
    mink = int(os.environ.get("SEED_MINK", "0"))   # only the patches of later rounds
    if mink:
        patches = [p for p in patches if int(p.split(os.sep)[-2]) >= mink]
    overlays = {}
    for patch in patches:
        overlays[patch] = overlay_of(patch)
    with Pool(16) as pool:
        base = {p: set(map(tuple, v)) for p, v, _ in pool.map(_job, [(p, None) for p in ALL])}
        jobs = [(patch, p) for patch in patches for p in ALL]
        outs = pool.map(_job2, [(patch, p, overlays[patch]) for patch, p in jobs], chunksize=4)
    results = {}
    by = {}
    for (patch, p), (pp, got, err) in zip(jobs, outs):
        by.setdefault(patch, []).append((pp, got, err))
    for patch in patches:
        prop, k = patch.split(os.sep)[-3:-1]
        ov = overlays[patch]
        row = {"files": sorted(ov), "new": {}, "errors": {}}
        for p, got, err in by[patch]:
            new = sorted(set(map(tuple, got)) - base[p])
            if new:
                row["new"][p] = ["%s %s" % rc for rc in new]
            if err:
                row["errors"][p] = err
        row["caught_by_own_property"] = prop in row["new"]
        results["%s/%s" % (prop, k)] = row
        print("%s/%s  own=%s  %s%s" % (
            prop, k, "CAUGHT" if prop in row["new"] else ("ERROR" if prop in row["errors"] else "missed"),
            {p: len(v) for p, v in row["new"].items()},
            ("  errors=%s" % row["errors"]) if row["errors"] else ""))
        for p, v in sorted(row["new"].items()):
            for line in v[:4]:
                print("      %s %s" % (p, line))
    # a patch taken in as "pending" stops being pending once the check of its own property reports it
    for key, row in results.items():
        mp = os.path.join(HERE, "seeded", key, "meta.json")
        if row["caught_by_own_property"] and os.path.exists(mp):
            meta = json.load(open(mp))
            if meta.pop("pending", None):
                json.dump(meta, open(mp, "w"), indent=1)
    if write:
        if mink or want:
            try:
                old = json.load(open(os.path.join(HERE, "seeded", "RESULTS.json")))
            except (IOError, ValueError):
                old = {}
            old.update(results)
            results = old
        with open(os.path.join(HERE, "seeded", "RESULTS.json"), "w") as fp:
            json.dump(results, fp, indent=1, sort_keys=True)
    return 0


if __name__ == "__main__":
    sys.exit(main(sys.argv[1:]))
