"""Structural patterns over the Python AST with metavariables.

A pattern is Python source.  In it

  MV_X        (as a name)            matches any expression; every MV_X in one
                                     pattern must match the same expression
                                     (compared by ast.unparse)
  obj.MV_X / f(MV_X=...)             matches any attribute / keyword name
  MV_                                 anonymous: matches anything, binds nothing
  ...         (as an expression)      matches any expression; inside an argument
                                     list (where it also covers keyword arguments), a tuple/list display or a statement
                                     block it matches any run of elements
  a block     with several statements matches a block that contains matching
                                     statements in that order (other
                                     statements may stand between them)
  an `if` pattern without else        does not constrain the else branch

Everything else must agree node for node, so a pattern is insensitive to
layout, quoting, parenthesisation, comments and - through metavariables - to
the names of locals, while still pinning down the data flow it describes.
"""
import ast
import re

_MV = re.compile(r"^MV_([A-Za-z0-9]*)$")
_SKIP = {"ctx", "lineno", "col_offset", "end_lineno", "end_col_offset", "type_comment", "type_ignores", "kind"}
_cache = {}


def parse(pattern):
    """-> ("expr", node) | ("stmt", node) | ("block", [stmts])"""
    got = _cache.get(pattern)
    if got is not None:
        return got
    src = pattern.strip("\n")
    # dedent
    lines = src.split("\n")
    ind = min((len(l) - len(l.lstrip()) for l in lines if l.strip()), default=0)
    src = "\n".join(l[ind:] for l in lines)
    try:
        node = ast.parse(src, mode="eval").body
        got = ("expr", node)
    except SyntaxError:
        body = ast.parse(src).body
        got = ("stmt", body[0]) if len(body) == 1 else ("block", body)
    _cache[pattern] = got
    return got


def _is_ellipsis(p):
    if isinstance(p, ast.Expr):
        p = p.value
    return isinstance(p, ast.Constant) and p.value is Ellipsis


def _bind(env, key, text):
    if key == "":
        return True
    if key in env:
        return env[key] == text
    env[key] = text
    return True


def _ident(p, n, env):
    """identifier slots (attr, arg, keyword name, def name)"""
    if isinstance(p, str):
        m = _MV.match(p)
        if m:
            return isinstance(n, str) and _bind(env, m.group(1), n)
    return p == n


def _seq(ps, ns, env, block):
    """match pattern list against node list; `...` = any run; in a block,
    gaps are allowed between pattern statements."""
    if not ps:
        return True if block else not ns
    p = ps[0]
    if _is_ellipsis(p):
        if len(ps) == 1:
            return True
        for k in range(len(ns) + 1):
            e = dict(env)
            if _seq(ps[1:], ns[k:], e, block):
                env.clear(); env.update(e)
                return True
        return False
    if block:
        for k in range(len(ns)):
            e = dict(env)
            if match(p, ns[k], e) and _seq(ps[1:], ns[k + 1:], e, block):
                env.clear(); env.update(e)
                return True
        return False
    if not ns:
        return False
    e = dict(env)
    if match(p, ns[0], e) and _seq(ps[1:], ns[1:], e, block):
        env.clear(); env.update(e)
        return True
    return False


def match(p, n, env):
    if isinstance(p, ast.Name):
        m = _MV.match(p.id)
        if m:
            if not isinstance(n, ast.expr):
                return False
            return _bind(env, m.group(1), ast.unparse(n))
    if _is_ellipsis(p) and isinstance(p, ast.expr):
        return isinstance(n, ast.expr)
    if isinstance(p, ast.Expr) and _is_ellipsis(p):
        return isinstance(n, ast.stmt)
    if type(p) is not type(n):
        return False
    if isinstance(p, ast.Constant):
        return type(p.value) is type(n.value) and p.value == n.value
    for field in p._fields:
        if field in _SKIP:
            continue
        pv, nv = getattr(p, field, None), getattr(n, field, None)
        if field in ("attr", "arg", "name", "id", "module", "asname"):
            if not _ident(pv, nv, env):
                return False
            continue
        if isinstance(pv, list):
            if not isinstance(nv, list):
                return False
            if field == "keywords" and not pv and isinstance(p, ast.Call) and any(_is_ellipsis(a) for a in p.args):
                continue            # f(...) : keyword arguments are covered by the ellipsis
            block = field in ("body", "orelse", "finalbody") and (not pv or isinstance(pv[0], ast.stmt))
            if block and field == "orelse" and not pv:
                continue            # pattern without else: don't care
            if pv and all(isinstance(x, str) for x in pv):
                if pv != nv:
                    return False
                continue
            if not _seq(pv, nv, env, block):
                return False
        elif isinstance(pv, ast.AST):
            if not isinstance(nv, ast.AST) or not match(pv, nv, env):
                return False
        else:
            if pv != nv:
                return False
    return True


def find(root, pattern, env=None):
    """all (node, bindings) under `root` (inclusive) matching `pattern`.
    A block pattern is matched against every statement list."""
    kind, pat = parse(pattern)
    out = []
    roots = root if isinstance(root, list) else [root]
    for r in roots:
        for n in ast.walk(r):
            if kind == "block":
                for field in ("body", "orelse", "finalbody"):
                    seq = getattr(n, field, None)
                    if isinstance(seq, list) and seq and isinstance(seq[0], ast.stmt):
                        e = dict(env or {})
                        if _seq(pat, seq, e, True):
                            out.append((n, e))
                continue
            if kind == "expr" and not isinstance(n, ast.expr):
                continue
            if kind == "stmt" and not isinstance(n, ast.stmt):
                continue
            e = dict(env or {})
            if match(pat, n, e):
                out.append((n, e))
    return out


def has(root, pattern, env=None):
    return bool(find(root, pattern, env))


def count(root, pattern, env=None):
    return len(find(root, pattern, env))


def first(root, pattern, env=None):
    got = find(root, pattern, env)
    return got[0] if got else (None, None)


def strings(root):
    """all string constants under root (templates live in them)"""
    roots = root if isinstance(root, list) else [root]
    return [n.value for r in roots for n in ast.walk(r) if isinstance(n, ast.Constant) and isinstance(n.value, str)]


def has_string(root, fragment):
    """some string constant under root contains `fragment` (implicitly
    concatenated literals are one constant in the AST)"""
    return any(fragment in s for s in strings(root))
