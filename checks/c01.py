"""C01 - Fortran wrapper calls are equivalent to calling the library
directly.  Decided: structural necessary conditions in the generator and the
statement tables."""
import ast
import re

from sa import tables, templ, pyflow
from sa.loader import AnalysisError, enclosing_function, parent_chain

EXPLANATION = (
    "(R1) call-target wiring: every generated C variant records the C++ function it wraps and makes "
    "the Fortran side point at it (_PTR_C_CXX_index / _PTR_F_C_index writers), and the emitters follow "
    "exactly those links (readers); (R2) local-copy completeness for entries with c_local_var: "
    "intent in/inout copy in before the call, out/inout copy back after it; (R3) order-preserving "
    "accumulation of Fortran dummy names, declarations and C actual arguments inside the loop over the "
    "C parameters; (R4) arity agreement between paired C and Fortran entries: an f_* entry that "
    "overrides arg_c_call supplies exactly the arguments its paired c_* entry's buf_args declare, "
    "{c_var_context}/{c_var_capsule} used by an f_* entry are provided by the paired c_* entry; "
    "(R5) NUL termination of const char* input on the Fortran side (producer and both consumers); "
    "(R6) per-argument code inside the parameter loop uses the argument's own statement blocks and "
    "format scope, not the function result's.")
NOT_DECIDED = ("Value equality at run time of compiled Fortran/C/C++ for all argument values (needs "
               "execution of generated code).")


def rule_r1(repo, run):
    R = run.rule("C01.R1", "writer/reader agreement of the call-target links between generated variants")
    gm = repo.module("generate")
    writers = 0
    # writers of _PTR_F_C_index
    expect = {
        "GenFunctions.arg_to_buffer": ("node._PTR_F_C_index", "C_new._function_index"),
        "GenFunctions.arg_to_CFI": ("node._PTR_F_C_index", "C_new._function_index"),
        "GenFunctions.result_as_arg": ("F_new._PTR_F_C_index", "C_new._function_index"),
    }
    for meth, (lhs, rhs) in sorted(expect.items()):
        f = gm.func(meth)
        asg = [n for n in ast.walk(f) if isinstance(n, ast.Assign) and (pyflow.dotted(n.targets[0]) or "") == lhs]
        writers += len(asg)
        ok = len(asg) == 1 and gm.seg(asg[0].value) == rhs
        run.check(R, "generate.%s:%s" % (meth, lhs), ok,
                  "the Fortran side must be pointed at the generated C function (%s = %s); found %s"
                  % (lhs, rhs, [gm.seg(a) for a in asg]), gm.loc(f), sample=dict(site=meth, write="%s = %s" % (lhs, rhs)))
        if ok and meth != "GenFunctions.result_as_arg":
            # reached on every path that keeps the clone and does not hand over to result_as_arg
            conds = [(gm.seg(t), p) for t, p in pyflow.dominating_tests(asg[0], stop=f)]
            run.check(R, "generate.%s:%s:path" % (meth, lhs), conds == [("result_as_arg", False)],
                      "the link must be written on every path except the result_as_arg hand-over; guarded by %s" % conds,
                      gm.loc(asg[0]))
    gf = gm.func("GenFunctions.generic_function")
    asg = [n for n in ast.walk(gf) if isinstance(n, ast.Assign) and (pyflow.dotted(n.targets[0]) or "") == "new._PTR_F_C_index"]
    writers += len(asg)
    vals = [gm.seg(a.value) for a in asg]
    run.check(R, "generate.GenFunctions.generic_function:new._PTR_F_C_index",
              "cnew._function_index" in vals and any("cvariants.get(order" in v for v in vals),
              "each fortran_generic variant must call the C function with the matching scalar/array signature "
              "(cvariants lookup, or the newly created cnew); found %s" % vals, gm.loc(gf), sample=dict(writes=vals))
    run.check(R, "generate.GenFunctions.generic_function:cvariants",
              "cvariants = {corder: node._function_index}" in gm.seg(gf) and "cvariants[order] = cnew._function_index" in gm.seg(gf),
              "the table of C variants must start with the original function and record every new C variant", gm.loc(gf))
    run.floor(R, "writers of _PTR_F_C_index", writers, 5)
    # readers
    wf = repo.module("wrapf")
    for meth in ("Wrapf.wrap_function_impl", "Wrapf.wrap_function_interface"):
        f = wf.func(meth)
        s = wf.seg(f)
        if meth.endswith("impl"):
            ok = "while C_node._PTR_F_C_index is not None:" in s and \
                "C_node = self.newlibrary.function_index[C_node._PTR_F_C_index]" in s and \
                "fmt_func.F_C_call = C_node.fmtdict.F_C_name" in s
            run.check(R, "wrapf.%s:follow" % meth, ok,
                      "the Fortran wrapper must call the C function reached through _PTR_F_C_index (F_C_call = its F_C_name)",
                      wf.loc(f))
            run.check(R, "wrapf.%s:c-params" % meth, "for c_arg in C_node.ast.params:" in s and "fmtargs = C_node._fmtargs" in s,
                      "actual arguments must be built from the C function's parameters", wf.loc(f))
    call_t = [n.value for n in ast.walk(wf.func("Wrapf.wrap_function_impl")) if isinstance(n, ast.Constant)
              and isinstance(n.value, str) and "{F_C_call}({F_arg_c_call})" in n.value]
    run.check(R, "wrapf.Wrapf.wrap_function_impl:call-template", sorted(call_t) == sorted(
        ["{F_result} = {F_C_call}({F_arg_c_call})", "call {F_C_call}({F_arg_c_call})"]),
        "default call templates must call {F_C_call} with {F_arg_c_call}: %s" % call_t, wf.loc(wf.func("Wrapf.wrap_function_impl")))
    # when no Fortran wrapper is needed the interface itself carries the Fortran name
    run.check(R, "wrapf.Wrapf.wrap_function_impl:direct-bind",
              "C_node.fmtdict.F_C_name = fmt_func.F_name_impl" in wf.seg(wf.func("Wrapf.wrap_function_impl")),
              "without a wrapper the bind(C) interface must be given the Fortran procedure name", wf.loc(wf.func("Wrapf.wrap_function_impl")))
    # interface binds to C_name
    fi = wf.func("Wrapf.wrap_function_interface")
    s = wf.seg(fi)
    run.check(R, "wrapf.Wrapf.wrap_function_interface:bind-name", 'bind(C, name="{C_name}")' in s and "{F_C_name}" in s,
              "the interface must bind F_C_name to the C symbol C_name", wf.loc(fi))


def rule_r2(repo, run, table):
    R = run.rule("C01.R2", "entries with a C local copy convert in before the call and back after it")
    n = 0
    for name, e in sorted(table.resolve_all("c++").items()):
        if not name.startswith("f_") or not e.get("c_local_var"):
            continue
        parts = name.split("_")
        intent = [p for p in parts if p in ("in", "out", "inout")]
        if not intent:
            continue
        intent = intent[0]
        n += 1
        pre = [re.sub(r"\s+", "", templ.strip_f_comment(x)) for s in e.lines("pre_call") for x in templ.code_lines(s)]
        post = [re.sub(r"\s+", "", templ.strip_f_comment(x)) for s in e.lines("post_call") for x in templ.code_lines(s)]
        probs = []
        if intent in ("in", "inout") and "{c_var}={f_var}" not in pre:
            probs.append("intent(%s) needs `{c_var} = {f_var}` in pre_call (found %s)" % (intent, pre))
        if intent in ("out", "inout") and "{f_var}={c_var}" not in post:
            probs.append("intent(%s) needs `{f_var} = {c_var}` in post_call (found %s)" % (intent, post))
        if intent == "in" and any(l.startswith("{f_var}=") for l in post):
            probs.append("intent(in) must not write the caller's variable")
        if intent == "out" and any(l.startswith("{c_var}={f_var}") for l in pre):
            pass
        run.check(R, "statements.fc_statements[%s]" % name, not probs, "; ".join(probs), table.loc(e.raw),
                  sample=dict(entry=name, pre_call=pre, post_call=post))
    run.floor(R, "entries with c_local_var", n, 3)
    # the local is declared with the interoperable type and passed instead of the dummy
    wf = repo.module("wrapf")
    f = wf.func("Wrapf.wrap_function_impl")
    s = wf.seg(f)
    run.check(R, "wrapf.Wrapf.wrap_function_impl:c_local_var",
              'fmt_arg.c_var = "SH_" + fmt_arg.f_var' in s and "arg_typemap.f_c_type or arg_typemap.f_type" in s,
              "the C local must be declared with the interoperable type and become {c_var}", wf.loc(f))
    bi = wf.func("Wrapf.build_arg_list_impl")
    run.check(R, "wrapf.Wrapf.build_arg_list_impl:pass-c_var", "arg_c_call.append(fmt.c_var)" in wf.seg(bi),
              "the default actual argument must be {c_var} (the converted local when there is one)", wf.loc(bi))


ORDERED = ("arg_c_call", "arg_f_names", "arg_c_names", "arg_c_decl", "arg_f_decl")


def rule_r3(repo, run):
    R = run.rule("C01.R3", "dummy names, declarations and actual arguments are accumulated in declaration order")
    wf = repo.module("wrapf")
    n = 0
    for meth, loopsrc in (("Wrapf.wrap_function_impl", "C_node.ast.params"),
                          ("Wrapf.wrap_function_interface", "ast.params"),
                          ("Wrapf.build_arg_list_impl", "buf_args"),
                          ("Wrapf.build_arg_list_interface", "buf_args")):
        f = wf.func(meth)
        for node in ast.walk(f):
            if isinstance(node, ast.Call) and isinstance(node.func, ast.Attribute):
                recv = pyflow.dotted(node.func.value)
                if recv in ORDERED:
                    n += 1
                    run.check(R, "wrapf.%s:%s.%s@%d" % (meth, recv, node.func.attr, node.lineno - f.lineno),
                              node.func.attr in ("append", "extend"),
                              "%s is modified with %s(): Fortran arguments would no longer be in declaration order"
                              % (recv, node.func.attr), wf.loc(node))
            if isinstance(node, (ast.Assign, ast.Delete)):
                for t in node.targets:
                    if isinstance(t, ast.Subscript) and pyflow.dotted(t.value) in ORDERED:
                        run.fail(R, "wrapf.%s:%s[...]" % (meth, pyflow.dotted(t.value)),
                                 "element/slice assignment on an ordered argument list", wf.loc(node))
        loops = [x for x in ast.walk(f) if isinstance(x, ast.For) and wf.seg(x.iter) == loopsrc]
        run.check(R, "wrapf.%s:loop(%s)" % (meth, loopsrc), len(loops) == 1,
                  "the parameters must be traversed once, in order (for ... in %s)" % loopsrc, wf.loc(f),
                  sample=dict(function=meth, loop=loopsrc))
    run.floor(R, "mutation sites of ordered lists", n, 50)
    f = wf.func("Wrapf.wrap_function_impl")
    s = wf.seg(f)
    run.check(R, "wrapf.Wrapf.wrap_function_impl:join", 'fmt_func.F_arg_c_call = ",\\t ".join(arg_c_call)' in s and
              '",\\t ".join(arg_f_names)' in s, "lists must be joined in order", wf.loc(f))
    # this first, then result buffers, then parameters, then result extras
    order = []
    for node in f.body:
        seg = wf.seg(node)
        if isinstance(node, ast.If) and pyflow.is_name(node.test, "cls") and "F_this" in seg:
            order.append("this")
        elif isinstance(node, ast.If) and 'C_subprogram == "function"' in wf.seg(node.test) and "c_result_blk.buf_args" in seg:
            order.append("result.buf_args")
        elif isinstance(node, ast.For) and wf.seg(node.iter) == "C_node.ast.params":
            order.append("params")
        elif isinstance(node, ast.If) and "c_result_blk.buf_extra" in seg:
            order.append("result.buf_extra")
    run.check(R, "wrapf.Wrapf.wrap_function_impl:section-order",
              order == ["this", "result.buf_args", "params", "result.buf_extra"],
              "actual arguments must be: this, result buffer arguments, parameters, trailing result arguments "
              "(the C prototype uses the same order); found %s" % order, wf.loc(f), sample=dict(order=order))
    wc = repo.module("wrapc")
    g = wc.func("Wrapc.wrap_function")
    corder = []
    for node in g.body:
        seg = wc.seg(node)
        if isinstance(node, ast.If) and pyflow.is_name(node.test, "cls") and "C_this" in seg:
            corder.append("this")
        elif isinstance(node, ast.Assign) and "result_blk.buf_args" in seg and "build_proto_list" in seg:
            corder.append("result.buf_args")
        elif isinstance(node, ast.For) and wc.seg(node.iter) == "ast.params":
            corder.append("params")
        elif isinstance(node, ast.If) and "result_blk.buf_extra" in seg:
            corder.append("result.buf_extra")
    run.check(R, "wrapc.Wrapc.wrap_function:section-order", corder == order,
              "the C prototype sections %s differ from the Fortran actual-argument sections %s" % (corder, order),
              wc.loc(g), sample=dict(c_order=corder))


SPOINTERS = ("scalar", "*", "**", "&", "*&", "[]")
DEREFS = (None, "allocatable", "pointer", "raw", "scalar", "result-as-arg")
SUFFIXES = {"vector": ("buf",), "string": ("buf", "cfi"), "char": ("", "buf", "cfi"), "native": ("", "buf", "cfi"),
            "void": ("", "buf"), "bool": ("", "buf", "cfi"), "shadow": ("", "buf"), "struct": ("", "buf")}


def lookup_pairs(table, lang="c++"):
    """Lookup closure: every (f entry, c entry) pair that the two lookups of
    wrapf.wrap_function_impl can resolve for one argument or result, over the
    finite domain of path components."""
    res = table.resolve_all(lang)
    groups = sorted(set(n.split("_")[1] for n in res if n.count("_") >= 2))
    pairs = {}
    tuples = 0
    for sg in groups:
        for sp in SPOINTERS:
            for intent in ("in", "out", "inout", "result"):
                for suf in SUFFIXES.get(sg, ("", "buf")):
                    for deref in DEREFS:
                        if deref is not None and sp == "scalar" and sg != "string":
                            continue        # deref on a non-pointer is rejected by check_deref_attr
                        for owner in ((None, "caller") if intent == "result" else (None,)):
                            for cdesc in ((None, "cdesc") if intent != "result" else (None,)):
                                for spec in ((None, "string") if sg == "vector" else (None,)):
                                    # feasibility (from generate.arg_to_buffer / arg_to_CFI / VerifyAttrs):
                                    if cdesc and suf != "":
                                        continue      # cdesc is the non-bufferify descriptor path
                                    if sg == "native" and sp in ("**", "*&") and intent == "out" and suf == "":
                                        continue      # always bufferified when Fortran is wrapped
                                    if sg == "char" and sp == "scalar" and deref is not None:
                                        continue
                                    tuples += 1
                                    if intent == "result":
                                        fpath = ["f", sg, sp, "result", suf, deref, owner]
                                        if sg in ("char", "string", "vector") and suf:
                                            # the result is passed as an extra argument: its C lookup carries deref
                                            cpath = ["c", sg, sp, "result", suf, deref]
                                        else:
                                            cpath = ["c", sg, sp, "result", suf]
                                    else:
                                        fpath = ["f", sg, sp, intent, suf, deref, cdesc, spec]
                                        cpath = ["c", sg, sp, intent, suf, cdesc, spec]
                                    fe = table.lookup(fpath, lang)
                                    ce = table.lookup(cpath, lang)
                                    if fe is None:
                                        continue
                                    key = (fe.name, ce.name if ce else None)
                                    pairs.setdefault(key, (fe, ce, fpath, cpath))
    return pairs, tuples


def lookup_cpaths(table, lang="c++"):
    """Every C-side lookup path of the closure with the entry it resolves to (independent of the Fortran side)."""
    res = table.resolve_all(lang)
    groups = sorted(set(n.split("_")[1] for n in res if n.count("_") >= 2))
    out = {}
    for sg in groups:
        for sp in SPOINTERS:
            for intent in ("in", "out", "inout", "result"):
                for suf in SUFFIXES.get(sg, ("", "buf")):
                    for cdesc in ((None, "cdesc") if intent != "result" else (None,)):
                        for spec in ((None, "string") if sg == "vector" else (None,)):
                            if cdesc and suf != "":
                                continue
                            cpath = ["c", sg, sp, intent, suf, cdesc, spec] if intent != "result" else ["c", sg, sp, "result", suf]
                            ce = table.lookup(cpath, lang)
                            out[tuple(x or "" for x in cpath)] = ce
    return out


def rule_r4(repo, run, table):
    R = run.rule("C01.R4", "paired c_*/f_* entries agree on the number and kind of interface arguments "
                           "(over the lookup closure)")
    pairs, tuples = lookup_pairs(table)
    n = 0
    for (fname, cname), (fe, ce, fpath, cpath) in sorted(pairs.items(), key=lambda kv: (kv[0][0], kv[0][1] or "")):
        acc = fe.get("arg_c_call")
        text = "\n".join(x for c in ("declare", "pre_call", "call", "post_call", "arg_c_call") for x in fe.lines(c))
        uses_ctx = "{c_var_context}" in text
        uses_cap = "{c_var_capsule}" in text
        buf = list((ce.get("buf_args") if ce else None) or []) or ["arg"]
        extra = list((ce.get("buf_extra") if ce else None) or [])
        where = "%s<->%s" % (fname, cname or "c_default")
        if acc:
            n += 1
            run.check(R, "statements.fc_statements[%s].arg_c_call" % where, len(acc) == len(buf),
                      "arg_c_call supplies %d actual argument(s) but the paired C entry declares %d interface "
                      "argument(s) %s (lookup %s / %s)" % (len(acc), len(buf), buf, fpath, cpath), table.loc(fe.raw),
                      sample=dict(f_entry=fname, c_entry=cname, arg_c_call=[str(x) for x in acc], buf_args=buf))
        if uses_ctx:
            n += 1
            run.check(R, "statements.fc_statements[%s]:context" % where, "context" in buf + extra,
                      "the Fortran entry reads {c_var_context} but the paired C entry passes no context argument "
                      "(buf_args %s; lookup %s / %s)" % (buf, fpath, cpath), table.loc(fe.raw),
                      sample=dict(f_entry=fname, c_entry=cname, buf_args=buf))
        if uses_cap and "caller" not in fname:
            n += 1
            run.check(R, "statements.fc_statements[%s]:capsule" % where, "capsule" in buf + extra,
                      "the Fortran entry reads {c_var_capsule} but the paired C entry passes no capsule", table.loc(fe.raw))
    run.floor(R, "paired entry obligations", n, 12)
    run.notes.append("lookup closure: %d path tuples, %d distinct (f,c) pairs" % (tuples, len(pairs)))


def rule_r5(repo, run):
    from checks import c10
    R = run.rule("C01.R5", "const char* input is trimmed and NUL terminated on the Fortran side; the C-side trim used with F_CFI / char** agrees with len_trim (see C10.R5, C10.R1)")
    sub = type(run)(run.prop, run.tier, write=False, known={"findings": [], "fixed": []})
    c10.rule_r5(repo, sub)
    for v in sub.violations:
        run.fail(R, v["construct"], v["message"], v["loc"])
    r = sub.rules["C10.R5"]
    run.rules[R]["obligations"] += r["discharged"]
    run.rules[R]["discharged"] += r["discharged"]
    run.nontrivial.update((R, c) for (rr, c) in sub.nontrivial)
    run.samples.extend([dict(s, rule=R) for s in sub.samples[:2]])
    # where C computes the trimmed length itself (F_CFI, char**), the scan must agree with Fortran's len_trim:
    # otherwise the two modes deliver different text for the same call
    sub2 = type(run)(run.prop, run.tier, write=False, known={"findings": [], "fixed": []})
    c10.rule_r1(repo, sub2, tables.build_helper_table(repo))
    for v in sub2.violations:
        if v["construct"].endswith((":blank-scan", ":element-pointer")):
            run.fail(R, v["construct"], v["message"], v["loc"])
    kept = [c for (rr, c) in sub2.nontrivial if c.endswith((":blank-scan", ":element-pointer")) and c not in set(v["construct"] for v in sub2.violations)]
    run.rules[R]["obligations"] += len(kept)
    run.rules[R]["discharged"] += len(kept)
    run.nontrivial.update((R, c) for c in kept)


RESULT_NAMES = ("f_result_blk", "c_result_blk", "fmt_result")


def rule_r6(repo, run):
    R = run.rule("C01.R6", "per-argument code uses the argument's own statement blocks and format scope")
    n = 0
    for mname, meth, loopsrc, allowed in (
            ("wrapf", "Wrapf.wrap_function_impl", "C_node.ast.params", ()),
            ("wrapf", "Wrapf.wrap_function_interface", "ast.params", ()),
            ("wrapc", "Wrapc.wrap_function", "ast.params", ("fmt_result.cxx_var",))):
        m = repo.module(mname)
        f = m.func(meth)
        loops = [x for x in ast.walk(f) if isinstance(x, ast.For) and m.seg(x.iter) == loopsrc]
        if len(loops) != 1:
            raise AnalysisError("C01.R6: parameter loop of %s not found" % meth)
        lp = loops[0]
        resnames = set(RESULT_NAMES) | {"result_blk"}
        for node in ast.walk(lp):
            if isinstance(node, ast.Name) and node.id in resnames and isinstance(node.ctx, ast.Load):
                n += 1
                # allowed: inside the branch that handles the argument carrying the function result
                conds = [(m.seg(t), p) for t, p in pyflow.dominating_tests(node, stop=f)]
                in_result_branch = any("is_result" in c and p for c, p in conds) or any("is_f_arg" in c and not p for c, p in conds)
                stmt = node
                while not isinstance(stmt, ast.stmt):
                    stmt = stmt._parent
                seg = m.seg(stmt)
                ok = in_result_branch or any(a in seg for a in allowed)
                run.check(R, "%s.%s:%s@%s" % (mname, meth, node.id, re.sub(r"\s+", " ", seg)[:50]), ok,
                          "code inside the parameter loop reads %s (the function result's block/scope) outside the "
                          "is_result branch: an argument is processed with the result's statements" % node.id,
                          m.loc(node), sample=dict(function=meth, name=node.id, stmt=seg[:80]))
    run.floor(R, "result-scope references inside parameter loops", n, 1)
    # positive example kept so that the rule is never vacuous: the arg_decl branch uses f_intent_blk / fmt_arg
    wf = repo.module("wrapf")
    f = wf.func("Wrapf.wrap_function_impl")
    s = wf.seg(f)
    run.check(R, "wrapf.Wrapf.wrap_function_impl:arg_name", "for aname in f_intent_blk.arg_name:" in s and
              "append_format(arg_f_names, aname, fmt_arg)" in s,
              "extra dummy names of an argument must come from its own entry and scope", wf.loc(f))
    run.check(R, "wrapf.Wrapf.wrap_function_impl:result-arg_name", "for aname in f_result_blk.arg_name:" in s and
              "append_format(arg_f_names, aname, fmt_result)" in s,
              "extra dummy names of the result come from the result entry, after the parameters", wf.loc(f))


def rule_r7(repo, run):
    R = run.rule("C01.R7", "implied-argument functions size/len/len_trim/type(x) are evaluated on the argument "
                           "they name; default intents as documented (see C02.R9)")
    n = 0
    for mname in ("wrapf", "wrapp"):
        m = repo.module(mname)
        f = m.func("ToImplied.visit_Identifier")
        nodep = f.args.args[1].arg
        cur = next((st for st in f.body if isinstance(st, ast.If)), None)
        while isinstance(cur, ast.If):
            fn = None
            t = cur.test
            if isinstance(t, ast.Compare) and isinstance(t.ops[0], ast.Eq):
                fn = pyflow.const_str(t.comparators[0])
            if fn in ("size", "len", "len_trim", "type"):
                rets = pyflow.branch_return_deps(cur.body, [nodep + ".args"])
                for r, deps in rets:
                    n += 1
                    run.check(R, "%s.ToImplied.visit_Identifier:%s(x)" % (mname, fn), (nodep + ".args") in deps,
                              "the value returned for %s(x) (`%s`) does not depend on x (%s.args): every use of "
                              "+implied(%s(x)) evaluates something else than the named argument"
                              % (fn, m.seg(r.value)[:60], nodep, fn), m.loc(r),
                              sample=dict(module=mname, function=fn, returns=m.seg(r.value)[:80]))
            cur = cur.orelse[0] if len(cur.orelse) == 1 and isinstance(cur.orelse[0], ast.If) else None
    run.floor(R, "implied-function return sites", n, 6)
    from checks import c02
    from sa.report import import_rules
    import_rules(run, R, c02, repo, {"C02.R9"})


def rule_x(repo, run):
    R = run.rule("C01.R8", "shared necessary conditions decided by sibling checks: Fortran kinds of the type table "
                           "(C04.R6), length/trim slots of string statements (C10.R2), per-variant names and generic "
                           "interfaces that make every overload reachable (C08.R3, C08.R4)")
    from checks import c04, c10, c08
    from sa.report import import_rules
    import_rules(run, R, c04, repo, {"C04.R6"})
    # values are passed the way the C wrapper takes them (by value / by reference) and struct members sit at the C offsets
    import_rules(run, R, c04, repo, {"C04.R1"}, only=lambda c: c.endswith(":by-value"))
    import_rules(run, R, c04, repo, {"C04.R12", "C04.R13"})
    # a result by value / by reference / by pointer is fetched by the statements written for that form (C02.R14, C02.R15)
    from checks import c02 as c02_
    import_rules(run, R, c02_, repo, {"C02.R14", "C02.R15"}, only=lambda c: not c.startswith("C06"))
    # an argument by reference is a pointer in the C wrapper: how the wrapper reaches the C++ object (C02.R12)
    import_rules(run, R, c02_, repo, {"C02.R12"}, only=lambda c: c.startswith("wrapc.compute_c_deref"))
    import_rules(run, R, c10, repo, {"C10.R2", "C10.R5"})
    # the buffer handed to the library for a character intent(inout) argument has the capacity of the caller's variable
    # (C10.R1, the `retcap` obligations of the allocating helpers): what the library writes comes back whole
    import_rules(run, R, c10, repo, {"C10.R1"}, only=lambda c: ":retcap:" in c)
    # an intent(inout) argument that the wrapper copies (std::vector, std::string) is initialised from the caller's value (C02.R11)
    import_rules(run, R, c02_, repo, {"C02.R11"}, only=lambda c: ":copy[" in c)
    import_rules(run, R, c08, repo, {"C08.R3", "C08.R4"}, only=lambda c: not c.startswith("wrapp."))
    # enumerators are passed as argument values: the Fortran parameters must carry the C++ values (C11.R1, C11.R2)
    from checks import c11
    import_rules(run, R, c11, repo, {"C11.R1", "C11.R2"})
    # the helper that copies an array result/argument back never copies more than the caller's array holds
    from checks import c06
    import_rules(run, R, c06, repo, {"C06.R5"}, only=lambda c: "copy_array" in c or "ShroudCopyArray" in c)
    # every array context gets its element count: size = product of the extents for *every* non-empty shape
    for mn, cname in (("wrapc", "Wrapc"), ("wrapp", "Wrapp")):
        m = repo.module(mn)
        fn = m.func(cname + ".set_fmt_fields")
        for a in ast.walk(fn):
            if isinstance(a, ast.Assign) and isinstance(a.targets[0], ast.Attribute) and \
                    a.targets[0].attr in ("c_array_size", "array_size") and "join" in m.seg(a.value):
                guard = None
                par = a._parent
                if isinstance(par, ast.If) and a in par.body:
                    guard = par
                ok = guard is None or isinstance(guard.test, ast.Name) or any(
                    isinstance(x, ast.Assign) and isinstance(x.targets[0], ast.Attribute) and x.targets[0].attr == a.targets[0].attr
                    for st in guard.orelse for x in ast.walk(st))
                run.check(R, "%s.%s.set_fmt_fields:%s" % (mn, cname, a.targets[0].attr), ok,
                          "the element count is only computed when `%s` and there is no other branch setting it: arrays of the "
                          "remaining shapes (rank 1) keep the default size of 1 and only their first element is copied"
                          % (m.seg(guard.test) if guard is not None else ""), m.loc(a))



def _dnf(e):
    """disjunctive normal form of a boolean expression: list of lists of atom texts"""
    if isinstance(e, ast.BoolOp) and isinstance(e.op, ast.Or):
        out = []
        for v in e.values:
            out.extend(_dnf(v))
        return out
    if isinstance(e, ast.BoolOp) and isinstance(e.op, ast.And):
        out = [[]]
        for v in e.values:
            out = [a + b for a in out for b in _dnf(v)]
        return out
    return [[ast.unparse(e)]]


def rule_r9(repo, run):
    R = run.rule("C01.R9", "a bind(C) interface is declared PURE only for what the declaration says is free of side effects: "
                           "`+pure`, or a const method all of whose arguments are intent(in) - a compiler may merge or drop "
                           "repeated calls of a pure function, so every other call must reach the library")
    wf = repo.module("wrapf")
    fn = wf.func("Wrapf.wrap_function_interface")
    sets = [a for a in ast.walk(fn) if isinstance(a, ast.Assign) and isinstance(a.targets[0], ast.Attribute)
            and a.targets[0].attr == "F_C_pure_clause" and (pyflow.const_str(a.value) or "").strip() == "pure"]
    if len(sets) != 1:
        raise AnalysisError("C01.R9: the assignment of F_C_pure_clause in wrap_function_interface was not found")
    conj = [[]]
    for t, pol in pyflow.dominating_tests(sets[0], stop=fn):
        if pol:
            conj = [a + b for a in conj for b in _dnf(t)]
    # names: where do is_pure / func_is_const come from
    src = {}
    for a in ast.walk(fn):
        if isinstance(a, ast.Assign) and len(a.targets) == 1 and isinstance(a.targets[0], ast.Name):
            src.setdefault(a.targets[0].id, ast.unparse(a.value))
    def licensed(atoms):
        for at in atoms:
            v = src.get(at, at)
            if re.search(r"attrs\[['\"]pure['\"]\]|\.func_const\b", v):
                return True
        return False
    bad = [c for c in conj if not licensed(c)]
    run.check(R, "wrapf.Wrapf.wrap_function_interface:pure", not bad,
              "the interface is declared PURE when %s: neither `+pure` nor the constness of the method is part of that case, so the "
              "calls of a stateful function (a counter, a generator) may be merged by the Fortran compiler"
              % " and ".join(bad[0] if bad else []), wf.loc(sets[0]), sample=dict(cases=conj))


def run(repo, run, tier):
    tables.check_model_assumptions(repo)
    table = tables.StatementTable(repo, "statements", "fc_statements")
    rule_r1(repo, run)
    rule_r2(repo, run, table)
    rule_r3(repo, run)
    rule_r4(repo, run, table)
    rule_r5(repo, run)
    rule_r6(repo, run)
    rule_r7(repo, run)
    rule_x(repo, run)
    rule_r9(repo, run)
