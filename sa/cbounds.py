"""Bounds prover for the C helper functions embedded in whelpers.py.

The helper source is parsed by clang (parse only:
`clang -fsyntax-only -Xclang -ast-dump=json -Xclang -ast-dump-filter=<name>`),
its JSON AST is interpreted by a small path-splitting abstract interpreter
over *linear integer arithmetic*: every memory access (memcpy / memset /
strncpy / array subscript) yields the obligations

    0 <= offset,   0 <= length,   offset + length <= capacity(base)

which are discharged by Fourier-Motzkin elimination from the facts known at
that point: parameter contracts, `?:` minimum facts, enclosing guards, loop
bounds and proved post-conditions of callees.  Products with one loop-invariant
non-negative factor (element size, string length) are handled as *scaled*
linear forms: a*K <= b*K  <=  a <= b.

Nothing is executed.  An expression the interpreter cannot model makes the
affected obligation *unproved* (reported), never silently true.
"""
import json
import os
import subprocess
import tempfile
from fractions import Fraction

from .loader import AnalysisError


# --------------------------------------------------------------------------
# linear forms   sum(coef*var) + const
# --------------------------------------------------------------------------
class Lin(object):
    __slots__ = ("t", "c")

    def __init__(self, terms=None, const=0):
        self.t = {k: Fraction(v) for k, v in (terms or {}).items() if v != 0}
        self.c = Fraction(const)

    @staticmethod
    def var(name):
        return Lin({name: 1}, 0)

    @staticmethod
    def const(v):
        return Lin({}, v)

    def __add__(self, o):
        o = _lin(o)
        t = dict(self.t)
        for k, v in o.t.items():
            t[k] = t.get(k, 0) + v
        return Lin(t, self.c + o.c)

    def __sub__(self, o):
        return self + (_lin(o) * -1)

    def __mul__(self, k):
        k = Fraction(k)
        return Lin({a: b * k for a, b in self.t.items()}, self.c * k)

    def is_const(self):
        return not self.t

    def vars(self):
        return set(self.t)

    def __repr__(self):
        parts = []
        for k in sorted(self.t):
            v = self.t[k]
            if v == 1:
                parts.append(k)
            elif v == -1:
                parts.append("-" + k)
            else:
                parts.append("%s*%s" % (v, k))
        if self.c != 0 or not parts:
            parts.append(str(self.c))
        return " + ".join(parts).replace("+ -", "- ")


def _lin(x):
    if isinstance(x, Lin):
        return x
    return Lin.const(x)


class Scaled(object):
    """lin * scale  (scale: name of a non-negative symbol, or None for 1)."""
    __slots__ = ("lin", "scale")

    def __init__(self, lin, scale=None):
        self.lin = _lin(lin)
        self.scale = scale

    def __repr__(self):
        return "(%r)*%s" % (self.lin, self.scale) if self.scale else repr(self.lin)


def infeasible(ineqs):
    """Fourier-Motzkin: is the system {l <= 0 for l in ineqs} infeasible over Q?"""
    sys = [Lin(l.t, l.c) for l in ineqs]
    for l in sys:
        if l.is_const() and l.c > 0:
            return True
    variables = sorted(set(v for l in sys for v in l.t))
    for x in variables:
        pos = [l for l in sys if l.t.get(x, 0) > 0]
        neg = [l for l in sys if l.t.get(x, 0) < 0]
        rest = [l for l in sys if l.t.get(x, 0) == 0]
        new = rest
        for p in pos:
            for n in neg:
                a = p.t[x]
                b = -n.t[x]
                comb = p * b + n * a
                comb.t.pop(x, None)
                comb = Lin(comb.t, comb.c)
                if comb.is_const():
                    if comb.c > 0:
                        return True
                    continue
                new.append(comb)
        # drop duplicates to bound growth
        seen = set()
        sys = []
        for l in new:
            key = (tuple(sorted(l.t.items())), l.c)
            if key not in seen:
                seen.add(key)
                sys.append(l)
        if len(sys) > 4000:
            return False
    return any(l.is_const() and l.c > 0 for l in sys)


def proves(facts, goal):
    """facts: list of Lin meaning l <= 0.  goal Lin: prove goal <= 0 (integers)."""
    neg = (goal * -1) + 1          # goal >= 1
    return infeasible(list(facts) + [neg])


# --------------------------------------------------------------------------
# clang front end
# --------------------------------------------------------------------------
def clang_ast(source, lang, name_filter, extra_args=()):
    suffix = ".c" if lang == "c" else ".cpp"
    fd, path = tempfile.mkstemp(suffix=suffix, prefix="shroud_helper_")
    try:
        with os.fdopen(fd, "w") as fp:
            fp.write(source)
        cmd = ["clang", "-fsyntax-only", "-w", "-Xclang", "-ast-dump=json",
               "-Xclang", "-ast-dump-filter=" + name_filter] + list(extra_args) + [path]
        try:
            p = subprocess.run(cmd, stdout=subprocess.PIPE, stderr=subprocess.PIPE, timeout=120)
        except (OSError, subprocess.TimeoutExpired) as e:
            raise AnalysisError("clang is not usable: %s" % e)
        if p.returncode != 0:
            raise AnalysisError("helper source does not parse as %s: %s"
                                % (lang, p.stderr.decode("utf-8", "replace")[:400]))
        txt = p.stdout.decode("utf-8", "replace")
    finally:
        try:
            os.unlink(path)
        except OSError:
            pass
    dec = json.JSONDecoder()
    docs = []
    i = 0
    n = len(txt)
    while i < n:
        while i < n and txt[i].isspace():
            i += 1
        if i >= n:
            break
        obj, j = dec.raw_decode(txt, i)
        docs.append(obj)
        i = j
    return docs


def find_functions(docs):
    out = {}

    def rec(n):
        if isinstance(n, dict):
            if n.get("kind") == "FunctionDecl" and any(c.get("kind") == "CompoundStmt" for c in n.get("inner", [])):
                out[n.get("name")] = n
            for c in n.get("inner", []) or []:
                rec(c)
    for d in docs:
        rec(d)
    return out


# --------------------------------------------------------------------------
# abstract interpreter
# --------------------------------------------------------------------------
class Unmodelled(Exception):
    pass


class State(object):
    def __init__(self):
        self.env = {}        # int var -> Lin | Scaled
        self.ptr = {}        # pointer var -> (base, Scaled offset) | None (unknown)
        self.facts = []      # Lin <= 0
        self.cap = {}        # base -> Scaled capacity (elements)
        self.nonneg = set()  # symbols known >= 0 (for scaling)
        self.trace = []

    def copy(self):
        s = State()
        s.env = dict(self.env)
        s.ptr = dict(self.ptr)
        s.facts = list(self.facts)
        s.cap = dict(self.cap)
        s.nonneg = set(self.nonneg)
        s.trace = list(self.trace)
        return s

    def add(self, lin):
        self.facts.append(lin)

    def le(self, a, b):
        """record a <= b"""
        self.add(_lin(a) - _lin(b))

    def prove_le(self, a, b):
        return proves(self.facts, _lin(a) - _lin(b))


def _strip(n):
    while n.get("kind") in ("ImplicitCastExpr", "ParenExpr", "CStyleCastExpr", "CXXStaticCastExpr",
                            "CXXReinterpretCastExpr", "CXXConstCastExpr", "CXXFunctionalCastExpr",
                            "ConstantExpr", "ExprWithCleanups", "MaterializeTemporaryExpr"):
        inner = [c for c in n.get("inner", []) if isinstance(c, dict) and "kind" in c and not c["kind"].endswith("Type")]
        if not inner:
            break
        n = inner[-1]
    return n


def _is_unsigned(n):
    qt = (n.get("type") or {}).get("qualType", "")
    return "unsigned" in qt or "size_t" in qt


class Obligation(object):
    def __init__(self, func, site, kind, text, ok, why=""):
        self.func, self.site, self.kind, self.text, self.ok, self.why = func, site, kind, text, ok, why

    def as_dict(self):
        return dict(function=self.func, site=self.site, kind=self.kind, obligation=self.text,
                    discharged=self.ok, why=self.why)


class Interp(object):
    """contract: dict(
         assume=[(Lin<=0)...] given as strings "a <= b", "a >= 0",
         cap={param: "expr" or ("expr","scale")},
         cond=[("premise", "conclusion")],
         nul={param: True}          strlen(param)+1 <= cap(param)
         post=["0 <= ret", "ret <= nsrc"])
       callee_post: {name: callable(args Lin list, state) -> Lin result}"""

    def __init__(self, name, fdecl, contract, callee_post, fresh_prefix=""):
        self.name = name
        self.f = fdecl
        self.contract = contract
        self.callee_post = callee_post
        self.obligations = []
        self.unmodelled = []
        self.returns = []      # (Lin or None, State)
        self.ret_ptrs = []     # ((base, offset) or None, State) when the contract has retcap
        self.counter = 0
        self.symbols_unsigned = set()
        self.unreachable = []

    def fresh(self, hint):
        self.counter += 1
        return "%s#%d" % (hint, self.counter)

    # -- expression evaluation ------------------------------------------------
    def lin_of(self, n, st):
        """Integer expression -> Lin or Scaled; raises Unmodelled."""
        n = _strip(n)
        k = n.get("kind")
        if k == "IntegerLiteral":
            return Lin.const(int(n["value"]))
        if k == "CharacterLiteral":
            return Lin.const(int(n["value"]))
        if k == "DeclRefExpr":
            nm = n["referencedDecl"]["name"]
            if nm in st.env:
                return st.env[nm]
            raise Unmodelled("value of %s" % nm)
        if k == "MemberExpr":
            nm = self.member_name(n)
            if nm not in st.env:
                st.env[nm] = Lin.var(nm)
                if _is_unsigned(n):
                    st.le(0, Lin.var(nm))
                    st.nonneg.add(nm)
            return st.env[nm]
        if k == "UnaryOperator":
            op = n.get("opcode")
            sub = n["inner"][0]
            if op == "-":
                v = self.lin_of(sub, st)
                if isinstance(v, Scaled):
                    raise Unmodelled("negated scaled value")
                return v * -1
            if op == "+":
                return self.lin_of(sub, st)
            raise Unmodelled("unary %s" % op)
        if k == "BinaryOperator":
            op = n.get("opcode")
            a, b = n["inner"]
            if op in ("+", "-"):
                x, y = self.lin_of(a, st), self.lin_of(b, st)
                return self.add_values(x, y, -1 if op == "-" else 1)
            if op == "*":
                return self.mul(a, b, st)
            raise Unmodelled("binary %s" % op)
        if k == "ConditionalOperator":
            c, a, b = n["inner"]
            x, y = self.lin_of(a, st), self.lin_of(b, st)
            r = Lin.var(self.fresh("sel"))
            cond = self.cond_facts(c, st, True)
            # r == x when cond, r == y otherwise.  For `p < q ? p : q` shapes derive the min/max facts.
            if isinstance(x, Lin) and isinstance(y, Lin):
                cs = _strip(c)
                if cs.get("kind") == "BinaryOperator" and cs.get("opcode") in ("<", "<=", ">", ">="):
                    l = self.lin_of(cs["inner"][0], st)
                    rr = self.lin_of(cs["inner"][1], st)
                    if isinstance(l, Lin) and isinstance(rr, Lin):
                        same_lr = (repr(l) == repr(x) and repr(rr) == repr(y))
                        swap_lr = (repr(l) == repr(y) and repr(rr) == repr(x))
                        lt = cs["opcode"] in ("<", "<=")
                        if same_lr or swap_lr:
                            is_min = (lt and same_lr) or ((not lt) and swap_lr)
                            if is_min:
                                st.le(r, x)
                                st.le(r, y)
                            else:
                                st.le(x, r)
                                st.le(y, r)
                            # r is one of them: r >= min is implied; keep r >= 0 when both are
                            if st.prove_le(0, x) and st.prove_le(0, y):
                                st.le(0, r)
                            return r
            raise Unmodelled("conditional expression")
        if k == "CallExpr":
            return self.call_value(n, st)
        if k in ("UnaryExprOrTypeTraitExpr",):
            raise Unmodelled("sizeof")
        raise Unmodelled("expression kind %s" % k)

    def add_values(self, x, y, sign):
        if isinstance(x, Lin) and isinstance(y, Lin):
            return x + y * sign
        xs = x if isinstance(x, Scaled) else None
        ys = y if isinstance(y, Scaled) else None
        if xs and ys and xs.scale == ys.scale:
            return Scaled(xs.lin + ys.lin * sign, xs.scale)
        # scaled + plain symbol equal to the scale:  a*K + K = (a+1)*K
        if xs and isinstance(y, Lin) and list(y.t.items()) == [(xs.scale, 1)] and y.c == 0:
            return Scaled(xs.lin + sign, xs.scale)
        if ys and isinstance(x, Lin) and list(x.t.items()) == [(ys.scale, 1)] and x.c == 0 and sign == 1:
            return Scaled(ys.lin + 1, ys.scale)
        if xs and isinstance(y, Lin) and y.is_const() and y.c == 0:
            return xs
        raise Unmodelled("sum of differently scaled values")

    def mul(self, a, b, st):
        sa, sb = _strip(a), _strip(b)
        if sa.get("kind") == "UnaryExprOrTypeTraitExpr":
            # sizeof(T) * n  -> element count n (capacity is kept in elements)
            return self.lin_of(b, st)
        if sb.get("kind") == "UnaryExprOrTypeTraitExpr":
            return self.lin_of(a, st)
        x, y = self.lin_of(a, st), self.lin_of(b, st)
        if isinstance(x, Lin) and x.is_const():
            return y * x.c if isinstance(y, Lin) else Scaled(y.lin * x.c, y.scale)
        if isinstance(y, Lin) and y.is_const():
            return x * y.c if isinstance(x, Lin) else Scaled(x.lin * y.c, x.scale)
        # product with a non-negative symbol
        for p, q in ((x, y), (y, x)):
            if isinstance(q, Lin) and len(q.t) == 1 and q.c == 0 and list(q.t.values()) == [1]:
                sym = list(q.t)[0]
                if sym in st.nonneg or st.prove_le(0, q):
                    if isinstance(p, Lin):
                        return Scaled(p, sym)
        raise Unmodelled("non-linear product")

    def member_name(self, n):
        parts = []
        while n.get("kind") == "MemberExpr":
            parts.append(("->" if n.get("isArrow") else ".") + n.get("name", "?"))
            n = _strip(n["inner"][0])
        base = n.get("referencedDecl", {}).get("name", "?") if n.get("kind") == "DeclRefExpr" else "?"
        return base + "".join(reversed(parts))

    def call_value(self, n, st):
        callee = _strip(n["inner"][0])
        name = callee.get("referencedDecl", {}).get("name") or callee.get("name")
        if callee.get("kind") == "MemberExpr":
            name = callee.get("name")
        args = n["inner"][1:]
        if name == "strlen":
            base, off = self.ptr_of(args[0], st)
            sym = "strlen(%s)" % base
            r = Lin.var(sym)
            st.le(0, r)
            st.nonneg.add(sym)
            cap = st.cap.get(base)
            if base in self.contract.get("nul", {}) and cap is not None and isinstance(cap, Lin):
                st.le(r + 1, cap)
            elif base in self.contract.get("nul", {}) and cap is not None and isinstance(cap, Scaled) and cap.scale is None:
                st.le(r + 1, cap.lin)
            return r
        if name in self.callee_post:
            vals = []
            for a in args:
                try:
                    vals.append(self.lin_of(a, st))
                except Unmodelled:
                    vals.append(None)
            self.check_callee_pre(name, n, args, vals, st)
            return self.callee_post[name]["value"](self, vals, st)
        raise Unmodelled("call of %s" % name)

    def check_callee_pre(self, name, n, args, vals, st):
        pre = self.callee_post[name].get("pre")
        if pre:
            pre(self, n, args, vals, st)

    def ptr_of(self, n, st):
        """Pointer expression -> (base name, offset Lin|Scaled)."""
        n = _strip(n)
        k = n.get("kind")
        if k == "DeclRefExpr":
            nm = n["referencedDecl"]["name"]
            if nm in st.ptr and st.ptr[nm] is not None:
                return st.ptr[nm]
            return (nm, Lin.const(0))
        if k == "MemberExpr":
            nm = self.member_name(n)
            if nm in st.ptr and st.ptr[nm] is not None:
                return st.ptr[nm]
            return (nm, Lin.const(0))
        if k == "BinaryOperator" and n.get("opcode") in ("+", "-"):
            a, b = n["inner"]
            base, off = self.ptr_of(a, st)
            d = self.lin_of(b, st)
            return (base, self.add_values(off, d, 1 if n["opcode"] == "+" else -1))
        if k == "UnaryOperator" and n.get("opcode") == "&":
            sub = _strip(n["inner"][0])
            if sub.get("kind") == "ArraySubscriptExpr":
                base, off = self.ptr_of(sub["inner"][0], st)
                return (base, self.add_values(off, self.lin_of(sub["inner"][1], st), 1))
        if k == "CallExpr":
            callee = _strip(n["inner"][0])
            name = callee.get("referencedDecl", {}).get("name")
            if name in ("malloc", "calloc"):
                sym = self.fresh("heap")
                args = n["inner"][1:]
                size = self.lin_of(args[0], st) if name == "malloc" else self.lin_of(args[0], st)
                st.cap[sym] = size
                return (sym, Lin.const(0))
        raise Unmodelled("pointer expression %s" % k)

    # -- conditions ------------------------------------------------------------
    def cond_facts(self, c, st, polarity):
        """Add the linear facts implied by condition c being `polarity` to st.
        Returns False when the branch is provably infeasible."""
        c = _strip(c)
        k = c.get("kind")
        if k == "UnaryOperator" and c.get("opcode") == "!":
            return self.cond_facts(c["inner"][0], st, not polarity)
        if k == "BinaryOperator":
            op = c.get("opcode")
            if op in ("&&", "||"):
                a, b = c["inner"]
                if (op == "&&") == polarity:
                    return self.cond_facts(a, st, polarity) and self.cond_facts(b, st, polarity)
                return True       # disjunction: no facts
            if op in ("<", "<=", ">", ">=", "==", "!="):
                try:
                    x = self.lin_of(c["inner"][0], st)
                    y = self.lin_of(c["inner"][1], st)
                except Unmodelled:
                    return True
                if isinstance(x, Scaled) or isinstance(y, Scaled):
                    return True
                if not polarity:
                    op = {"<": ">=", "<=": ">", ">": "<=", ">=": "<", "==": "!=", "!=": "=="}[op]
                if op == "<":
                    st.le(x + 1, y)
                elif op == "<=":
                    st.le(x, y)
                elif op == ">":
                    st.le(y + 1, x)
                elif op == ">=":
                    st.le(y, x)
                elif op == "==":
                    st.le(x, y)
                    st.le(y, x)
                elif op == "!=":
                    # integer disequality: tighten a provable one-sided bound
                    if st.prove_le(y, x):
                        st.le(y + 1, x)
                    elif st.prove_le(x, y):
                        st.le(x + 1, y)
                return not infeasible(st.facts)
        return True

    # -- obligations -----------------------------------------------------------
    def oblige(self, site, kind, text, ok, why=""):
        self.obligations.append(Obligation(self.name, site, kind, text, ok, why))

    def access(self, site, what, ptr_node, length, st, write, from_signed=True):
        """Obligations for touching [ptr, ptr+length)."""
        if infeasible(st.facts):
            self.unreachable.append(site + "/" + what)
            return
        try:
            base, off = self.ptr_of(ptr_node, st)
        except Unmodelled as e:
            self.oblige(site, what, "pointer not modelled: %s" % e, False, "unmodelled")
            return
        cap = st.cap.get(base)
        desc = "%s %s[%r .. +%r)" % ("write" if write else "read", base, off, length)
        if cap is None:
            if write:
                self.oblige(site, what, desc + " <= cap(%s)" % base, False, "no capacity known for %s" % base)
            else:
                self.unmodelled.append("%s: read of %s whose extent is not given to the helper" % (site, base))
            return
        # normalise to a common scale
        vals = [off, length, cap]
        scales = set(v.scale for v in vals if isinstance(v, Scaled) and v.scale)
        if len(scales) > 1:
            self.oblige(site, what, desc, False, "mixed scales %s" % sorted(scales))
            return
        scale = list(scales)[0] if scales else None

        def unscale(v):
            if isinstance(v, Scaled):
                if v.scale == scale:
                    return v.lin
                if v.scale is None:
                    v = v.lin
                else:
                    return None
            if scale is None:
                return v
            # plain value in a scaled comparison: only 0 or the scale symbol itself are comparable
            if v.is_const() and v.c == 0:
                return Lin.const(0)
            if list(v.t.items()) == [(scale, 1)] and v.c == 0:
                return Lin.const(1)
            return None
        o, l, c = unscale(off), unscale(length), unscale(cap)
        if l is None and scale is not None and isinstance(length, Lin):
            # a plain length that is provably at most one unit of the scale (e.g. ntrim <= len)
            if st.prove_le(length, Lin.var(scale)) and st.prove_le(0, length):
                l = Lin.const(1)
        if o is None or l is None or c is None:
            self.oblige(site, what, desc, False, "values not comparable at scale %s" % scale)
            return
        if scale is not None and scale not in st.nonneg and not st.prove_le(0, Lin.var(scale)):
            self.oblige(site, what, desc, False, "scale %s not known to be non-negative" % scale)
            return
        ok1 = st.prove_le(0, o)
        ok2 = st.prove_le(0, l) or (isinstance(length, Lin) and scale is not None and st.prove_le(0, length))
        ok3 = st.prove_le(o + l, c)
        self.oblige(site, what, "0 <= offset  [%r]" % o, ok1, "" if ok1 else "cannot prove offset >= 0")
        self.oblige(site, what, "0 <= length  [%r]" % l, ok2, "" if ok2 else "cannot prove length >= 0 "
                    "(a negative int converted to size_t is a huge length)")
        self.oblige(site, what, "offset + length <= cap(%s)  [%r + %r <= %r]%s"
                    % (base, o, l, c, (" *%s" % scale) if scale else ""), ok3,
                    "" if ok3 else "cannot prove the access stays inside the buffer")

    # -- statements -------------------------------------------------------------
    def run(self):
        st = State()
        body = None
        for c in self.f.get("inner", []):
            if c.get("kind") == "ParmVarDecl":
                nm = c["name"]
                qt = c["type"]["qualType"]
                if "*" in qt:
                    st.ptr[nm] = None
                else:
                    st.env[nm] = Lin.var(nm)
                    if "unsigned" in qt or "size_t" in qt:
                        st.le(0, Lin.var(nm))
                        st.nonneg.add(nm)
            elif c.get("kind") == "CompoundStmt":
                body = c
        if body is None:
            raise AnalysisError("helper %s has no body" % self.name)
        self.apply_contract(st)
        finals = self.exec_block(body.get("inner", []), [st])
        for s in finals:
            self.returns.append((None, s))
        self.check_post()
        return self

    def parse_rel(self, text, st):
        import re
        m = re.match(r"^\s*(.+?)\s*(<=|>=|==|<|>)\s*(.+?)\s*$", text)
        if not m:
            raise AnalysisError("bad contract relation %r" % text)
        a, op, b = m.group(1), m.group(2), m.group(3)
        x, y = self.parse_lin(a, st), self.parse_lin(b, st)
        if op == "<=":
            return [x - y]
        if op == ">=":
            return [y - x]
        if op == "<":
            return [x + 1 - y]
        if op == ">":
            return [y + 1 - x]
        return [x - y, y - x]

    def parse_lin(self, text, st):
        import re
        text = text.strip()
        out = Lin.const(0)
        for sign, tok in re.findall(r"([+-]?)\s*([A-Za-z_]\w*(?:(?:->|\.)[A-Za-z_]\w*)*|\d+)", text):
            s = -1 if sign == "-" else 1
            if tok.isdigit():
                out = out + Lin.const(int(tok) * s)
            else:
                out = out + Lin.var(tok) * s
        return out

    def apply_contract(self, st):
        c = self.contract
        for rel in c.get("assume", []):
            for l in self.parse_rel(rel, st):
                st.add(l)
        for sym in c.get("nonneg", []):
            st.nonneg.add(sym)
            st.le(0, Lin.var(sym))
        for p, cap in c.get("cap", {}).items():
            if isinstance(cap, tuple):
                st.cap[p] = Scaled(self.parse_lin(cap[0], st), cap[1])
            else:
                st.cap[p] = self.parse_lin(cap, st)
        for alias, target in c.get("alias", {}).items():
            st.ptr[alias] = (target, Lin.const(0))

    def apply_conditional_contracts(self, st):
        for prem, concl in self.contract.get("cond", []):
            ps = self.parse_rel(prem, st)
            if all(proves(st.facts, p) for p in ps):
                for l in self.parse_rel(concl, st):
                    if not proves(st.facts, l):
                        st.add(l)

    def exec_block(self, stmts, states):
        for s in stmts:
            nxt = []
            for st in states:
                nxt.extend(self.exec_stmt(s, st))
            states = nxt
            if not states:
                break
        return states

    def site(self, n):
        loc = n.get("range", {}).get("begin", {})
        line = loc.get("line") or loc.get("expansionLoc", {}).get("line") or loc.get("spellingLoc", {}).get("line")
        return "%s:%s" % (self.name, line if line is not None else "?")

    def exec_stmt(self, n, st):
        k = n.get("kind")
        self.apply_conditional_contracts(st)
        if k == "CompoundStmt":
            return self.exec_block(n.get("inner", []), [st])
        if k == "NullStmt":
            return [st]
        if k == "DeclStmt":
            for d in n.get("inner", []):
                if d.get("kind") == "VarDecl":
                    self.declare(d, st)
            return [st]
        if k == "IfStmt":
            inner = n.get("inner", [])
            cond, then = inner[0], inner[1]
            els = inner[2] if len(inner) > 2 else None
            out = []
            s1 = st.copy()
            if self.cond_facts(cond, s1, True):
                out.extend(self.exec_stmt(then, s1))
            s2 = st.copy()
            if self.cond_facts(cond, s2, False):
                if els is not None:
                    out.extend(self.exec_stmt(els, s2))
                else:
                    out.append(s2)
            return out
        if k == "ForStmt":
            return self.exec_for(n, st)
        if k == "ReturnStmt":
            val = None
            inner = n.get("inner", [])
            if inner:
                try:
                    val = self.lin_of(inner[0], st)
                except Unmodelled:
                    val = None
            self.returns.append((val, st))
            if inner and self.contract.get("retcap"):
                try:
                    self.ret_ptrs.append((self.ptr_of(inner[0], st), st))
                except Unmodelled:
                    self.ret_ptrs.append((None, st))
            return []
        if k == "BreakStmt":
            st.trace.append("break")
            self._breaks.append(st)
            return []
        if k == "ContinueStmt":
            return []
        # expression statements
        self.exec_expr(n, st)
        return [st]

    def declare(self, d, st):
        nm = d["name"]
        qt = d["type"]["qualType"]
        init = [c for c in d.get("inner", []) if isinstance(c, dict) and "kind" in c]
        if "*" in qt:
            if init:
                try:
                    st.ptr[nm] = self.ptr_of(init[0], st)
                except Unmodelled as e:
                    st.ptr[nm] = None
                    self.unmodelled.append("%s: pointer %s = <%s>" % (self.site(d), nm, e))
            else:
                st.ptr[nm] = None
            return
        if init:
            try:
                st.env[nm] = self.lin_of(init[0], st)
            except Unmodelled as e:
                sym = self.fresh(nm)
                st.env[nm] = Lin.var(sym)
                self.unmodelled.append("%s: %s = <%s>" % (self.site(d), nm, e))
            if "unsigned" in qt or "size_t" in qt:
                pass
        else:
            st.env[nm] = Lin.var(self.fresh(nm))

    def assign(self, lhs, value_node, st, op="="):
        lhs = _strip(lhs)
        k = lhs.get("kind")
        if k in ("DeclRefExpr", "MemberExpr"):
            nm = lhs["referencedDecl"]["name"] if k == "DeclRefExpr" else self.member_name(lhs)
            qt = (lhs.get("type") or {}).get("qualType", "")
            if "*" in qt:
                try:
                    if op == "=":
                        st.ptr[nm] = self.ptr_of(value_node, st)
                    else:
                        base, off = st.ptr[nm] if st.ptr.get(nm) else (nm, Lin.const(0))
                        d = self.lin_of(value_node, st)
                        st.ptr[nm] = (base, self.add_values(off, d, 1 if op == "+=" else -1))
                except Unmodelled as e:
                    st.ptr[nm] = None
                    self.unmodelled.append("%s: pointer update of %s <%s>" % (self.site(lhs), nm, e))
                return
            try:
                v = self.lin_of(value_node, st)
                if op == "=":
                    st.env[nm] = v
                elif op in ("+=", "-="):
                    st.env[nm] = self.add_values(st.env[nm], v, 1 if op == "+=" else -1)
                elif op == "*=":
                    cur = st.env[nm]
                    if isinstance(v, Lin) and len(v.t) == 1 and v.c == 0 and list(v.t.values()) == [1]:
                        sym = list(v.t)[0]
                        if (sym in st.nonneg or st.prove_le(0, v)) and isinstance(cur, Lin):
                            st.env[nm] = Scaled(cur, sym)
                            st.nonneg.add(sym)
                        else:
                            raise Unmodelled("*= by a value not known non-negative")
                    elif isinstance(v, Lin) and v.is_const() and isinstance(cur, Lin):
                        st.env[nm] = cur * v.c
                    else:
                        raise Unmodelled("*=")
                else:
                    raise Unmodelled("assignment operator %s" % op)
            except Unmodelled as e:
                st.env[nm] = Lin.var(self.fresh(nm))
                self.unmodelled.append("%s: %s %s <%s>" % (self.site(lhs), nm, op, e))
            return
        if k == "ArraySubscriptExpr":
            idx = lhs["inner"][1]
            try:
                i = self.lin_of(idx, st)
            except Unmodelled as e:
                self.oblige(self.site(lhs), "store", "index not modelled: %s" % e, False, "unmodelled")
                return
            if isinstance(i, Scaled):
                self.oblige(self.site(lhs), "store", "scaled index", False, "unmodelled")
                return
            self.access_index(lhs, i, st, True)
            return
        if k == "UnaryOperator" and lhs.get("opcode") == "*":
            self.access(self.site(lhs), "store", lhs["inner"][0], Lin.const(1), st, True)
            return
        self.unmodelled.append("%s: assignment to %s" % (self.site(lhs), k))

    def access_index(self, sub, i, st, write):
        basen = sub["inner"][0]
        site = self.site(sub)
        if infeasible(st.facts):
            self.unreachable.append(site + "/index")
            return
        try:
            base, off = self.ptr_of(basen, st)
        except Unmodelled as e:
            self.oblige(site, "index", "pointer not modelled: %s" % e, False, "unmodelled")
            return
        cap = st.cap.get(base)
        desc = "%s %s[%r + %r]" % ("write" if write else "read", base, off, i)
        if cap is None:
            if write:
                self.oblige(site, "index", desc, False, "no capacity known for %s" % base)
            else:
                self.unmodelled.append("%s: read %s without a given extent" % (site, base))
            return
        if isinstance(off, Scaled) or isinstance(cap, Scaled):
            if isinstance(off, Scaled) and isinstance(cap, Scaled) and off.scale == cap.scale:
                # element i of a row: need row index < rows and i < scale
                ok = st.prove_le(0, off.lin) and st.prove_le(off.lin + 1, cap.lin) and st.prove_le(0, i) and \
                    st.prove_le(i + 1, Lin.var(off.scale))
                self.oblige(site, "index", desc + " inside row", ok, "" if ok else "cannot prove row access in bounds")
                return
            self.oblige(site, "index", desc, False, "scaled offset/capacity")
            return
        o = off + i
        ok1 = st.prove_le(0, o)
        ok2 = st.prove_le(o + 1, cap)
        self.oblige(site, "index", "0 <= %r" % o, ok1, "" if ok1 else "cannot prove index >= 0")
        self.oblige(site, "index", "%r < cap(%s) = %r" % (o, base, cap), ok2, "" if ok2 else "cannot prove index < capacity")

    def exec_expr(self, n, st):
        n0 = n
        n = _strip(n)
        k = n.get("kind")
        if k == "BinaryOperator" and n.get("opcode") == "=":
            self.scan_reads(n["inner"][1], st)
            self.assign(n["inner"][0], n["inner"][1], st, "=")
            return
        if k == "CompoundAssignOperator":
            self.scan_reads(n["inner"][1], st)
            self.assign(n["inner"][0], n["inner"][1], st, n.get("opcode"))
            return
        if k == "UnaryOperator" and n.get("opcode") in ("++", "--"):
            lhs = _strip(n["inner"][0])
            if lhs.get("kind") == "DeclRefExpr":
                nm = lhs["referencedDecl"]["name"]
                d = 1 if n["opcode"] == "++" else -1
                if nm in st.env and isinstance(st.env[nm], Lin):
                    st.env[nm] = st.env[nm] + d
                elif nm in st.ptr and st.ptr[nm]:
                    b, o = st.ptr[nm]
                    st.ptr[nm] = (b, self.add_values(o, Lin.const(d), 1))
            return
        if k == "CallExpr":
            self.exec_call(n, st)
            return
        self.scan_reads(n, st)

    def scan_reads(self, n, st):
        """Array-subscript reads inside an expression."""
        if not isinstance(n, dict):
            return
        if n.get("kind") == "ArraySubscriptExpr":
            try:
                i = self.lin_of(n["inner"][1], st)
                if isinstance(i, Lin):
                    self.access_index(n, i, st, False)
            except Unmodelled:
                pass
        if n.get("kind") == "CallExpr":
            callee = _strip(n["inner"][0])
            name = callee.get("referencedDecl", {}).get("name")
            if name in self.callee_post:
                try:
                    self.call_value(n, st)
                except Unmodelled:
                    pass
                return
        for c in n.get("inner", []) or []:
            self.scan_reads(c, st)

    def exec_call(self, n, st):
        callee = _strip(n["inner"][0])
        name = callee.get("referencedDecl", {}).get("name") or callee.get("name")
        args = n["inner"][1:]
        site = self.site(n)
        if name in ("memcpy", "memmove", "strncpy"):
            try:
                length = self.lin_of(args[2], st)
            except Unmodelled as e:
                self.oblige(site, name, "length not modelled: %s" % e, False, "unmodelled")
                return
            self.access(site, name + ":dest", args[0], length, st, True)
            self.access(site, name + ":src", args[1], length, st, False)
            return
        if name == "memset":
            try:
                length = self.lin_of(args[2], st)
            except Unmodelled as e:
                self.oblige(site, name, "length not modelled: %s" % e, False, "unmodelled")
                return
            self.access(site, "memset:dest", args[0], length, st, True)
            return
        if name in ("strcpy", "strcat", "sprintf", "gets"):
            self.oblige(site, name, "unbounded write", False, "%s has no length argument" % name)
            return
        if name in ("free",):
            return
        if name in self.callee_post:
            try:
                self.call_value(n, st)
            except Unmodelled:
                pass
            return
        for a in args:
            self.scan_reads(a, st)

    def exec_for(self, n, st):
        inner = n.get("inner", [])
        # clang: [init, condvar(null), cond, inc, body]
        init, cond, inc, body = inner[0], inner[2], inner[3], inner[4]
        st = st.copy()
        ivar = None
        start = None
        if init and init.get("kind") == "DeclStmt":
            d = init["inner"][0]
            self.declare(d, st)
            ivar = d["name"]
            start = st.env.get(ivar)
        elif init and init.get("kind"):
            e = _strip(init)
            if e.get("kind") == "BinaryOperator" and e.get("opcode") == "=":
                self.assign(e["inner"][0], e["inner"][1], st, "=")
                l = _strip(e["inner"][0])
                if l.get("kind") == "DeclRefExpr":
                    ivar = l["referencedDecl"]["name"]
                    start = st.env.get(ivar)
        step = None
        if inc and inc.get("kind"):
            e = _strip(inc)
            if e.get("kind") == "UnaryOperator" and e.get("opcode") in ("++", "--"):
                l = _strip(e["inner"][0])
                if l.get("kind") == "DeclRefExpr" and l["referencedDecl"]["name"] == ivar:
                    step = 1 if e["opcode"] == "++" else -1
        if ivar is None or step is None or not isinstance(start, Lin):
            self.unmodelled.append("%s: loop shape not modelled" % self.site(n))
            # havoc everything assigned in the loop
            return [self.havoc_loop(n, st)]
        # pointer induction:  p += K  as last effect of the body, counter from `start` step +1
        body_stmts = body.get("inner", []) if body.get("kind") == "CompoundStmt" else [body]
        inductions = {}
        if step == 1:
            for s in body_stmts:
                e = _strip(s)
                if e.get("kind") == "CompoundAssignOperator" and e.get("opcode") == "+=":
                    l = _strip(e["inner"][0])
                    if l.get("kind") == "DeclRefExpr" and l["referencedDecl"]["name"] in st.ptr:
                        try:
                            kv = self.lin_of(e["inner"][1], st)
                        except Unmodelled:
                            continue
                        if isinstance(kv, Lin) and len(kv.t) == 1 and kv.c == 0 and list(kv.t.values()) == [1]:
                            inductions[l["referencedDecl"]["name"]] = list(kv.t)[0]
        # state inside the body
        sb = st.copy()
        isym = self.fresh(ivar)
        iv = Lin.var(isym)
        sb.env[ivar] = iv
        if step == 1:
            sb.le(start, iv)
        else:
            sb.le(iv, start)
        feasible = self.cond_facts(cond, sb, True) if cond and cond.get("kind") else True
        for p, ksym in inductions.items():
            cur = sb.ptr.get(p)
            if cur:
                base, off = cur
                if isinstance(off, Lin) and off.is_const() and off.c == 0 and isinstance(start, Lin):
                    if ksym in sb.nonneg or sb.prove_le(0, Lin.var(ksym)):
                        sb.nonneg.add(ksym)
                        sb.ptr[p] = (base, Scaled(iv - start, ksym))
        out_states = []
        self._breaks = getattr(self, "_breaks", [])
        saved_breaks = self._breaks
        self._breaks = []
        if feasible:
            self.exec_block(body_stmts, [sb])
        breaks = self._breaks
        self._breaks = saved_breaks
        # normal exit: condition false
        se = self.havoc_loop(n, st, keep=[ivar])
        esym = self.fresh(ivar)
        ev = Lin.var(esym)
        se.env[ivar] = ev
        self.cond_facts(cond, se, False)
        # exit value: reached from `start` by unit steps.  With cond `i REL bound` the loop either never
        # runs (i stays at start) or runs until the first value that falsifies cond (`lim`):
        #   step -1, i >  b : lim = b        step -1, i >= b : lim = b - 1
        #   step +1, i <  b : lim = b        step +1, i <= b : lim = b + 1
        ce = _strip(cond)
        exits = [se]
        if ce.get("kind") == "BinaryOperator" and ce.get("opcode") in (">", ">=", "<", "<="):
            l = _strip(ce["inner"][0])
            lhs_is_ivar = l.get("kind") == "DeclRefExpr" and l["referencedDecl"]["name"] == ivar
            try:
                bound = self.lin_of(ce["inner"][1], st)
            except Unmodelled:
                bound = None
            op = ce.get("opcode")
            if isinstance(bound, Lin) and lhs_is_ivar and ((step == -1 and op in (">", ">=")) or
                                                           (step == 1 and op in ("<", "<="))):
                if step == -1:
                    lim = bound if op == ">" else bound - 1
                    ran, stayed = (lim, start), (start, lim - 1)        # lim <= start | start <= lim - 1
                else:
                    lim = bound if op == "<" else bound + 1
                    ran, stayed = (start, lim), (lim + 1, start)        # start <= lim | lim + 1 <= start
                exits = []
                a = se.copy()
                a.le(*ran)
                a.le(ev, lim)
                a.le(lim, ev)
                if not infeasible(a.facts):
                    exits.append(a)
                b = se.copy()
                b.le(*stayed)
                b.le(ev, start)
                b.le(start, ev)
                if not infeasible(b.facts):
                    exits.append(b)
                if not exits:
                    exits = [se]
        out_states.extend(exits)
        for b in breaks:
            bs = self.havoc_loop(n, b, keep=[ivar])
            out_states.append(bs)
        return out_states

    def havoc_loop(self, n, st, keep=()):
        s = st.copy()
        assigned = set()

        def rec(x):
            if not isinstance(x, dict):
                return
            k = x.get("kind")
            if k in ("BinaryOperator", "CompoundAssignOperator") and x.get("opcode", "").endswith("=") and \
                    x.get("opcode") not in ("==", "!=", "<=", ">="):
                l = _strip(x["inner"][0])
                if l.get("kind") == "DeclRefExpr":
                    assigned.add(l["referencedDecl"]["name"])
            if k == "UnaryOperator" and x.get("opcode") in ("++", "--"):
                l = _strip(x["inner"][0])
                if l.get("kind") == "DeclRefExpr":
                    assigned.add(l["referencedDecl"]["name"])
            for c in x.get("inner", []) or []:
                rec(c)
        rec(n)
        for a in assigned:
            if a in keep:
                continue
            if a in s.env:
                s.env[a] = Lin.var(self.fresh(a))
            if a in s.ptr:
                s.ptr[a] = None
        return s

    def check_post(self):
        # capacity of the returned buffer: the caller is promised at least `retcap` elements
        want = self.contract.get("retcap")
        if want:
            for pv, st in self.ret_ptrs:
                if pv is None or pv[0] not in st.cap:
                    self.oblige(self.name + ":return", "retcap", "capacity of the returned pointer >= %s" % want, False,
                                "returned pointer is not a buffer allocated in this function")
                    continue
                base, off = pv
                cap = st.cap[base]
                need = self.parse_lin(want, st) if hasattr(self, "parse_lin") else None
                ok = False
                if isinstance(cap, Lin) and isinstance(off, Lin) and isinstance(need, Lin):
                    ok = proves(st.facts, need - (cap - off))
                self.oblige(self.name + ":return", "retcap", "capacity of the returned buffer >= %s  [allocated %r]" % (want, cap),
                            ok, "" if ok else "the buffer handed to the caller may be smaller than the caller was promised")
        posts = self.contract.get("post", [])
        if not posts:
            return
        for val, st in self.returns:
            if val is None:
                continue
            if isinstance(val, Scaled):
                self.oblige(self.name + ":return", "post", "scaled return value", False, "unmodelled")
                continue
            s2 = st.copy()
            s2.le(Lin.var("ret"), val)
            s2.le(val, Lin.var("ret"))
            for rel in posts:
                for l in self.parse_rel(rel, s2):
                    ok = proves(s2.facts, l)
                    self.oblige(self.name + ":return", "post", "%s  [ret = %r]" % (rel, val), ok,
                                "" if ok else "post-condition not provable at this return")


def blank_scans(fdecl):
    """Descending unit-step for-loops that test `buf[i]` against a blank: -> list of
    dict(ivar, op, bound) where bound is an int literal value or None when not a literal.
    Used to decide that a trimming scan examines every position down to index 0."""
    out = []

    def int_of(e):
        e = _strip(e)
        if e.get("kind") == "IntegerLiteral":
            return int(e["value"])
        if e.get("kind") == "UnaryOperator" and e.get("opcode") == "-":
            v = int_of(e["inner"][0])
            return None if v is None else -v
        return None

    def has_blank_test(n, ivar):
        found = [False]

        def rec(x):
            if not isinstance(x, dict):
                return
            if x.get("kind") == "BinaryOperator" and x.get("opcode") in ("!=", "=="):
                a, b = _strip(x["inner"][0]), _strip(x["inner"][1])
                for u, v in ((a, b), (b, a)):
                    if u.get("kind") == "ArraySubscriptExpr" and v.get("kind") == "CharacterLiteral" and v.get("value") == 32:
                        idx = _strip(u["inner"][1])
                        if idx.get("kind") == "DeclRefExpr" and idx["referencedDecl"]["name"] == ivar:
                            found[0] = True
            for c in x.get("inner", []) or []:
                rec(c)
        rec(n)
        return found[0]

    def rec(n):
        if not isinstance(n, dict):
            return
        if n.get("kind") == "ForStmt":
            inner = n.get("inner", [])
            if len(inner) == 5:
                cond, inc, body = inner[2], inner[3], inner[4]
                e = _strip(inc) if inc and inc.get("kind") else {}
                if e.get("kind") == "UnaryOperator" and e.get("opcode") == "--":
                    l = _strip(e["inner"][0])
                    if l.get("kind") == "DeclRefExpr":
                        ivar = l["referencedDecl"]["name"]
                        ce = _strip(cond) if cond and cond.get("kind") else {}
                        if has_blank_test(body, ivar) and ce.get("kind") == "BinaryOperator":
                            out.append(dict(ivar=ivar, op=ce.get("opcode"), bound=int_of(ce["inner"][1])))
        for c in n.get("inner", []) or []:
            rec(c)
    rec(fdecl)
    return out


def base_pointer_in_element_loop(fdecl):
    """for-loops that advance a local pointer P (`P += k`) which was initialised from a parameter Q: uses of Q
    inside the loop body (every element would then be read at the array's start).  -> list of (P, Q)."""
    out = []
    inits = {}

    def collect(n):
        if not isinstance(n, dict):
            return
        if n.get("kind") == "VarDecl" and n.get("inner"):
            e = _strip(n["inner"][-1])
            if e.get("kind") == "DeclRefExpr" and e.get("referencedDecl", {}).get("kind") == "ParmVarDecl":
                inits[n["name"]] = e["referencedDecl"]["name"]
        for c in n.get("inner", []) or []:
            collect(c)
    collect(fdecl)

    def refs(n, name, acc):
        if not isinstance(n, dict):
            return
        if n.get("kind") == "DeclRefExpr" and n.get("referencedDecl", {}).get("name") == name:
            acc.append(n)
        for c in n.get("inner", []) or []:
            refs(c, name, acc)

    def rec(n):
        if not isinstance(n, dict):
            return
        if n.get("kind") == "ForStmt":
            body = n.get("inner", [None] * 5)[4]
            adv = []

            def find_adv(x):
                if not isinstance(x, dict):
                    return
                if x.get("kind") == "CompoundAssignOperator" and x.get("opcode") == "+=":
                    l = _strip(x["inner"][0])
                    if l.get("kind") == "DeclRefExpr" and l["referencedDecl"]["name"] in inits:
                        adv.append(l["referencedDecl"]["name"])
                for c in x.get("inner", []) or []:
                    find_adv(c)
            find_adv(body)
            for p_ in adv:
                acc = []
                refs(body, inits[p_], acc)
                if acc:
                    out.append((p_, inits[p_]))
        for c in n.get("inner", []) or []:
            rec(c)
    rec(fdecl)
    return out
