"""C02 - the generated C API of a C++ library is call-equivalent to the C++
API.  Decided: structural necessary conditions in the C emitter and the
type table."""
import ast
import re

from sa import pattern, tables, templ, pyflow
from sa.loader import AnalysisError, enclosing_function, parent_chain

EXPLANATION = (
    "(R1) `this` recovery in wrapc.wrap_function: instance methods get the C_this parameter and a "
    "setup line that casts {c_var}->addr to the class pointer, static methods call through the class "
    "scope and take no this parameter, the destructor statement deletes CXX_this and nulls the handle; "
    "(R2) prototype and call lists are only appended to, inside the loop over ast.params in "
    "declaration order (no insert/sort/reverse/slice); (R3) dereference tables "
    "(compute_c_deref / compute_cxx_deref / compute_return_prefix and the call_list forms) yield "
    "consistent member/address triples; (R4) cxx_to_c / c_to_cxx conversion pairs of the type table "
    "are both present or both absent and inverse-shaped; (R5) qualifier fidelity of rendered "
    "prototypes (parser fields vs gen_arg_as_lang, shared with C09.R1); (R6) the C name template "
    "carries prefix, scope, name and both suffixes (shared with C08.R2); (R7) the C++ callee is found "
    "by following _PTR_C_CXX_index and every generated C function records it.")
NOT_DECIDED = "Run-time equality of results between the C wrapper and the C++ call for concrete values."

LISTS = ("proto_list", "proto_tail", "call_list")


def rule_r1(repo, run, table):
    R = run.rule("C02.R1", "`this` recovery: parameter + cast for instance methods, class scope for static methods")
    wc = repo.module("wrapc")
    f = wc.func("Wrapc.wrap_function")
    cls_if = [n for n in f.body if isinstance(n, ast.If) and pyflow.is_name(n.test, "cls")]
    if not cls_if:
        raise AnalysisError("C02.R1: `if cls:` block of wrap_function not found")
    cand = [c for c in cls_if if "is_static" in wc.seg(c)]
    if not cand:
        raise AnalysisError("C02.R1: the `if cls:` block handling `this` was not found")
    blk = cand[0]
    static_if = [n for n in ast.walk(blk) if isinstance(n, ast.If) and pyflow.is_name(pyflow.if_arms(n)[0], "is_static")]
    run.check(R, "wrapc.Wrapc.wrap_function:static-split", len(static_if) == 1,
              "the method branch must distinguish static from instance methods", wc.loc(blk))
    if static_if:
        st = static_if[0]
        _t, s_arm, i_arm = pyflow.if_arms(st)
        sbody = "\n".join(wc.seg(s) for s in s_arm)
        ibody = "\n".join(wc.seg(s) for s in i_arm)
        run.check(R, "wrapc.Wrapc.wrap_function:static", "CXX_this_call" in sbody and "namespace_scope" in sbody and
                  "class_scope" in sbody and "proto_list.append" not in sbody and "setup_this" not in sbody,
                  "a static method must be called through namespace_scope+class_scope and take no `this` parameter",
                  wc.loc(st), sample=dict(static_branch=sbody[:120]))
        ok = "proto_list.append" in ibody and "fmt_func.C_this" in ibody and "cls.typemap.c_type" in ibody and \
            "setup_this" in ibody and "{c_var}->addr" in ibody and "{namespace_scope}{cxx_type} *{CXX_this}" in ibody
        run.check(R, "wrapc.Wrapc.wrap_function:instance", ok,
                  "an instance method must add the C_this parameter (shadow struct pointer) and recover the C++ "
                  "object from {c_var}->addr cast to the class type", wc.loc(st))
        # this is the first prototype entry: appended before the parameter loop
        loop = [n for n in f.body if isinstance(n, ast.For) and wc.seg(n.iter) == "ast.params"]
        run.check(R, "wrapc.Wrapc.wrap_function:this-first", bool(loop) and blk.lineno < loop[0].lineno,
                  "the this parameter must precede the declared parameters", wc.loc(blk))
        # not for constructors
        tests = [wc.seg(t) for t, p in pyflow.dominating_tests(st, stop=f)]
        run.check(R, "wrapc.Wrapc.wrap_function:ctor-no-this", any("is_ctor" in t for t in tests),
                  "constructors take no this parameter", wc.loc(st))
        # c_var is the this parameter when the cast is formatted
        run.check(R, "wrapc.Wrapc.wrap_function:c_var=C_this", "fmt_func.c_var = fmt_func.C_this" in wc.seg(blk),
                  "the cast must read the shadow struct passed as C_this", wc.loc(blk))
    # setup_this is emitted inside the wrapper before the body
    run.check(R, "wrapc.Wrapc.wrap_function:setup-emitted", "impl.extend(setup_this)" in wc.seg(f),
              "the this-recovery line must be emitted at the top of the wrapper body", wc.loc(f))
    # call uses CXX_this_call
    strs = [n.value for n in ast.walk(f) if isinstance(n, ast.Constant) and isinstance(n.value, str)]
    calls = [s for s in strs if "{function_name}" in s and "{C_call_list}" in s]
    run.check(R, "wrapc.Wrapc.wrap_function:call-through-this", len(calls) == 2 and all("{CXX_this_call}{function_name}" in s for s in calls),
              "both call templates must call {CXX_this_call}{function_name}", wc.loc(f), sample=dict(calls=calls))
    # CXX_this_call for methods: set where? ClassNode format / wrap_class
    cl = wc.func("Wrapc.wrap_class")
    run.check(R, "wrapc.Wrapc.wrap_class:CXX_this_call", 'fmt_class.CXX_this_call = fmt_class.CXX_this + "->"' in wc.seg(cl) or
              "CXX_this_call" in wc.seg(cl),
              "methods must be called through the recovered object pointer", wc.loc(cl))
    e = table.resolve_all("c++").get("c_shadow_dtor")
    if e is None:
        raise AnalysisError("C02.R1: c_shadow_dtor vanished")
    call = [re.sub(r"\s+", "", x) for s in e.lines("call") for x in templ.code_lines(s)]
    run.check(R, "statements.fc_statements[c_shadow_dtor]", call[:1] == ["delete{CXX_this};"],
              "the destructor wrapper must delete the recovered object", table.loc(e.raw))
    c = table.resolve_all("c++").get("c_shadow_ctor")
    if c is not None:
        call = [re.sub(r"\s+", "", x) for s in c.lines("call") for x in templ.code_lines(s)]
        ok = any("new{cxx_type}({C_call_list})" in x or "new{namespace_scope}{cxx_type}({C_call_list})" in x for x in call) and \
            any("{shadow_var}->addr=" in x for x in call + [re.sub(r"\s+", "", y) for s in c.lines("post_call") for y in templ.code_lines(s)])
        run.check(R, "statements.fc_statements[c_shadow_ctor]", ok,
                  "the constructor wrapper must construct the class with the call list and store the address",
                  table.loc(c.raw), sample=dict(call=call))


def rule_r2(repo, run):
    R = run.rule("C02.R2", "prototype and call lists are accumulated in declaration order")
    wc = repo.module("wrapc")
    f = wc.func("Wrapc.wrap_function")
    n = 0
    for node in ast.walk(f):
        if isinstance(node, ast.Call) and isinstance(node.func, ast.Attribute):
            recv = pyflow.dotted(node.func.value)
            if recv in LISTS:
                n += 1
                run.check(R, "wrapc.Wrapc.wrap_function:%s.%s@%d" % (recv, node.func.attr, node.lineno - f.lineno),
                          node.func.attr == "append",
                          "%s is modified with %s(): argument order of the C prototype/call may no longer follow "
                          "the declaration" % (recv, node.func.attr), wc.loc(node))
        if isinstance(node, ast.Call) and (pyflow.call_name(node) or "").split(".")[-1] in ("append_format",) and node.args:
            recv = pyflow.dotted(node.args[0])
            if recv in LISTS:
                n += 1
                run.ok(R, "wrapc.Wrapc.wrap_function:append_format(%s)@%d" % (recv, node.lineno - f.lineno))
        if isinstance(node, (ast.Assign, ast.AugAssign, ast.Delete)):
            targets = node.targets if isinstance(node, (ast.Assign, ast.Delete)) else [node.target]
            for t in targets:
                if isinstance(t, ast.Subscript) and pyflow.dotted(t.value) in LISTS:
                    run.fail(R, "wrapc.Wrapc.wrap_function:%s[...]" % pyflow.dotted(t.value),
                             "element/slice assignment on an ordered argument list", wc.loc(node))
    run.floor(R, "mutation sites of prototype/call lists", n, 8)
    loops = [x for x in f.body if isinstance(x, ast.For)]
    ploop = [x for x in loops if wc.seg(x.iter) == "ast.params"]
    run.check(R, "wrapc.Wrapc.wrap_function:param-loop", len(ploop) == 1,
              "parameters must be processed by one loop over ast.params (no reversed/sorted/slice)", wc.loc(f),
              sample=dict(loop="for arg in ast.params"))
    # call_list appends are inside the parameter loop
    if ploop:
        for node in ast.walk(f):
            if isinstance(node, ast.Call) and isinstance(node.func, ast.Attribute) and node.func.attr == "append" \
                    and pyflow.dotted(node.func.value) == "call_list":
                inside = any(p is ploop[0] for p in parent_chain(node))
                run.check(R, "wrapc.Wrapc.wrap_function:call_list.append@%d" % (node.lineno - f.lineno), inside,
                          "a call argument is added outside the parameter loop", wc.loc(node))
    src = wc.seg(f)
    run.check(R, "wrapc.Wrapc.wrap_function:join", 'fmt_func.C_call_list = ",\\t ".join(call_list)' in src and
              '",\\t ".join(proto_list + proto_tail)' in src,
              "the lists must be joined in order (prototype: proto_list then proto_tail)", wc.loc(f))
    bp = wc.func("Wrapc.build_proto_list")
    run.check(R, "wrapc.Wrapc.build_proto_list:order", "for buf_arg in buf_args:" in wc.seg(bp),
              "buffer arguments must be emitted in the order of the entry's buf_args", wc.loc(bp))


def _branch_results(mod, f, fields):
    """[(condition text, {field: const})] for an if/elif chain assigning fmt.<field> constants."""
    out = []
    top = [n for n in f.body if isinstance(n, ast.If)]
    if not top:
        return out
    cur = top[0]
    while True:
        vals = {}
        for st in cur.body:
            if isinstance(st, ast.Assign) and isinstance(st.targets[0], ast.Attribute) and st.targets[0].attr in fields:
                vals[st.targets[0].attr] = pyflow.const_str(st.value)
        out.append((mod.seg(cur.test), vals))
        if len(cur.orelse) == 1 and isinstance(cur.orelse[0], ast.If):
            cur = cur.orelse[0]
        else:
            vals = {}
            for st in cur.orelse:
                if isinstance(st, ast.Assign) and isinstance(st.targets[0], ast.Attribute) and st.targets[0].attr in fields:
                    vals[st.targets[0].attr] = pyflow.const_str(st.value)
            out.append(("else", vals))
            break
    return out


def rule_r3(repo, run):
    R = run.rule("C02.R3", "dereference tables are consistent (scalar: '.', '&' ; pointer: '->', '')")
    wc = repo.module("wrapc")
    n = 0
    for fname, member, addr, deref in (("compute_c_deref", "c_member", "c_addr", "c_deref"),
                                       ("compute_cxx_deref", "cxx_member", "cxx_addr", None)):
        f = wc.func(fname)
        br = _branch_results(wc, f, (member, addr, deref))
        if len(br) != 4:
            raise AnalysisError("C02.R3: %s no longer has four branches" % fname)
        for cond, vals in br:
            n += 1
            m, a = vals.get(member), vals.get(addr)
            ok = (m, a) in ((".", "&"), ("->", ""))
            run.check(R, "wrapc.%s[%s]" % (fname, cond), ok,
                      "member %r with address-of %r is not a consistent pair" % (m, a), wc.loc(f),
                      sample=dict(branch=cond, member=m, addr=a))
            if deref:
                d = vals.get(deref)
                run.check(R, "wrapc.%s[%s].deref" % (fname, cond), (m == "." and d == "") or (m == "->" and d == "*"),
                          "deref %r does not match member %r" % (d, m), wc.loc(f))
            if '"scalar"' in cond:
                run.check(R, "wrapc.%s[scalar]" % fname, m == ".", "a scalar local uses '.'", wc.loc(f))
            if '"pointer"' in cond:
                run.check(R, "wrapc.%s[pointer]" % fname, m == "->", "a pointer local uses '->'", wc.loc(f))
            if "is_pointer()" in cond or "is_indirect()" in cond:
                run.check(R, "wrapc.%s[indirect]" % fname, m == "->", "an indirect argument uses '->'", wc.loc(f))
    sm = repo.module("statements")
    f = sm.func("compute_return_prefix")
    src = sm.seg(f)
    # scalar local: pointer result -> '&', else '' ; pointer local: pointer result -> '', else '*'
    ifs = [x for x in f.body if isinstance(x, ast.If)]
    table_ = {}
    cur = ifs[0]
    while True:
        key = str(sm.seg(cur.test))
        inner = [x for x in cur.body if isinstance(x, ast.If)]
        if inner:
            t = pyflow.const_str(inner[0].body[0].value)
            e = pyflow.const_str(inner[0].orelse[0].value)
            table_[key] = (t, e)
        else:
            table_[key] = (pyflow.const_str(cur.body[0].value),)
        if len(cur.orelse) == 1 and isinstance(cur.orelse[0], ast.If):
            cur = cur.orelse[0]
        else:
            table_["else"] = (pyflow.const_str(cur.orelse[0].value),)
            break
    n += 1
    run.check(R, "statements.compute_return_prefix", table_.get("local_var == 'scalar'") == ("&", "") and
              table_.get("local_var == 'pointer'") == ("", "*") and table_.get("arg.is_reference()") == ("&",) and
              table_.get("else") == ("",),
              "return prefix table changed: %s" % table_, sm.loc(f), sample=dict(table={k: list(v) for k, v in table_.items()}))
    # call_list forms in wrap_function
    f = wc.func("Wrapc.wrap_function")
    forms = {}
    for node in ast.walk(f):
        if isinstance(node, ast.Call) and isinstance(node.func, ast.Attribute) and node.func.attr == "append" and \
                pyflow.dotted(node.func.value) == "call_list":
            conds = [(wc.seg(t), p) for t, p in pyflow.dominating_tests(node, stop=f)]
            forms[str(wc.seg(node.args[0]))] = forms.get(str(wc.seg(node.args[0])), []) + [conds]
    def has(form, *needles):
        for conds in forms.get(form.replace('"', "'"), []):
            flat = " ".join("%s=%s" % c for c in conds)
            if all(nd.replace('"', "'") in flat for nd in needles):
                return True
        return False
    n += 4
    run.check(R, "wrapc.Wrapc.wrap_function:call[scalar,pointer-arg]", has('"&" + fmt_arg.cxx_var', 'cxx_local_var == "scalar"=True', "arg.is_pointer()=True"),
              "a scalar local passed to a pointer parameter must be passed by address", wc.loc(f))
    run.check(R, "wrapc.Wrapc.wrap_function:call[pointer,value-arg]", has('"*" + fmt_arg.cxx_var', 'cxx_local_var == "pointer"=True', "arg.is_pointer()=False"),
              "a pointer local passed to a value/reference parameter must be dereferenced", wc.loc(f))
    run.check(R, "wrapc.Wrapc.wrap_function:call[reference]", has('"*" + fmt_arg.cxx_var', "arg.is_reference()=True"),
              "a C pointer passed to a C++ reference parameter must be dereferenced", wc.loc(f))
    run.check(R, "wrapc.Wrapc.wrap_function:call[plain]", any(k == "fmt_arg.cxx_var" for k in forms),
              "other arguments are passed unchanged", wc.loc(f))
    run.floor(R, "dereference branches", n, 12)


def rule_r4(repo, run, types):
    R = run.rule("C02.R4", "C <-> C++ value conversions come in inverse pairs")
    n = 0
    for name, t in sorted(types.types.items()):
        a, b = t.get("cxx_to_c"), t.get("c_to_cxx")
        if a is None and b is None:
            continue
        n += 1
        construct = "typemap[%s].conversions" % name
        if name == "std::string":
            # one-way by design: a C string is converted by the statement entries (std::string ctor)
            run.check(R, construct, a is not None and "c_str()" in str(a) and b is None,
                      "std::string converts to C with c_str(); the reverse is done by the statement table", types.loc(name),
                      sample=dict(type=name, cxx_to_c=str(a)))
            continue
        ok = a is not None and b is not None
        probs = []
        if not ok:
            probs.append("only one direction is defined (cxx_to_c=%r, c_to_cxx=%r)" % (a, b))
        else:
            fa = re.match(r"^\s*(\w+)\s*\(", str(a))
            fb = re.match(r"^\s*(\w+)\s*\(", str(b))
            if fa and fb:
                x, y = fa.group(1), fb.group(1)
                inv = (x.endswith("c2f") and y.endswith("f2c") and x[:-3] == y[:-3]) or \
                    (x.startswith("static_cast") and y.startswith("static_cast"))
                if not inv:
                    probs.append("%s(...) and %s(...) are not an inverse pair" % (x, y))
            if "{cxx_var}" not in str(a):
                probs.append("cxx_to_c does not convert {cxx_var}")
            if "{c_var}" not in str(b):
                probs.append("c_to_cxx does not convert {c_var}")
        run.check(R, construct, not probs, "; ".join(probs), types.loc(name),
                  sample=dict(type=name, cxx_to_c=str(a), c_to_cxx=str(b)))
    tm = repo.module("typemap")
    f = tm.func("create_enum_typemap")
    s = tm.seg(f)
    n += 1
    run.check(R, "typemap.create_enum_typemap", 'static_cast<{namespace_scope}{enum_name}>({{c_var}})' in s and
              'ntypemap.cxx_to_c = "static_cast<int>({cxx_var})"' in s,
              "enum values cross as int: cast to int on the way out and back to the enum type on the way in", tm.loc(f))
    f = tm.func("fill_shadow_typemap_defaults")
    s = tm.seg(f)
    n += 1
    run.check(R, "typemap.fill_shadow_typemap_defaults", "static_cast<{c_const}void *>(\\t{cxx_addr}{cxx_var})" in s and
              "({c_var}->addr)" in s and "% ntypemap.cxx_type" in s,
              "class instances cross as void* in the shadow struct and are cast back to the class type", tm.loc(f))
    run.floor(R, "conversion pairs", n, 4)


def rule_r5(repo, run):
    R = run.rule("C02.R5", "type-affecting parts of a parsed declaration reach the rendered C/C++ prototypes")
    from checks import c09
    dm = repo.module("declast")
    written = c09.written_fields(dm, run, R)
    rd, f = c09.reads_of(dm, "Declaration", "gen_arg_as_lang")
    n = 0
    for (cls, field), locs in sorted(written.items()):
        if cls == "Declaration" and field in c09.TYPE_AFFECTING:
            n += 1
            run.check(R, "declast.Declaration.gen_arg_as_lang:%s" % field, field in rd,
                      "the parser records Declaration.%s but gen_arg_as_lang never reads it: the C/C++ prototype "
                      "denotes a different type than the declaration" % field, dm.loc(f), sample=dict(field=field))
    rdp, fp = c09.reads_of(dm, "Ptr", "gen_decl_work")
    for fld in ("ptr", "const", "volatile"):
        n += 1
        run.check(R, "declast.Ptr.gen_decl_work:%s" % fld, fld in rdp,
                  "pointer-level %s is not rendered" % fld, dm.loc(fp))
    # as_c turns references into pointers only
    s = dm.seg(fp)
    run.check(R, "declast.Ptr.gen_decl_work:as_c", 'kwargs.get("as_c", False)' in s and 'decl.append("*")' in s and
              "decl.append(self.ptr)" in s,
              "in C a reference becomes a pointer; otherwise the declared operator is kept", dm.loc(fp))
    g = dm.func("Declaration.gen_arg_as_lang")
    s = dm.seg(g)
    run.check(R, "declast.Declaration.gen_arg_as_lang:lang-type", "typ = getattr(ntypemap, lang)" in s and
              'if lang == "c_type":' in s and "as_c=True" in s,
              "the C rendering must use the typemap's C type and the as_c pointer rule", dm.loc(g))
    run.floor(R, "type-affecting fields", n, 8)


def rule_r6(repo, run):
    R = run.rule("C02.R6", "the C name template carries prefix, scope, name and both suffixes")
    am = repo.module("ast")
    f = am.func("LibraryNode.default_options")
    val = None
    for node in ast.walk(f):
        if isinstance(node, ast.Call) and (pyflow.call_name(node) or "").split(".")[-1] == "Scope":
            for k in node.keywords:
                if k.arg == "C_name_template":
                    val = pyflow.const_str(k.value)
    need = ["{C_prefix}", "{C_name_scope}", "{underscore_name}", "{function_suffix}", "{template_suffix}"]
    missing = [x for x in need if x not in (val or "")]
    run.check(R, "ast.LibraryNode.default_options.C_name_template", val is not None and not missing,
              "C_name_template %r lacks %s" % (val, missing), am.loc(f), sample=dict(template=val))
    # scopes: namespace and class both extend C_name_scope
    for cname in ("NamespaceNode", "ClassNode"):
        fn = am.func(cname + ".default_format")
        s = am.seg(fn)
        run.check(R, "ast.%s.default_format:C_name_scope" % cname, "parent.fmtdict.C_name_scope + self.apply_case_option(self.name) + \"_\"" in s,
                  "%s must extend the parent's C name scope with its own name" % cname, am.loc(fn))
    df = am.func("LibraryNode.default_format")
    run.check(R, "ast.LibraryNode.default_format:C_prefix", 'C_prefix = self.library.upper()[:3] + "_"' in am.seg(df),
              "the default C prefix is the first three letters of the library name, upper case, plus underscore", am.loc(df))


def rule_r7(repo, run):
    R = run.rule("C02.R7", "the C wrapper of a generated variant calls the original C++ function")
    wc = repo.module("wrapc")
    f = wc.func("Wrapc.wrap_function")
    s = wc.seg(f)
    run.check(R, "wrapc.Wrapc.wrap_function:follow-index",
              "while CXX_node._PTR_C_CXX_index is not None:" in s and
              "CXX_node = self.newlibrary.function_index[CXX_node._PTR_C_CXX_index]" in s and "CXX_ast = CXX_node.ast" in s,
              "the C++ callee must be found by following _PTR_C_CXX_index through the function index", wc.loc(f))
    run.check(R, "wrapc.Wrapc.wrap_function:callee-name", "CXX_subprogram = CXX_ast.get_subprogram()" in s and
              "is_ctor = CXX_ast.is_ctor()" in s, "constructor/destructor/subprogram kind come from the C++ node", wc.loc(f))
    gm = repo.module("generate")
    n = 0
    for meth in ("GenFunctions.arg_to_buffer", "GenFunctions.arg_to_CFI"):
        g = gm.func(meth)
        asg = [x for x in ast.walk(g) if isinstance(x, ast.Assign) and (pyflow.dotted(x.targets[0]) or "") == "C_new._PTR_C_CXX_index"]
        n += 1
        ok = len(asg) == 1 and gm.seg(asg[0].value) == "node._function_index" and not pyflow.dominating_tests(asg[0], stop=g)
        run.check(R, "generate.%s:_PTR_C_CXX_index" % meth, ok,
                  "the generated C function must record the index of the C++ function it wraps (unconditionally)",
                  gm.loc(g), sample=dict(site=meth))
    ai = gm.func("GenFunctions.append_function_index")
    run.check(R, "generate.GenFunctions.append_function_index", "node._function_index = len(ilist)" in gm.seg(ai) and
              "ilist.append(node)" in gm.seg(ai), "a node's index must be its position in the function index", gm.loc(ai))
    run.floor(R, "writer sites of _PTR_C_CXX_index", n, 2)


def rule_r8(repo, run):
    R = run.rule("C02.R8", "type spellings and enumerator values seen by the C caller are the C++ ones "
                           "(canonical type table: C09.R5; C side of the enum value rules: C11.R1/R6)")
    from checks import c09, c11
    from sa.report import import_rules
    import_rules(run, R, c09, repo, {"C09.R5"})
    # only what reaches the C header: explicit values are stored as C_value and wrapc prints exactly those
    import_rules(run, R, c11, repo, {"C11.R1", "C11.R6"},
                 only=lambda c: c.endswith(":C_value") or c.endswith(":int-literal") or c.startswith("wrapc."))
    # the C wrapper hands the helpers of whelpers.py the length it was given in the slot the helper reads it from (C10.R2)
    from checks import c10
    import_rules(run, R, c10, repo, {"C10.R2"})


INTENT_TABLE = [
    # (description, state, documented default)  docs/declarations.rst, docs/appendix-A.rst
    ("value argument", dict(op=None, const=False), "in"),
    ("const value argument", dict(op=None, const=True), "in"),
    ("const pointer", dict(op="*", const=True), "in"),
    ("const reference", dict(op="&", const=True), "in"),
    ("non-const pointer", dict(op="*", const=False), "inout"),
    ("non-const reference", dict(op="&", const=False), "inout"),
    ("void pointer", dict(op="*", const=False, void=True), "in"),
    ("function pointer", dict(op="*", const=False, fptr=True), "in"),
]


def rule_r9(repo, run):
    R = run.rule("C02.R9", "default intent of an argument without +intent: in for values, const pointers/references, "
                           "void* and function pointers; inout for non-const pointers and references")
    from sa import decide
    gm = repo.module("generate")
    dm = repo.module("declast")
    f = gm.func("VerifyAttrs.check_intent_attr")
    sem = decide.pointer_predicates(dm)
    if set(sem) != {"is_pointer", "is_reference", "is_indirect"}:
        raise AnalysisError("C02.R9: cannot derive the meaning of Declaration.is_pointer/is_reference/is_indirect")
    argname = f.args.args[2].arg
    nodename = f.args.args[1].arg
    # single-assignment aliases such as `is_ptr = arg.is_indirect()`
    alias = {}
    for n in f.body:
        if isinstance(n, ast.Assign) and len(n.targets) == 1 and isinstance(n.targets[0], ast.Name):
            alias.setdefault(n.targets[0].id, []).append(n.value)
    chain = [n for n in f.body if isinstance(n, ast.If)]
    if not chain:
        raise AnalysisError("C02.R9: no decision chain in check_intent_attr")
    n = 0
    for desc, st, want in INTENT_TABLE:
        def oracle(e, st=st):
            if isinstance(e, ast.Name) and e.id in alias and len(alias[e.id]) == 1:
                return decide.evaluate(alias[e.id][0], oracle)
            if isinstance(e, ast.Name) and e.id == "intent":
                return None
            if isinstance(e, ast.Compare) and len(e.ops) == 1:
                l = pyflow.dotted(e.left) or ""
                if isinstance(e.ops[0], (ast.Is, ast.IsNot)) and isinstance(e.comparators[0], ast.Constant) \
                        and e.comparators[0].value is None:
                    if l == "intent":
                        return isinstance(e.ops[0], ast.Is)          # no explicit attribute
                    if l == nodename:
                        return isinstance(e.ops[0], ast.IsNot)       # a real function node
                if l.endswith(".sgroup") and isinstance(e.ops[0], (ast.Eq, ast.NotEq)):
                    v = pyflow.const_str(e.comparators[0]) == "void" and bool(st.get("void"))
                    return v if isinstance(e.ops[0], ast.Eq) else not v
                return None
            if isinstance(e, ast.Call) and isinstance(e.func, ast.Attribute) and pyflow.is_name(e.func.value, argname):
                m = e.func.attr
                if m in sem:
                    return st["op"] in sem[m]
                if m == "is_function_pointer":
                    return bool(st.get("fptr"))
                return None
            if isinstance(e, ast.Attribute) and pyflow.is_name(e.value, argname) and e.attr == "const":
                return bool(st["const"])
            return None
        taken = decide.take(chain, oracle)
        construct = "generate.VerifyAttrs.check_intent_attr:default[%s]" % desc
        if taken is None:
            run.unmodelled_site(R, construct, "a test of the decision chain is outside the modelled predicates")
            continue
        got = None
        for s_ in taken:
            if isinstance(s_, ast.Assign) and pyflow.is_name(s_.targets[0], "intent"):
                got = pyflow.const_str(s_.value)
        n += 1
        run.check(R, construct, got == want,
                  "a %s without +intent gets intent(%s); documented default is intent(%s): %s"
                  % (desc, got, want, "the wrapper no longer copies results back to the caller" if want == "inout"
                     else "the wrapper treats an input as output"), gm.loc(f),
                  sample=dict(argument=desc, default=got))
    run.floor(R, "decided rows of the default-intent table", n, 6)


def rule_x(repo, run):
    R = run.rule("C02.R10", "every overloaded, defaulted and templated signature keeps its own documented C name "
                            "(C08.R1-R3)")
    from checks import c08
    from sa.report import import_rules
    import_rules(run, R, c08, repo, {"C08.R1", "C08.R2", "C08.R3"},
                 only=lambda c: not c.startswith(("docs/", "wrapf.")) and "F_name" not in c and "PY_" not in c and "LUA_" not in c)


def rule_r11(repo, run, table):
    R = run.rule("C02.R11", "a C++ local that copies an argument is initialised from the C argument for intent "
                            "in/inout and written back to it for intent out/inout")
    n = 0
    for lang in ("c", "c++"):
        for name, e in sorted(table.resolve_all(lang).items()):
            if not name.startswith("c_") or not e.get("cxx_local_var"):
                continue
            intent = [p_ for p_ in name.split("_") if p_ in ("in", "out", "inout")]
            if not intent:
                continue
            intent = intent[0]
            pre = "\n".join(e.lines("pre_call"))
            post = "\n".join(e.lines("post_call"))
            decl = [l for l in templ.code_lines(pre) if "{cxx_var}" in l]
            # a copy (constructed / allocated), as opposed to a pointer into the caller's storage
            copy = any(re.search(r"std::(string|vector<[^>]*>)\s*\{cxx_var\}|=\s*\t?\s*new\b|ShroudStr(Array)?Alloc", l) for l in decl)
            if not copy:
                continue
            n += 1
            probs = []
            if intent in ("in", "inout") and "{c_var}" not in pre:
                probs.append("the local copy is never given the caller's value ({c_var} is not used in pre_call: %r)"
                             % pre[:80])
            if intent in ("out", "inout") and not ("{c_var}" in post or "{c_var_context}" in post):
                probs.append("the local copy is never written back ({c_var} / {c_var_context} not used in post_call)")
            run.check(R, "statements.fc_statements[%s]:copy[%s]" % (name, lang), not probs, "; ".join(probs),
                      table.loc(e.raw), sample=dict(entry=name, intent=intent, pre_call=pre[:100], post_call=post[:100]))
    run.floor(R, "entries with a copied C++ local", n, 20)
    # const methods are called through a pointer-to-const `this`
    wc = repo.module("wrapc")
    f = wc.func("Wrapc.wrap_function")
    tmpl = [t for t in pattern.strings(f) if "{CXX_this}" in t and "->addr" in t]
    run.check(R, "wrapc.Wrapc.wrap_function:this-const", len(tmpl) == 1 and tmpl[0].count("{c_const}") == 2,
              "the `this` pointer of a method must be declared and cast with {c_const} (const methods are called on a "
              "pointer-to-const: otherwise a method overloaded on const always resolves to the non-const overload): %s"
              % tmpl, wc.loc(f))


def rule_r12(repo, run):
    R = run.rule("C02.R12", "every callable signature is generated and named in its own language's scope: defaults of "
                            "value 0 are defaults, C names are built from C name scopes, references are passed as pointers")
    from sa import lints, decide
    found, n = lints.truthiness_of_optional(repo, ("generate", "wrapc", "ast"), fields=("init",))
    for mn, q, node, msg in found:
        run.fail(R, "%s.%s:truthiness@%s" % (mn, q, re.sub(r"\s+", " ", repo.module(mn).seg(node.test))[:40]), msg,
                 repo.module(mn).loc(node))
    run.rules[R]["obligations"] += n
    run.rules[R]["discharged"] += n - len(found)
    # C_name_scope / F_name_scope: a scope of one language is derived from the parent's scope of the same language
    ns = 0
    for mn in ("ast", "generate"):
        m = repo.module(mn)
        for node in ast.walk(m.tree):
            tgt = None
            if isinstance(node, ast.keyword) and node.arg and node.arg.endswith("_name_scope"):
                tgt, val = node.arg, node.value
            elif isinstance(node, ast.Assign) and isinstance(node.targets[0], (ast.Attribute, ast.Name)):
                t = node.targets[0]
                nm = t.attr if isinstance(t, ast.Attribute) else t.id
                if nm.endswith("_name_scope"):
                    tgt, val = nm, node.value
            if not tgt:
                continue
            ns += 1
            srcs = sorted(set(x.attr for x in ast.walk(val) if isinstance(x, ast.Attribute) and x.attr.endswith("_name_scope")))
            run.check(R, "%s:%s<-%s@%d" % (mn, tgt, ",".join(srcs) or "-", node.value.lineno), all(x == tgt for x in srcs),
                      "%s is built from %s: names of one language take the scope prefix of another (a namespace or class "
                      "is missing from, or wrongly spelled in, the generated names)" % (tgt, srcs), m.loc(node.value))
    run.floor(R, "name-scope constructions", ns, 8)
    # compute_c_deref: how an argument of each shape is turned back into the C++ object
    wc = repo.module("wrapc")
    dm = repo.module("declast")
    f = wc.func("compute_c_deref")
    sem = decide.pointer_predicates(dm)
    argn, localn = f.args.args[0].arg, f.args.args[1].arg
    chain = [st for st in f.body if isinstance(st, ast.If)]
    for desc, op, want in (("pointer argument", "*", ("*", "->", "")), ("reference argument", "&", ("*", "->", "")),
                           ("value argument", None, ("", ".", "&"))):
        def oracle(e, op=op):
            if isinstance(e, ast.Call) and isinstance(e.func, ast.Attribute) and pyflow.is_name(e.func.value, argn) and e.func.attr in sem:
                return op in sem[e.func.attr]
            if isinstance(e, ast.Compare) and pyflow.is_name(e.left, localn):
                return False        # no local variable override
            if isinstance(e, ast.Name) and e.id == localn:
                return False
            return None
        taken = decide.take(chain, oracle)
        if taken is None:
            run.unmodelled_site(R, "wrapc.compute_c_deref[%s]" % desc, "decision chain not decidable")
            continue
        got = {}
        for st in taken:
            if isinstance(st, ast.Assign) and isinstance(st.targets[0], ast.Attribute):
                got[st.targets[0].attr] = pyflow.const_str(st.value)
        triple = (got.get("c_deref"), got.get("c_member"), got.get("c_addr"))
        run.check(R, "wrapc.compute_c_deref[%s]" % desc, triple == want,
                  "a %s gives (deref, member, addr) = %s, expected %s: C passes references as pointers, so the wrapper "
                  "must use the pointer itself, not the address of its own parameter" % (desc, triple, want), wc.loc(f),
                  sample=dict(shape=desc, triple=triple))


    # compute_cxx_deref: the C++ side - a reference is used like a value (`x.size()`, `&x`), only a pointer with `->`
    f2 = wc.func("compute_cxx_deref")
    argn2, localn2 = f2.args.args[0].arg, f2.args.args[1].arg
    chain2 = [st for st in f2.body if isinstance(st, ast.If)]
    for desc, op, want in (("pointer", "*", ("->", "")), ("reference", "&", (".", "&")), ("value", None, (".", "&"))):
        def oracle2(e, op=op):
            if isinstance(e, ast.Call) and isinstance(e.func, ast.Attribute) and pyflow.is_name(e.func.value, argn2) and e.func.attr in sem:
                return op in sem[e.func.attr]
            if isinstance(e, ast.Compare) and pyflow.is_name(e.left, localn2):
                return False
            if isinstance(e, ast.Name) and e.id == localn2:
                return False
            return None
        taken = decide.take(chain2, oracle2)
        if taken is None:
            run.unmodelled_site(R, "wrapc.compute_cxx_deref[%s]" % desc, "decision chain not decidable")
            continue
        got = {}
        for st in taken:
            if isinstance(st, ast.Assign) and isinstance(st.targets[0], ast.Attribute):
                got[st.targets[0].attr] = pyflow.const_str(st.value)
        pair = (got.get("cxx_member"), got.get("cxx_addr"))
        run.check(R, "wrapc.compute_cxx_deref[%s]" % desc, pair == want,
                  "a C++ %s gives (member, addr) = %s, expected %s: a reference result `const std::string &f()` is used as "
                  "`rv.c_str()` and `&rv` in the wrapper; `rv->c_str()` does not compile" % (desc, pair, want), wc.loc(f2),
                  sample=dict(shape=desc, pair=pair))


def rule_r13(repo, run, types):
    R = run.rule("C02.R13", "types and layouts seen from C are those of C++: native typemaps name the same type on both sides, "
                            "template parameters are looked up by name, struct members keep their declared order")
    from sa import lints
    n = 0
    for name, t in sorted(types.types.items()):
        if str(t.get("sgroup")) != "native":
            continue
        ct, xt = t.get("c_type"), t.get("cxx_type")
        if not ct or not xt or name in ("bool",) or "complex" in name:
            continue
        n += 1
        run.check(R, "typemap[%s]:c_type==cxx_type" % name, str(ct) == str(xt),
                  "typemap %s has c_type %r but cxx_type %r: the extern \"C\" prototype and the C++ function disagree on the "
                  "width/signedness of the value" % (name, ct, xt), types.loc(name), sample=dict(type=name, c_type=str(ct), cxx_type=str(xt)))
    run.floor(R, "native typemaps", n, 15)
    found, k = lints.degenerate_dict_key(repo, ("generate",))
    for mn, q, node, msg in found:
        run.fail(R, "%s.%s:degenerate-key" % (mn, q), msg + " - every templated argument is instantiated with the first parameter's type",
                 repo.module(mn).loc(node))
    run.rules[R]["obligations"] += k
    run.rules[R]["discharged"] += k - len(found)
    # struct mirror: members in declaration order, in both emitters
    for mn, q in (("wrapc", "Wrapc.wrap_struct"), ("wrapf", "Wrapf.wrap_struct")):
        m = repo.module(mn)
        fn = m.func(q)
        loops = [l for l in ast.walk(fn) if isinstance(l, ast.For) and "variables" in m.seg(l.iter)]
        run.check(R, "%s.%s:member-order" % (mn, q), bool(loops) and all(m.seg(l.iter) == "node.variables" for l in loops),
                  "struct members are emitted by iterating %s: the C / Fortran mirror must list them in declaration order "
                  "(the wrappers reinterpret one struct as the other)" % [str(m.seg(l.iter)) for l in loops], m.loc(fn))


def rule_r14(repo, run, table):
    R = run.rule("C02.R14", "a class result is handed to C the way C++ returns it: a pointer or reference result is the address "
                            "of the library's object, only a result by value is copied to the heap and owned by the caller")
    n = 0
    for lang in ("c", "c++"):
        for sp, byvalue in (("*", False), ("&", False), ("scalar", True)):
            e = table.lookup(["c", "shadow", sp, "result"], lang)
            if e is None:
                raise AnalysisError("C02.R14: no statements for c_shadow_%s_result" % sp)
            n += 1
            code = " ".join(l for c in ("pre_call", "call", "post_call") for l in e.lines(c))
            allocates = re.search(r"\bnew\s+\{cxx_type\}", code) is not None
            owner = str(e.get("owner") or "library")
            run.check(R, "statements.fc_statements[c_shadow_%s_result<-%s]:%s" % (sp, e.name, lang),
                      allocates == byvalue and (owner == "caller") == byvalue,
                      "a class result returned %s resolves to entry %s, which %s and is owned by the %s: %s"
                      % ("by value" if byvalue else "through `%s`" % sp, e.name,
                         "copies it into `new {cxx_type}`" if allocates else "hands out its address", owner,
                         "the C caller must get a copy it owns" if byvalue else
                         "the C caller must get the library's own object (a.ref().bump() acts on a), not a heap copy"),
                      table.loc(e.raw), sample=dict(path="c_shadow_%s_result" % sp, entry=e.name))
    run.floor(R, "class result lookups", n, 6)


def rule_r15(repo, run):
    R = run.rule("C02.R15", "the statements for a function *result* are looked up with the indirection of the function's own "
                            "declaration - also when the result has been turned into an argument of the wrapper (that argument "
                            "is always a pointer); a release action is registered under the type it deletes (C06.R10)")
    n = 0
    # (the Fortran emitter has its own convention for results that became arguments and is compared with the C emitter
    # entry by entry in C04.R10; this rule is about the C wrapper, which is what a C caller links against)
    for mn, q in (("wrapc", "Wrapc.wrap_function"),):
        m = repo.module(mn)
        fn = m.func(q)
        # loop variables over parameter lists: a name bound by `for x in <...>.params` (or ast.params) is an argument
        argvars = set()
        for l in ast.walk(fn):
            if isinstance(l, ast.For) and isinstance(l.target, ast.Name) and "params" in str(m.seg(l.iter)):
                argvars.add(l.target.id)
        for lst in ast.walk(fn):
            if not (isinstance(lst, ast.List) and any(pyflow.const_str(e) == "result" for e in lst.elts)):
                continue
            idx = [i for i, e in enumerate(lst.elts) if pyflow.const_str(e) == "result"][0]
            if idx == 0 or not isinstance(lst.elts[idx - 1], ast.Name):
                continue
            sp = lst.elts[idx - 1].id
            # the assignment of sp that reaches the list: the closest preceding one in an enclosing statement list
            defs = [a for a in ast.walk(fn) if isinstance(a, ast.Assign) and pyflow.is_name(a.targets[0], sp)
                    and a.lineno < lst.lineno and isinstance(a.value, ast.Call) and isinstance(a.value.func, ast.Attribute)
                    and a.value.func.attr == "get_indirect_stmt"]
            if not defs:
                continue
            d = max(defs, key=lambda a: a.lineno)
            recv = str(m.seg(d.value.func.value))
            n += 1
            run.check(R, "%s.%s:result-indirection@%s" % (mn, q, " ".join(str(m.seg(lst)).split())[:40]), recv.split(".")[0] not in argvars,
                      "the result statements are selected with `%s.get_indirect_stmt()`, and `%s` is a parameter of the wrapper: "
                      "for a result that was moved into an argument this is always `*`, so `std::string f()` (by value) gets the "
                      "statements of a pointer result and hands out the address of a local variable" % (recv, recv.split(".")[0]),
                      m.loc(d))
    run.floor(R, "result statement lookups", n, 1)
    from checks import c06
    from sa.report import import_rules
    import_rules(run, R, c06, repo, {"C06.R10"}, only=lambda c: c.startswith("wrapc.Wrapc.compute_idtor"))
    import_rules(run, R, c06, repo, {"C06.R14"})


def rule_r16(repo, run):
    R = run.rule("C02.R16", "the C wrapper returns a C++ reference as a pointer (gen_arg_as_c writes `T *` for `T &`), so what is "
                            "put in front of the returned variable (`&`, `*`, nothing) is decided by is_indirect(), not by "
                            "is_pointer() alone; a conversion that yields a const pointer (std::string::c_str()) initialises a "
                            "result that is declared from the C++ declaration only through a const_cast when that declaration "
                            "is not const")
    sm, wc, tm = repo.module("statements"), repo.module("wrapc"), repo.module("typemap")
    fn = sm.func("compute_return_prefix")
    n = 0
    for i in ast.walk(fn):
        if not isinstance(i, ast.If):
            continue
        t = ast.unparse(i.test)
        if "is_pointer()" in t and "is_reference()" in t:
            n += 1
            run.ok(R, "statements.compute_return_prefix:%s" % t)
        elif "is_pointer()" in t and "is_reference()" not in t:
            # an arm that is only reached for non-references may ask is_pointer() alone
            outer = [ast.unparse(tt) for tt, pol in pyflow.dominating_tests(i, stop=fn) if not pol]
            guards = [ast.unparse(tt) for tt, pol in pyflow.early_exit_guards(fn, i)]
            excluded = any("is_reference()" in x for x in outer + guards)
            n += 1
            arm = " ".join(ast.unparse(tt) for tt, pol in pyflow.dominating_tests(i, stop=fn) if pol)
            run.check(R, "statements.compute_return_prefix:%s[%s]" % (t, arm), excluded,
                      "`%s` decides what is written before the returned variable; a reference is not a pointer for this test "
                      "but is returned as one: `const Pt &f()` ends with `return *SHC_rv;` in a function of type `const X_pt *`"
                      % t, sm.loc(i))
        elif "is_indirect()" in t:
            n += 1
            arm = " ".join(ast.unparse(tt) for tt, pol in pyflow.dominating_tests(i, stop=fn) if pol)
            run.ok(R, "statements.compute_return_prefix:%s[%s]" % (t, arm))
    run.floor(R, "indirection tests of compute_return_prefix", n, 2)
    # the pointer stored in a capsule / shadow struct is not const: every const result (pointer, reference or value whose
    # address is taken) goes through the cast, the test is about constness alone
    sp = wc.func("Wrapc.set_cxx_nonconst_ptr")
    arms = 0
    for c in ast.walk(sp):
        if isinstance(c, ast.Constant) and isinstance(c.value, str) and ("const_cast<" in c.value or re.search(r"\(\{cxx_type\} \*\)", c.value)):
            arms += 1
            atoms = pyflow.path_atoms(c, stop=sp, seg=ast.unparse)
            narrowed = [t for t, pol in atoms if pol and ("is_pointer()" in t or "is_reference()" in t or "is_indirect()" in t)]
            has_const = any(t.endswith(".const") and pol for t, pol in atoms)
            run.check(R, "wrapc.Wrapc.set_cxx_nonconst_ptr:%s" % ("const_cast" if "const_cast" in c.value else "C cast"),
                      has_const and not narrowed,
                      "the cast that removes const is applied under %s: `const Node &getConstNodeRef()` assigns `&SHCXX_rv` "
                      "(const Node *) to the `void *addr` of the shadow struct without it (invalid conversion)"
                      % sorted(t for t, pol in atoms if pol), wc.loc(c))
    if arms < 2:
        raise AnalysisError("C02.R16: the casts of set_cxx_nonconst_ptr were not found")
    # const conversions
    wfn = wc.func("Wrapc.wrap_function")
    sites = [a for a in ast.walk(wfn) if isinstance(a, ast.Assign) and ast.unparse(a.targets[0]).endswith(".c_val")
             and "cxx_to_c" in ast.unparse(a.value)]
    if not sites:
        raise AnalysisError("C02.R16: the conversion `c_val = wformat(<typemap>.cxx_to_c, ...)` of Wrapc.wrap_function was not found")
    const_conv = []
    for key, val in pyflow.table_fields(tm.tree):
        if key == "cxx_to_c" and pyflow.const_str(val) and re.search(r"c_str\(\)|\.data\(\)", pyflow.const_str(val)):
            const_conv.append(pyflow.const_str(val))
    for a in sites:
        blk = a
        for p_ in parent_chain(a):
            if isinstance(p_, (ast.If, ast.For, ast.FunctionDef)):
                blk = p_
                break
        decl_from_cxx = any(isinstance(x, ast.Assign) and ast.unparse(x.targets[0]).endswith(".c_rv_decl") and "gen_arg_as_c" in ast.unparse(x.value)
                            for x in ast.walk(blk))
        casts = [x for x in ast.walk(blk) if isinstance(x, ast.Constant) and isinstance(x.value, str) and "const_cast<" in x.value]
        guarded = False
        for c in casts:
            atoms = [(ast.unparse(t), pol) for t, pol in pyflow.dominating_tests(c, stop=wfn)]
            if any(".const" in t for t, pol in atoms):
                guarded = True
        run.check(R, "wrapc.Wrapc.wrap_function:c_val<-cxx_to_c:const", (not decl_from_cxx) or (not const_conv) or guarded,
                  "the result variable is declared from the C++ declaration (`char * SHC_rv` for `std::string &f()`) and initialised "
                  "with the typemap's cxx_to_c (`%s`, a const pointer) without a const_cast for the non-const case: the wrapper "
                  "does not compile" % (const_conv[0] if const_conv else ""), wc.loc(a))



def run(repo, run, tier):
    tables.check_model_assumptions(repo)
    table = tables.StatementTable(repo, "statements", "fc_statements")
    types = tables.TypeTable(repo)
    rule_r1(repo, run, table)
    rule_r2(repo, run)
    rule_r3(repo, run)
    rule_r4(repo, run, types)
    rule_r5(repo, run)
    rule_r6(repo, run)
    rule_r7(repo, run)
    rule_r8(repo, run)
    rule_r9(repo, run)
    rule_r11(repo, run, table)
    rule_r12(repo, run)
    rule_r13(repo, run, types)
    rule_r14(repo, run, table)
    rule_r15(repo, run)
    rule_r16(repo, run)
    rule_x(repo, run)
