#!/usr/bin/env python3
"""Take the output of a seeding sub-agent (/tmp/seed/out/<prop>/k.{diff,demo.md,meta.json})
into /verif/seeded/<prop>/<k>/ after re-checking that the patch applies to
/repo's HEAD and that the pinned tests still pass with it (scratch worktree
under $TMPDIR, removed afterwards).  Development aid."""
import json, os, shutil, subprocess, sys, tempfile, re

HERE = os.path.dirname(os.path.dirname(os.path.abspath(__file__)))
TEST = ["/venv/bin/python", "-m", "pytest", "-q", "-p", "no:cacheprovider", "--timeout=900", "--continue-on-collection-errors"]

def main(props):
    root = os.environ.get("SEED_OUT", "/tmp/seed/out")
    offset = int(os.environ.get("SEED_OFFSET", "0"))
    for prop in props:
        src = "%s/%s" % (root, prop)
        for k in sorted(f[:-5] for f in os.listdir(src) if f.endswith(".diff")):
            tmp = tempfile.mkdtemp(prefix="intake.")
            wt = os.path.join(tmp, "wt")
            try:
                subprocess.check_call(["git", "-C", "/repo", "worktree", "add", "--detach", "-q", wt, "HEAD"])
                r = subprocess.run(["git", "-C", wt, "apply", os.path.join(src, k + ".diff")], capture_output=True, text=True)
                if r.returncode:
                    print(prop, k, "DOES NOT APPLY", r.stderr[:200]); continue
                env = dict(os.environ, PYTHONPATH=wt)
                t = subprocess.run(TEST, cwd=wt, env=env, capture_output=True, text=True)
                tail = t.stdout.strip().splitlines()[-1] if t.stdout.strip() else ""
                ok = re.search(r"\b91 passed", tail) is not None and "failed" not in tail
                print(prop, k, "tests:", tail)
                if not ok:
                    continue
                dst = os.path.join(HERE, "seeded", prop, str(int(k) + offset))
                os.makedirs(dst, exist_ok=True)
                shutil.copy(os.path.join(src, k + ".diff"), os.path.join(dst, "patch.diff"))
                shutil.copy(os.path.join(src, k + ".demo.md"), os.path.join(dst, "demo.md"))
                meta = json.load(open(os.path.join(src, k + ".meta.json")))
                meta["tests_rechecked"] = tail
                json.dump(meta, open(os.path.join(dst, "meta.json"), "w"), indent=1)
            finally:
                subprocess.call(["git", "-C", "/repo", "worktree", "remove", "--force", wt])
                shutil.rmtree(tmp, ignore_errors=True)

if __name__ == "__main__":
    main(sys.argv[1:])
