"""The template language of shroud's tables: format fields, layout
directives, and light lexers for the C / Fortran text inside templates."""
import re
import string

_FMT = string.Formatter()


def fields(template):
    """Root names of the replacement fields of a str.format template.
    Raises ValueError for a malformed template."""
    out = []
    for lit, field, spec, conv in _FMT.parse(template):
        if field is None:
            continue
        root = re.split(r"[.\[]", field, 1)[0]
        out.append(root)
        if spec:
            out.extend(fields(spec))
    return out


def safe_fields(template):
    try:
        return fields(template), None
    except ValueError as e:
        return [], str(e)


def unescape(template):
    """Template text with `{{`/`}}` turned into braces and `{field}` kept
    verbatim as `{field}` tokens."""
    out = []
    for lit, field, spec, conv in _FMT.parse(template):
        out.append(lit)
        if field is not None:
            out.append("{%s}" % field)
    return "".join(out)


def strip_layout(line):
    """Remove write_lines column-one directives / trailing +,- and the
    \\t \\f \\r break hints from one template line (after unescape)."""
    s = line
    if not s:
        return s
    if s[0] in "#":
        return s
    if s[0] == "@":
        s = s[1:]
    elif s[0] == "^":
        s = s[1:]
    elif s[0] == "+":
        s = s[1:]
        if s.endswith("-"):
            s = s[:-1]
    else:
        while s.startswith("-"):
            s = s[1:]
        if s.endswith("+"):
            s = s[:-1]
    return s.replace("\t", "").replace("\f", "").replace("\r", "")


def code_lines(template):
    """Split a (multi-line) template into code lines without layout marks."""
    text = unescape(template)
    return [strip_layout(l) for l in text.split("\n")]


_C_COMMENT = re.compile(r"//[^\n]*|/\*.*?\*/", re.S)
_C_STRING = re.compile(r'"(?:\\.|[^"\\])*"|\'(?:\\.|[^\'\\])*\'')


def strip_c_comments(text):
    # protect strings first
    out = []
    i = 0
    n = len(text)
    while i < n:
        c = text[i]
        if c == '"' or c == "'":
            m = _C_STRING.match(text, i)
            if m:
                out.append(m.group(0))
                i = m.end()
                continue
        if text.startswith("//", i):
            j = text.find("\n", i)
            if j < 0:
                j = n
            i = j
            continue
        if text.startswith("/*", i):
            j = text.find("*/", i + 2)
            if j < 0:
                j = n - 2
            i = j + 2
            continue
        out.append(c)
        i += 1
    return "".join(out)


def blank_c_strings(text):
    return _C_STRING.sub(lambda m: '""' if m.group(0)[0] == '"' else "' '", text)


def c_code(text):
    """Comments removed, string literals blanked."""
    return blank_c_strings(strip_c_comments(text))


TOKEN = re.compile(r"\{[A-Za-z_][A-Za-z_0-9.]*\}|[A-Za-z_][A-Za-z_0-9]*|::|->|\d+|\S")


def split_args(argtext):
    """Split on top-level commas."""
    args = []
    depth = 0
    cur = []
    i = 0
    while i < len(argtext):
        c = argtext[i]
        if c in "([<" and not (c == "<"):
            depth += 1
        elif c in ")]":
            depth -= 1
        if c == "," and depth == 0:
            args.append("".join(cur).strip())
            cur = []
        else:
            cur.append(c)
        i += 1
    tail = "".join(cur).strip()
    if tail or args:
        args.append(tail)
    return args


_CALL = re.compile(r"((?:\{[A-Za-z_][A-Za-z_0-9]*\}|[A-Za-z_])(?:[A-Za-z_0-9:]|\{[A-Za-z_][A-Za-z_0-9]*\})*)\s*\(")

C_KEYWORDS = {"if", "for", "while", "switch", "return", "sizeof", "else", "case",
              "static_cast", "const_cast", "reinterpret_cast", "dynamic_cast", "defined"}


def calls(text, keep_keywords=False):
    """[(callee, [args], start)] for every `name(...)` in C-like text
    (comments stripped, strings blanked).  Nested calls are reported too."""
    src = c_code(text)
    out = []
    for m in _CALL.finditer(src):
        name = m.group(1)
        if not keep_keywords and name in C_KEYWORDS:
            continue
        i = m.end()
        depth = 1
        j = i
        while j < len(src) and depth:
            if src[j] == "(":
                depth += 1
            elif src[j] == ")":
                depth -= 1
            j += 1
        if depth:
            continue
        inner = src[i:j - 1]
        out.append((name, split_args(inner), m.start()))
    return out


_IDENT = re.compile(r"[A-Za-z_][A-Za-z_0-9]*")


def identifiers(text):
    return _IDENT.findall(text)


def strip_f_comment(line):
    """Remove a trailing Fortran comment (outside quotes)."""
    q = None
    for i, c in enumerate(line):
        if q:
            if c == q:
                q = None
        elif c in "\"'":
            q = c
        elif c == "!":
            return line[:i]
    return line


def f_code(text):
    return "\n".join(strip_f_comment(l) for l in text.split("\n"))


_PH = re.compile(r"\{([A-Za-z_][A-Za-z_0-9]*)\}")
_PH_BACK = re.compile(r"__PH_([A-Za-z_0-9]+?)__")


def protect(text):
    """Replace `{field}` placeholders by identifiers so brace-aware scanners
    are not confused."""
    return _PH.sub(lambda m: "__PH_%s__" % m.group(1), text)


def unprotect(text):
    return _PH_BACK.sub(lambda m: "{%s}" % m.group(1), text)
