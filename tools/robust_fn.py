#!/usr/bin/env python3
"""Development aid: alpha-rename the locals of ONE function at a time (the functions touched by the seeded
changes = the places where rules are dense) and run every check: a behaviour-preserving edit must give neither
a new violation nor an ANALYSIS-ERROR.  Prints the functions for which it does."""
import ast, glob, json, os, re, sys
from multiprocessing import Pool
HERE = os.path.dirname(os.path.dirname(os.path.abspath(__file__)))
sys.path.insert(0, HERE)
sys.dont_write_bytecode = True
from sa.loader import AnalysisError
from selftest.harness import _violations
from tools.robust import _Rename
REPO = "/repo"
ALL = ["C%02d" % i for i in range(1, 19)]


def targets():
    out = set()
    for patch in glob.glob(os.path.join(HERE, "seeded", "C??", "*", "patch.diff")):
        f = None
        for line in open(patch):
            if line.startswith("+++ b/"):
                f = line[6:].strip()
            m = re.match(r"^@@ .* @@\s*(?:def|class)\s+(\w+)", line)
            if m and f and f.endswith(".py"):
                out.add((f, m.group(1)))
    return sorted(out)


class One(_Rename):
    def __init__(self, name):
        self.name = name
        self.hit = 0

    def visit_FunctionDef(self, node):
        if node.name == self.name:
            self.hit += 1
            return _Rename.visit_FunctionDef(self, node)
        self.generic_visit(node)
        return node

    def visit_ClassDef(self, node):
        self.generic_visit(node)
        return node


def job(args):
    prop, ov = args
    try:
        got, _ = _violations(prop, REPO, ov)
        return prop, sorted(got), None
    except AnalysisError as e:
        return prop, [], "ANALYSIS-ERROR: %s" % str(e)[:120]
    except Exception as e:
        return prop, [], "CRASH: %r" % e


def all_functions():
    out = set()
    for path in sorted(glob.glob(os.path.join(REPO, "shroud", "*.py"))):
        rel = os.path.relpath(path, REPO)
        for n in ast.walk(ast.parse(open(path).read())):
            if isinstance(n, ast.FunctionDef):
                out.add((rel, n.name))
    return sorted(out)


def main():
    tg = all_functions() if "--all" in sys.argv else targets()
    # patch hunk headers name the enclosing def/class: for a class, rename all its methods one by one is too much; keep defs
    with Pool(16) as pool:
        base = {p: set(map(tuple, g)) for p, g, e in pool.map(job, [(p, None) for p in ALL])}
        jobs = []
        for f, name in tg:
            text = open(os.path.join(REPO, f)).read()
            tree = ast.parse(text)
            tr = One(name)
            tr.visit(tree)
            if not tr.hit:
                continue
            ov = {f: ast.unparse(tree) + "\n"}
            for p in ALL:
                jobs.append(((f, name), p, ov))
        outs = pool.map(job, [(p, ov) for _, p, ov in jobs], chunksize=6)
    res = {}
    for (key, p, ov), (pp, got, err) in zip(jobs, outs):
        new = sorted(set(map(tuple, got)) - base[p])
        if new:
            res.setdefault(key, []).append("%s VIOLATION %s" % (p, new[0]))
        if err:
            res.setdefault(key, []).append("%s %s" % (p, err))
    print("functions probed:", len(set(k for k, _, _ in jobs)), " with false alarms:", len(res))
    for k, v in sorted(res.items()):
        print(k)
        for line in v[:8]:
            print("    ", line[:200])
    json.dump({"%s:%s" % k: v for k, v in res.items()}, open(os.path.join(HERE, "robust_fn.json"), "w"), indent=1)


if __name__ == "__main__":
    main()
