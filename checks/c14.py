"""C14 - equivalent ways of stating the same customisation give identical
output."""
import ast
import re

from sa import pyflow
from sa.symbols import Program
from sa.loader import parent_chain, AnalysisError, enclosing_function

EXPLANATION = (
    "Sibling agreement and wiring analysis: (R1) every attribute main_with_args reads from its `args` "
    "namespace is a dest defined by argparse in main() and is assigned by create_wrapper; (R2) every "
    "node constructor chains its options / format scopes to the parent's scopes and applies user "
    "options/format to its own scope only, clone() gives the copy its own scopes and re-parents the "
    "functions of a cloned class; (R3) BlockNode aliases every container attribute the NamespaceMixin "
    "methods touch to its parent's object and every parent attribute it reads exists on every node "
    "kind it documents as parent; (R4) attrs/fattrs from YAML are merged into the same mapping the "
    "parser's attribute() fills; (R5) --option / --language are merged under the keyword names "
    "LibraryNode.__init__ reads, booleans normalised; (R6) Scope contract (parent delegation, "
    "local-only inlocal/setdefault/delattrs, update(replace=False) never overwrites).")
NOT_DECIDED = "Byte equality of the outputs of two equivalent descriptions (needs running both)."


def rule_r1(repo, run):
    R = run.rule("C14.R1", "main(), create_wrapper() and main_with_args() agree on the argument namespace")
    m = repo.module("main")
    fmain = m.func("main")
    fcw = m.func("create_wrapper")
    fwa = m.func("main_with_args")
    dests = set()
    for node in ast.walk(fmain):
        if isinstance(node, ast.Call) and isinstance(node.func, ast.Attribute) and node.func.attr == "add_argument":
            dest = None
            for k in node.keywords:
                if k.arg == "dest":
                    dest = pyflow.const_str(k.value)
            if dest is None:
                for a in node.args:
                    s = pyflow.const_str(a)
                    if s and s.startswith("--"):
                        dest = s[2:].replace("-", "_")
                        break
                    if s and not s.startswith("-"):
                        dest = s
                        break
            action = None
            for k in node.keywords:
                if k.arg == "action":
                    action = pyflow.const_str(k.value)
            if dest and action != "version":
                dests.add(dest)
    assigned = set()
    for node in ast.walk(fcw):
        if isinstance(node, ast.Assign):
            for t in node.targets:
                if isinstance(t, ast.Attribute) and pyflow.is_name(t.value, "args"):
                    assigned.add(t.attr)
    argname = fwa.args.args[0].arg
    read = {}
    for node in ast.walk(fwa):
        if isinstance(node, ast.Attribute) and pyflow.is_name(node.value, argname) and isinstance(node.ctx, ast.Load):
            read.setdefault(node.attr, node)
    run.floor(R, "attributes read from args", len(read), 12)
    for attr, node in sorted(read.items()):
        run.check(R, "main.main:args.%s" % attr, attr in dests,
                  "main_with_args reads args.%s but argparse defines no such dest" % attr, m.loc(node),
                  sample=dict(attr=attr, argparse=True))
        run.check(R, "main.create_wrapper:args.%s" % attr, attr in assigned,
                  "main_with_args reads args.%s but the documented programmatic entry point create_wrapper "
                  "never sets it: AttributeError" % attr, m.loc(fcw), sample=dict(attr=attr))
    for attr in sorted(assigned - dests):
        run.check(R, "main.create_wrapper:extra args.%s" % attr, False,
                  "create_wrapper sets args.%s which the command line does not know" % attr, m.loc(fcw))
    # defaults agree
    defaults = {}
    for node in ast.walk(fmain):
        if isinstance(node, ast.Call) and isinstance(node.func, ast.Attribute) and node.func.attr == "add_argument":
            dest = None
            dflt = "<none>"
            act = None
            for k in node.keywords:
                if k.arg == "dest":
                    dest = pyflow.const_str(k.value)
                if k.arg == "default":
                    dflt = k.value
                if k.arg == "action":
                    act = pyflow.const_str(k.value)
            if dest is None:
                for a in node.args:
                    s = pyflow.const_str(a)
                    if s and s.startswith("--"):
                        dest = s[2:].replace("-", "_")
                        break
            if dest:
                defaults[dest] = (dflt, act)
    for node in ast.walk(fcw):
        if isinstance(node, ast.Assign) and isinstance(node.targets[0], ast.Attribute) and \
                pyflow.is_name(node.targets[0].value, "args") and isinstance(node.value, ast.Constant):
            attr = node.targets[0].attr
            if attr in defaults and defaults[attr][0] != "<none>" and isinstance(defaults[attr][0], ast.Constant):
                run.check(R, "main.create_wrapper:default args.%s" % attr,
                          defaults[attr][0].value == node.value.value,
                          "create_wrapper sets args.%s=%r but the command-line default is %r"
                          % (attr, node.value.value, defaults[attr][0].value), m.loc(node))


    # values that are not simple constants: a parameter of create_wrapper, or literally the command-line default
    params = set(a.arg for a in fcw.args.args)
    for node in ast.walk(fcw):
        if isinstance(node, ast.Assign) and isinstance(node.targets[0], ast.Attribute) and \
                pyflow.is_name(node.targets[0].value, "args") and not isinstance(node.value, ast.Constant):
            attr = node.targets[0].attr
            v = node.value
            if isinstance(v, ast.Name) and v.id in params:
                ok, why = True, ""
            elif attr == "filename":
                ok = isinstance(v, ast.List) and len(v.elts) == 1 and isinstance(v.elts[0], ast.Name) and v.elts[0].id in params
                why = "the positional file list must be [filename]"
            elif attr in defaults and defaults[attr][0] != "<none>":
                ok = ast.unparse(v) == ast.unparse(defaults[attr][0])
                why = "create_wrapper uses %s where the command line defaults to %s" % (ast.unparse(v), ast.unparse(defaults[attr][0]))
            else:
                ok, why = False, "value %s has no counterpart on the command line" % ast.unparse(v)
            run.check(R, "main.create_wrapper:value args.%s=%s" % (attr, ast.unparse(v)[:30]), ok,
                      why + ": the programmatic entry point and the command line with the same arguments differ",
                      m.loc(node), sample=dict(attr=attr, value=ast.unparse(v)))


NODE_CLASSES = ["LibraryNode", "BlockNode", "NamespaceNode", "ClassNode", "FunctionNode", "EnumNode",
                "TypedefNode", "VariableNode"]


def _scope_ctor_parent(call):
    """Parent expression of util.Scope(parent) / Scope(parent=...)."""
    if not (isinstance(call, ast.Call) and (pyflow.call_name(call) or "").split(".")[-1] == "Scope"):
        return None
    for k in call.keywords:
        if k.arg == "parent":
            return k.value
    if call.args:
        return call.args[0]
    return None


def rule_r2(repo, run):
    R = run.rule("C14.R2", "options/format scopes are chained to the parent and user values go to the node's own scope")
    am = repo.module("ast")
    for cname in NODE_CLASSES:
        cls = am.cls(cname)
        funcs = {b.name: b for b in cls.body if isinstance(b, ast.FunctionDef)}
        bodies = [funcs[n] for n in ("__init__", "default_format", "default_options") if n in funcs]
        found = {}
        for f in bodies:
            for node in ast.walk(f):
                if isinstance(node, ast.Assign):
                    for t in node.targets:
                        d = pyflow.dotted(t) or ""
                        if d in ("self.options", "self.fmtdict"):
                            found[d] = (node, f)
        for attr, src in (("self.options", "options"), ("self.fmtdict", "fmtdict")):
            construct = "ast.%s.%s" % (cname, src)
            if attr not in found:
                run.check(R, construct, False, "%s is never created in the constructor" % attr, am.loc(cls))
                continue
            node, f = found[attr]
            val = node.value
            if cname == "LibraryNode":
                # root scopes: options from default_options(), fmtdict from a Scope(parent=None)
                if src == "options":
                    ok = isinstance(val, ast.Call) and (pyflow.call_name(val) or "").endswith("default_options")
                else:
                    # self.fmtdict = fmt_library where fmt_library = util.Scope(parent=None, ...)
                    ok = True
                    if isinstance(val, ast.Name):
                        defs = [n for n in ast.walk(f) if isinstance(n, ast.Assign) and
                                pyflow.is_name(n.targets[0], val.id) and isinstance(n.value, ast.Call)]
                        par = _scope_ctor_parent(defs[0].value) if defs else None
                        ok = par is not None and isinstance(par, ast.Constant) and par.value is None
                run.check(R, construct, ok, "library root scope is not created as expected: %s" % am.seg(val),
                          am.loc(node), sample=dict(cls=cname, scope=src, value=am.seg(val)[:60]))
                continue
            par = _scope_ctor_parent(val)
            want = "parent." + src
            ok = par is not None and (pyflow.dotted(par) or "") in (want, "self.parent." + src)
            run.check(R, construct, ok,
                      "%s must be Scope(%s) so that values set on a container apply to everything nested in "
                      "it; found %s" % (attr, want, am.seg(val)), am.loc(node),
                      sample=dict(cls=cname, scope=src, value=am.seg(val)))
        # user values applied to own scope with replace=True
        init = funcs.get("__init__")
        for f in bodies:
            for node in ast.walk(f):
                if isinstance(node, ast.Call) and isinstance(node.func, ast.Attribute) and node.func.attr == "update":
                    recv = pyflow.dotted(node.func.value) or ""
                    if recv.split(".")[0] in ("parent",) or ".parent." in "." + recv + ".":
                        run.fail(R, "ast.%s:%s.update" % (cname, recv),
                                 "user values are written into the parent's scope: siblings are affected",
                                 am.loc(node))
                    elif recv in ("self.options", "self.fmtdict", "fmt_library", "fmt_ns", "fmt_class") and \
                            node.args and isinstance(node.args[0], ast.Name) and \
                            node.args[0].id in [a.arg for a in f.args.args]:
                        # only updates from a constructor parameter carry user values
                        rep = [k for k in node.keywords if k.arg == "replace"]
                        ok = bool(rep) and isinstance(rep[0].value, ast.Constant) and rep[0].value.value is True
                        run.check(R, "ast.%s:%s.update(replace)" % (cname, recv), ok,
                                  "user-supplied values must override inherited/default values (replace=True)",
                                  am.loc(node), sample=dict(cls=cname, call=am.seg(node)))
    # clone()
    for cname in ("FunctionNode", "ClassNode"):
        f = am.func(cname + ".clone")
        src = am.seg(f)
        for attr in ("fmtdict", "options"):
            ok = ("new.%s = self.%s.clone()" % (attr, attr)) in src
            run.check(R, "ast.%s.clone:%s" % (cname, attr), ok,
                      "a cloned node must get its own %s scope (self.%s.clone()): otherwise variants share "
                      "format fields" % (attr, attr), am.loc(f))
    f = am.func("ClassNode.clone")
    src = am.seg(f)
    for attr in ("fmtdict", "options"):
        run.check(R, "ast.ClassNode.clone:reparent %s" % attr, ("newfcn.%s.reparent(new.%s)" % (attr, attr)) in src,
                  "functions of a cloned class must be re-parented to the new class %s" % attr, am.loc(f))


CONTAINERS_FALLBACK = ["classes", "enums", "functions", "namespaces", "typedefs", "variables", "symbols",
                       "scope", "scope_file", "cxx_header"]


def rule_r3(repo, run):
    R = run.rule("C14.R3", "BlockNode is transparent: it aliases every container NamespaceMixin touches and its "
                           "documented parents provide everything it reads")
    am = repo.module("ast")
    blk = am.cls("BlockNode")
    init = [b for b in blk.body if isinstance(b, ast.FunctionDef) and b.name == "__init__"][0]
    aliased = {}
    reads = {}
    for node in ast.walk(init):
        if isinstance(node, ast.Assign) and len(node.targets) == 1:
            t = node.targets[0]
            if isinstance(t, ast.Attribute) and pyflow.is_name(t.value, "self"):
                v = node.value
                if isinstance(v, ast.Attribute) and pyflow.is_name(v.value, "parent"):
                    aliased[t.attr] = v.attr
        if isinstance(node, ast.Attribute) and pyflow.is_name(node.value, "parent") and isinstance(node.ctx, ast.Load):
            reads.setdefault(node.attr, node)
    # attributes NamespaceMixin methods use through self
    mix = am.cls("NamespaceMixin")
    used = {}
    for b in mix.body:
        if isinstance(b, ast.FunctionDef):
            for node in ast.walk(b):
                if isinstance(node, ast.Attribute) and pyflow.is_name(node.value, "self"):
                    used.setdefault(node.attr, b.name)
    methods = set(b.name for b in mix.body if isinstance(b, ast.FunctionDef))
    astnode = am.cls("AstNode")
    methods |= set(b.name for b in astnode.body if isinstance(b, ast.FunctionDef))
    methods |= set(b.name for b in blk.body if isinstance(b, ast.FunctionDef))
    own = set()
    for node in ast.walk(init):
        if isinstance(node, ast.Assign):
            for t in node.targets:
                if isinstance(t, ast.Attribute) and pyflow.is_name(t.value, "self"):
                    own.add(t.attr)
    n = 0
    for attr, where in sorted(used.items()):
        if attr in methods:
            continue
        n += 1
        run.check(R, "ast.BlockNode.%s" % attr, attr in own,
                  "NamespaceMixin.%s uses self.%s but BlockNode never sets it: declarations inside a block "
                  "fail or land elsewhere" % (where, attr), am.loc(init),
                  sample=dict(attr=attr, used_by=where, aliased_to=aliased.get(attr)))
        if attr in aliased:
            run.check(R, "ast.BlockNode.%s:alias" % attr, aliased[attr] == attr,
                      "self.%s is aliased to parent.%s" % (attr, aliased[attr]), am.loc(init))
    run.floor(R, "attributes used by NamespaceMixin", n, 8)
    # documented parents
    doc = ast.get_docstring(blk) or ""
    parents = [c for c in ("LibraryNode", "NamespaceNode", "ClassNode") if c in doc] + ["BlockNode"]
    if len(parents) < 3:
        raise AnalysisError("C14.R3: BlockNode docstring no longer names its admissible parents")
    for pc in parents:
        pcls = am.cls(pc)
        provided = set()
        for b in pcls.body:
            if isinstance(b, ast.FunctionDef) and b.name in ("__init__", "default_format"):
                for node in ast.walk(b):
                    if isinstance(node, ast.Assign):
                        for t in node.targets:
                            if isinstance(t, ast.Attribute) and pyflow.is_name(t.value, "self"):
                                provided.add(t.attr)
            if isinstance(b, ast.Assign):
                for t in b.targets:
                    if isinstance(t, ast.Name):
                        provided.add(t.id)
        for attr, node in sorted(reads.items()):
            run.check(R, "ast.BlockNode<-%s.%s" % (pc, attr), attr in provided,
                      "BlockNode reads parent.%s but %s (documented as admissible parent) never defines it: "
                      "a `block:` inside a %s dies with AttributeError" % (attr, pc, pc.replace("Node", "").lower()),
                      am.loc(node), sample=dict(parent=pc, attr=attr))
    # a declaration inside a block has the block as its parent: what the wrappers read from `<declaration>.parent`
    # must be there whichever kind of scope the parent is
    from sa.loader import PY_MODULES
    asked = {}
    for mn in PY_MODULES:
        if not mn.startswith("wrap"):
            continue
        wm = repo.module(mn)
        for x in ast.walk(wm.tree):
            if isinstance(x, ast.Attribute) and isinstance(x.value, ast.Attribute) and x.value.attr == "parent" \
                    and isinstance(x.value.value, ast.Name) and isinstance(x.ctx, ast.Load) and x.attr not in ("fmtdict", "options"):
                asked.setdefault(x.attr, (wm, x))
    for attr, (wm, x) in sorted(asked.items()):
        run.check(R, "ast.BlockNode:parent-attribute:%s" % attr, attr in own or attr in methods,
                  "%s reads `%s` and a declaration inside `- block: true` has the BlockNode as its parent, which never sets "
                  "`%s`: AttributeError for a declaration that works outside the block" % (wm.name, ast.unparse(x), attr), wm.loc(x))


def _kw_key(test):
    """`"name" in <mapping>` -> (name, mapping text)"""
    if isinstance(test, ast.Compare) and len(test.ops) == 1 and isinstance(test.ops[0], ast.In) \
            and isinstance(test.left, ast.Constant) and isinstance(test.left.value, str):
        m = pyflow.dotted(test.comparators[0])
        if m:
            return (test.left.value, m)
    return None


def rule_r4(repo, run):
    R = run.rule("C14.R4", "attrs/fattrs from YAML are merged into the mapping the parser's attribute() fills")
    am = repo.module("ast")
    dm = repo.module("declast")
    f = am.func("FunctionNode.__init__")
    src = am.seg(f)
    # parser side: which mapping does attribute() fill and where is it called with
    decl = dm.func("Parser.declaration")
    calls = [c for c in ast.walk(decl) if isinstance(c, ast.Call) and isinstance(c.func, ast.Attribute)
             and c.func.attr == "attribute"]
    if len(calls) != 1:
        raise AnalysisError("C14.R4: Parser.declaration no longer calls attribute() exactly once")
    target = pyflow.dotted(calls[0].args[0]) or ""
    run.check(R, "declast.Parser.declaration:attribute(%s)" % target, target.endswith(".attrs"),
              "inline attributes are parsed into %s, expected <node>.attrs" % target, dm.loc(calls[0]),
              sample=dict(parser_fills=target))
    ups = [c for c in ast.walk(f) if isinstance(c, ast.Call) and isinstance(c.func, ast.Attribute)
           and c.func.attr == "update" and (pyflow.dotted(c.func.value) or "").endswith(".attrs")]
    recvs = sorted(pyflow.dotted(c.func.value) for c in ups)
    run.check(R, "ast.FunctionNode.__init__:attrs", "arg.attrs" in recvs,
              "YAML `attrs:` must be merged with arg.attrs.update(...)", am.loc(f), sample=dict(merges=recvs))
    run.check(R, "ast.FunctionNode.__init__:fattrs", "ast.attrs" in recvs,
              "YAML `fattrs:` must be merged with ast.attrs.update(...)", am.loc(f))
    # every documented YAML key is honoured independently of the presence of another key
    nk = 0
    for qual, fn in sorted(am.functions().items()):
        for node in ast.walk(fn):
            if not isinstance(node, ast.If):
                continue
            key = _kw_key(node.test)
            if key is None:
                continue
            nk += 1
            # is this `if` the else-arm (elif) of a test of a different key of the same mapping?
            par = getattr(node, "_parent", None)
            outer = None
            last = node
            while len(last.orelse) == 1 and isinstance(last.orelse[0], ast.If):
                last = last.orelse[0]
            if last.orelse:
                # a chain that ends in a default arm dispatches on the *kind* of the entry
                # (`block` / `decl` / else: error): the keys are alternatives by design
                run.check(R, "ast.%s:key[%s]" % (qual, key[0]), True, "", sample=dict(function=qual, key=key[0], dispatch=True))
                continue
            while isinstance(par, ast.If) and node in par.orelse:
                k2 = _kw_key(par.test)
                if k2 is not None and k2[1] == key[1] and k2[0] != key[0]:
                    outer = k2
                node, par = par, getattr(par, "_parent", None)
            run.check(R, "ast.%s:key[%s]" % (qual, key[0]), outer is None,
                      "YAML key %r is only looked at when key %r is absent (elif): stating both must have the "
                      "effect of each" % (key[0], outer[0] if outer else ""), am.loc(fn),
                      sample=dict(function=qual, key=key[0]))
    run.floor(R, "tests of optional YAML keys in ast.py", nk, 12)
    # keyed by argument name
    run.check(R, "ast.FunctionNode.__init__:attrs-by-name", "attrs[name]" in src and "arg.name" in src,
              "YAML attrs must be looked up by the argument's name", am.loc(f))
    # merged before any consumer: nothing in __init__ after the merge reads attrs... (VerifyAttrs runs later)
    g = repo.module("generate").func("generate_functions")
    order = []
    for st in g.body:
        cs = sorted(pyflow.calls_in(st), key=lambda c: (c.lineno, c.col_offset))
        for c in cs:
            d = pyflow.call_name(c)
            if d is None and isinstance(c.func, ast.Attribute) and isinstance(c.func.value, ast.Call):
                d = (pyflow.call_name(c.func.value) or "?") + "()." + c.func.attr
            order.append(d or "?")
    tree_passes = [o for o in order if "set_library" not in o]
    run.check(R, "generate.generate_functions:verify-first", bool(tree_passes) and "VerifyAttrs" in tree_passes[0],
              "attribute verification must be the first pass over the parsed tree", repo.module("generate").loc(g),
              sample=dict(order=order[:6]))


def rule_r5(repo, run):
    R = run.rule("C14.R5", "--option/--language are merged under the keyword names LibraryNode.__init__ reads")
    m = repo.module("main")
    f = m.func("main_with_args")
    am = repo.module("ast")
    init = am.func("LibraryNode.__init__")
    kw = [a.arg for a in init.args.args]
    stores = {}
    for node in ast.walk(f):
        if isinstance(node, ast.Assign):
            for t in node.targets:
                if isinstance(t, ast.Subscript) and pyflow.is_name(t.value, "allinput"):
                    k = pyflow.const_str(t.slice)
                    if k:
                        stores[k] = node
        if isinstance(node, ast.Call) and isinstance(node.func, ast.Attribute) and node.func.attr == "update":
            v = node.func.value
            if isinstance(v, ast.Subscript) and pyflow.is_name(v.value, "allinput"):
                k = pyflow.const_str(v.slice)
                if k:
                    stores.setdefault(k, node)
    for key, src in (("options", "args.option"), ("language", "args.language")):
        run.check(R, "main.main_with_args:allinput[%r]" % key, key in stores and key in kw,
                  "%s must be stored under allinput[%r], a keyword of LibraryNode.__init__ (%s)"
                  % (src, key, kw), m.loc(f), sample=dict(key=key, keyword_of_LibraryNode=key in kw))
    # library is created from allinput
    cl = am.func("create_library_from_dictionary")
    run.check(R, "ast.create_library_from_dictionary:LibraryNode(**node)", "LibraryNode(**node)" in am.seg(cl),
              "the library must be created from the merged dictionary", am.loc(cl))
    # boolean normalisation like YAML
    src = m.seg(f)
    for lit in ('"true"', '"True"', '"false"', '"False"'):
        run.check(R, "main.main_with_args:bool %s" % lit, lit in src,
                  "command-line option value %s is not converted to a boolean as YAML would" % lit, m.loc(f))
    # numbers like YAML: some options are integers (line lengths, CXX_standard) and are compared with integers
    do = am.func("LibraryNode.default_options")
    ints = []
    for c in ast.walk(do):
        if isinstance(c, ast.Call) and c.keywords and ((pyflow.call_name(c) or "").endswith("Scope") or pyflow.is_name(c.func, "dict")):
            ints += [k.arg for k in c.keywords if k.arg and isinstance(k.value, ast.Constant) and type(k.value.value) is int]
    if not ints:
        raise AnalysisError("C14.R5: no integer-valued default option found in LibraryNode.default_options")
    loop = [l for l in ast.walk(f) if isinstance(l, ast.For) and "args.option" in m.seg(l.iter)]
    conv = [c for l in loop for c in ast.walk(l) if isinstance(c, ast.Call) and pyflow.is_name(c.func, "int")
            and c.args and pyflow.is_name(c.args[0], "value")]
    run.check(R, "main.main_with_args:int-options", bool(conv),
              "options %s are integers in the YAML file, but a value given with --option stays a string: "
              "`--option F_line_length=100` ends in TypeError ('>' not supported between int and str) where the YAML spelling "
              "works" % sorted(ints)[:4], m.loc(f))
    # a key given in both places: the command line wins
    merges = []
    for node in ast.walk(f):
        if isinstance(node, ast.Call) and isinstance(node.func, ast.Attribute) and node.func.attr == "update" and node.args and \
                "options" in m.seg(node.func.value) and "allinput" in m.seg(node.func.value):
            merges.append((node, "cmd-last" if pyflow.is_name(node.args[0], "cmdoptions") else "other"))
        if isinstance(node, ast.Call) and isinstance(node.func, ast.Attribute) and node.func.attr == "update" and \
                pyflow.is_name(node.func.value, "cmdoptions") and node.args:
            merges.append((node, "yaml-last"))
        if isinstance(node, ast.Call) and pyflow.is_name(node.func, "dict") and node.args and any(k.arg is None for k in node.keywords):
            first = node.args[0]
            star = [k.value for k in node.keywords if k.arg is None][-1]
            if pyflow.is_name(first, "cmdoptions") or pyflow.is_name(star, "cmdoptions"):
                merges.append((node, "cmd-last" if pyflow.is_name(star, "cmdoptions") else "yaml-last"))
        if isinstance(node, ast.Dict) and any(k is None for k in node.keys):
            stars = [v for k, v in zip(node.keys, node.values) if k is None]
            if any(pyflow.is_name(v, "cmdoptions") for v in stars):
                merges.append((node, "cmd-last" if pyflow.is_name(stars[-1], "cmdoptions") else "yaml-last"))
    kinds = [k for n_, k in merges]
    run.check(R, "main.main_with_args:command-line-wins", "cmd-last" in kinds and "yaml-last" not in kinds,
              "where the YAML file has an options group the two are merged as %s: a value given with --option must replace the "
              "one of the file (`--option F_line_length=60` against `F_line_length: 120` in the file)"
              % (kinds or "nothing recognisable"), m.loc(merges[0][0]) if merges else m.loc(f))
    # command line merged after the files
    lines = {}
    for node in ast.walk(f):
        if isinstance(node, ast.If) and "args.option" in m.seg(node.test):
            lines["option"] = node.lineno
        if isinstance(node, ast.For) and "args.filename" in m.seg(node.iter):
            lines["files"] = node.lineno
        if isinstance(node, ast.Call) and (pyflow.call_name(node) or "").endswith("create_library_from_dictionary"):
            lines["create"] = node.lineno
    ok = lines.get("files", 0) < lines.get("option", 0) < lines.get("create", 0)
    run.check(R, "main.main_with_args:merge-order", ok,
              "command-line options must be merged after the YAML files and before the library is created: %s" % lines,
              m.loc(f), sample=lines)


def rule_r6(repo, run):
    R = run.rule("C14.R6", "util.Scope contract: parent delegation and local-only operations")
    um = repo.module("util")
    cls = um.cls("Scope")
    f = {b.name: b for b in cls.body if isinstance(b, ast.FunctionDef)}
    for need in ("__getattr__", "inlocal", "setdefault", "delattrs", "update", "clone", "reparent", "__init__"):
        if need not in f:
            raise AnalysisError("C14.R6: Scope.%s vanished" % need)
    ga = f["__getattr__"]
    src = um.seg(ga)
    run.check(R, "util.Scope.__getattr__:delegate", "getattr(self.__parent, name)" in src and "raise AttributeError" in src,
              "__getattr__ must delegate to the parent and raise AttributeError at the root", um.loc(ga),
              sample=dict(body=src[:120]))
    tests = [n for n in ast.walk(ga) if isinstance(n, ast.If)]
    run.check(R, "util.Scope.__getattr__:parent-test", len(tests) == 1 and "__parent" in um.seg(tests[0].test),
              "delegation must be conditional on having a parent only", um.loc(ga))
    for name in ("inlocal", "setdefault", "delattrs"):
        s = um.seg(f[name])
        run.check(R, "util.Scope.%s:local" % name, "self.__dict__" in s and "getattr(" not in s and "hasattr(" not in s
                  and "__parent" not in s,
                  "%s must consult the local dictionary only (eval_template relies on it to decide whether a "
                  "name was set at this level)" % name, um.loc(f[name]))
    up = f["update"]
    s = um.seg(up)
    ifs = [n for n in ast.walk(up) if isinstance(n, ast.If)]
    ok = len(ifs) == 2 and "replace" in um.seg(ifs[0].test) and "not hasattr(self, key)" in um.seg(ifs[1].test)
    run.check(R, "util.Scope.update:replace", ok,
              "update(replace=False) must only add keys that are not visible anywhere on the chain", um.loc(up))
    run.check(R, "util.Scope.update:setattr", s.count("setattr(self, key, value)") == 2,
              "update must set values on this scope", um.loc(up))
    cl = f["clone"]
    s = um.seg(cl)
    run.check(R, "util.Scope.clone", "Scope(self.__parent)" in s and "new.__dict__[key] = value" in s,
              "clone must keep the same parent and copy the local entries", um.loc(cl))
    rp = f["reparent"]
    run.check(R, "util.Scope.reparent", "self.__parent = parent" in um.seg(rp), "reparent must replace the parent",
              um.loc(rp))
    # eval_template / set_fmt_default only set when not local
    am = repo.module("ast")
    for name in ("AstNode.eval_template", "AstNode.set_fmt_default"):
        fn = am.func(name)
        s = am.seg(fn)
        run.check(R, "ast.%s:inlocal-guard" % name, "if not fmt.inlocal(name):" in s,
                  "%s must not overwrite a value the user set at this level" % name, am.loc(fn))


def rule_x(repo, run):
    R = run.rule("C14.R7", "a wrap_* option set on a declaration equals the same option on its container: flags are "
                           "promoted bottom-up through every container level (C15.R6)")
    from checks import c15
    from sa.report import import_rules
    import_rules(run, R, c15, repo, {"C15.R6"}, only=lambda c: c.startswith("ast.PromoteWrap") or c.startswith("ast.WrapFlags"))
    # ... and the declaration's own options are merged before its flags are read (C15.R8)
    import_rules(run, R, c15, repo, {"C15.R8"}, only=lambda c: c.endswith(":wrap-after-options"))


def rule_r8(repo, run):
    R = run.rule("C14.R8", "a declaration consults its own option scope: the parent's options are only used to chain "
                           "the node's scope to them")
    n = 0
    for mn in ("ast", "generate", "wrapc", "wrapf", "wrapp", "wrapl"):
        m = repo.module(mn)
        for node in ast.walk(m.tree):
            if isinstance(node, ast.Attribute) and node.attr == "options" and isinstance(node.ctx, ast.Load):
                d = pyflow.dotted(node) or ""
                if not (d == "parent.options" or d.endswith(".parent.options")):
                    continue
                n += 1
                par = getattr(node, "_parent", None)
                chain = False
                if isinstance(par, ast.keyword) and par.arg == "parent":
                    chain = True
                if isinstance(par, ast.Call) and (pyflow.call_name(par) or "").split(".")[-1] == "Scope" \
                        and par.args and par.args[0] is node:
                    chain = True
                fn = enclosing_function(node)
                run.check(R, "%s.%s:%s" % (mn, getattr(fn, "_qualname", "<module>"), d), chain,
                          "options are read from the parent (`%s`) instead of the declaration's own scope: an option set "
                          "on the declaration itself is ignored although the same option on its container works"
                          % m.seg(getattr(par, "_parent", par) if isinstance(par, ast.keyword) else par)[:70], m.loc(node),
                          sample=dict(where=getattr(fn, "_qualname", "<module>"), read=d))
    run.floor(R, "reads of a parent's options", n, 6)


def rule_r9(repo, run):
    R = run.rule("C14.R9", "scope hygiene: siblings share their parent, per-declaration passes read the declaration's "
                           "options, inline attribute values are kept token for token")
    from sa import lints
    mods = ("ast", "generate", "wrapc", "wrapf", "wrapp", "wrapl")
    found, n = lints.library_options_in_node_pass(repo, mods)
    for mn, q, node, msg in found:
        run.fail(R, "%s.%s:options" % (mn, q), msg, repo.module(mn).loc(node))
    run.rules[R]["obligations"] += n - len(found)
    run.rules[R]["discharged"] += n - len(found)
    run.floor(R, "`options = ...` bindings in per-declaration functions", n, 15)
    found, n2 = lints.library_option_reads(repo, ("typemap", "generate", "wrapc", "wrapf", "wrapp", "wrapl", "ast", "whelpers"))
    for mn, q, node, msg in found:
        run.fail(R, "%s.%s:%s" % (mn, q, pyflow.dotted(node)), msg, repo.module(mn).loc(node))
    run.rules[R]["obligations"] += n2
    run.rules[R]["discharged"] += n2 - len(found)
    for mn, q, node, msg in lints.rebound_parameter_in_loop(repo, "ast", "add_declarations", "parent"):
        run.fail(R, "%s.%s:parent" % (mn, q), msg + " - options/format of a block leak onto the declarations after it",
                 repo.module(mn).loc(node))
    run.ok(R, "ast.add_declarations:parent-invariant")
    # Parser.attribute: every token between the outer parentheses becomes part of the value
    dm = repo.module("declast")
    pa = dm.func("Parser.attribute")
    apps = [c for c in ast.walk(pa) if isinstance(c, ast.Call) and isinstance(c.func, ast.Attribute) and c.func.attr == "append"
            and c.args and dm.seg(c.args[0]) == "self.token.value"]
    ok = len(apps) == 1
    if ok:
        lp = next((a for a in parent_chain(apps[0]) if isinstance(a, ast.While)), None)
        conds = [(dm.seg(t), pol) for t, pol in pyflow.dominating_tests(apps[0], stop=lp)] if lp is not None else None
        ok = lp is not None and conds == []
    run.check(R, "declast.Parser.attribute:keep-tokens", ok,
              "inside +name(...) every token (nested parentheses included) must be appended to the value; the append is "
              "conditional (%s), so `+dimension(2*(n+1))` inline differs from the same value under attrs:" %
              (conds if apps else "missing"), dm.loc(pa))


def rule_r10(repo, run):
    R = run.rule("C14.R10", "a `format:` group given on a declaration wins over the defaults the node computes for itself: it is "
                            "applied after every unconditional assignment of a format field")
    am = repo.module("ast")
    n = 0
    for q, fn in sorted(am.functions().items()):
        if not q.endswith((".default_format", ".__init__")):
            continue
        ups = [c for c in ast.walk(fn) if isinstance(c, ast.Call) and isinstance(c.func, ast.Attribute) and c.func.attr == "update"
               and c.args and isinstance(c.args[0], ast.Name) and c.args[0].id in ("format", "fmtdict")
               and c.args[0].id in [a.arg for a in fn.args.args]]
        for u in ups:
            scope = am.seg(u.func.value)
            # unconditional assignments `<scope>.<field> = ...` (or through a local alias of the same scope) after the update
            names = {str(scope)}
            for a in ast.walk(fn):
                if isinstance(a, ast.Assign) and len(a.targets) == 1 and isinstance(a.targets[0], ast.Name) \
                        and str(am.seg(a.value)) == str(scope):
                    names.add(a.targets[0].id)
                if isinstance(a, ast.Assign) and len(a.targets) == 1 and str(am.seg(a.targets[0])) == str(scope) \
                        and isinstance(a.value, ast.Name):
                    names.add(a.value.id)
            late = [a for a in ast.walk(fn) if isinstance(a, ast.Assign) and isinstance(a.targets[0], ast.Attribute)
                    and str(am.seg(a.targets[0].value)) in names and (a.lineno, a.col_offset) > (u.lineno, u.col_offset)
                    # `X.f = X.f.lower()` normalises whatever value is there, the user's included
                    and not any(isinstance(x, ast.Attribute) and x.attr == a.targets[0].attr
                                and str(am.seg(x.value)) in names for x in ast.walk(a.value))]
            n += 1
            run.check(R, "ast.%s:format-last" % q, not late,
                      "`%s` is followed by the assignment(s) %s of computed defaults: a value the user gives in the `format:` "
                      "group of this declaration is overwritten, while the same field given further down (on a function) "
                      "is honoured" % (" ".join(str(am.seg(u)).split()), [str(am.seg(a.targets[0])) for a in late][:4]), am.loc(u))
    run.floor(R, "format groups applied by node constructors", n, 4)


def rule_r11(repo, run):
    R = run.rule("C14.R11", "CXX_this may be set in the format group of a class or of one method (docs: \"it may be necessary to set this "
                            "if it conflicts with an argument name\"): the method's wrapper declares the object pointer with {CXX_this} "
                            "and calls through {CXX_this_call}, so the call prefix is derived from the method's own CXX_this")
    wc = repo.module("wrapc")
    wf = wc.func("Wrapc.wrap_function")
    uses_direct = any(isinstance(c, ast.Constant) and isinstance(c.value, str) and "{CXX_this}" in c.value for c in ast.walk(wf))
    uses_call = any(isinstance(c, ast.Constant) and isinstance(c.value, str) and "{CXX_this_call}" in c.value for c in ast.walk(wf))
    if not (uses_direct and uses_call):
        raise AnalysisError("C14.R11: wrap_function no longer uses {CXX_this} and {CXX_this_call}")
    derived = [a for a in ast.walk(wf) if isinstance(a, ast.Assign) and ast.unparse(a.targets[0]) == "fmt_func.CXX_this_call"
               and "fmt_func.CXX_this" in ast.unparse(a.value).replace("fmt_func.CXX_this_call", "")]
    # the declaration of the object pointer: the derivation must hold on the same path
    decl = [c for c in ast.walk(wf) if isinstance(c, ast.Constant) and isinstance(c.value, str) and re.search(r"\*\{CXX_this\} =", c.value)]
    same_path = False
    for a in derived:
        for d in decl:
            if pyflow.path_atoms(a, stop=wf, seg=ast.unparse) <= pyflow.path_atoms(d, stop=wf, seg=ast.unparse):
                same_path = True
    run.check(R, "wrapc.Wrapc.wrap_function:CXX_this_call<-CXX_this", bool(derived) and same_path,
              "the call prefix {CXX_this_call} is only computed per class (wrap_class: fmt_class.CXX_this + \"->\") while the method's "
              "wrapper declares `{cxx_type} *{CXX_this} = ...` from its own format: `format: {CXX_this: obj}` on a method declares "
              "`A *obj` and calls `SH_this->m(a)` (does not compile; at class level the same setting works)", wc.loc(wf))



def rule_r12(repo, run):
    R = run.rule("C14.R12", "template_suffix may be set in the format group of the function, of an instantiation or of any container: "
                            "the default (`_<type>` / `_<n>`) is computed only when no level has set it, so the test reads the "
                            "field through the scope chain")
    gm = repo.module("generate")
    n = 0
    for q in ("GenFunctions.template_function", "GenFunctions.instantiate_classes"):
        fn = gm.func(q)
        for i in ast.walk(fn):
            if not isinstance(i, ast.If):
                continue
            t = ast.unparse(i.test)
            if "template_suffix" not in t:
                continue
            n += 1
            local_only = "inlocal(" in t or ".__dict__" in t
            run.check(R, "generate.%s:template_suffix:%s" % (q, re.sub(r"\s+", "", t)[:40]), not local_only,
                      "`%s` only sees a template_suffix stored on this very scope: one set on the enclosing block, class, namespace "
                      "or library is replaced by the type-derived default, while the same field on the function is honoured" % t,
                      gm.loc(i))
    run.floor(R, "tests of template_suffix", n, 2)


def rule_r13(repo, run):
    R = run.rule("C14.R13", "every kind of declaration that accepts a `format` / `options` group applies it: a field set on an enum, "
                            "a variable or a typedef has the effect it has on the enclosing block")
    am = repo.module("ast")
    n = 0
    for cname, cls in sorted(am.classes().items()):
        if not cname.endswith("Node"):
            continue
        init = [f for f in cls.body if isinstance(f, ast.FunctionDef) and f.name == "__init__"]
        if not init:
            continue
        params = [a.arg for a in init[0].args.args]
        for p_ in ("format", "options"):
            if p_ not in params:
                continue
            n += 1
            used = [x for x in ast.walk(init[0]) if isinstance(x, ast.Name) and x.id == p_ and isinstance(x.ctx, ast.Load)
                    and not isinstance(getattr(x, "_parent", None), ast.If)]
            run.check(R, "ast.%s.__init__:%s" % (cname, p_), bool(used),
                      "%s.__init__ takes `%s` and never uses it: the group written under the declaration in the YAML file is dropped "
                      "silently, the same group on an enclosing block is honoured" % (cname, p_), am.loc(init[0]))
    run.floor(R, "format / options parameters of node constructors", n, 12)



def rule_r15(repo, run):
    R = run.rule("C14.R15", "a node computes the fields that are about itself with its own options: a helper that reads "
                            "`self.options` is called on the node whose name (or other attribute) it is given")
    am = repo.module("ast")
    # methods of the node classes that read self.options
    readers = set()
    for q, fn in am.functions().items():
        if "." in q and any(isinstance(x, ast.Attribute) and x.attr == "options" and pyflow.is_name(x.value, "self") for x in ast.walk(fn)):
            readers.add(q.split(".")[-1])
    n = 0
    for q, fn in sorted(am.functions().items()):
        for c in ast.walk(fn):
            if not (isinstance(c, ast.Call) and isinstance(c.func, ast.Attribute) and c.func.attr in readers and c.args):
                continue
            recv = ast.unparse(c.func.value)
            owners = set()
            for a in c.args:
                if isinstance(a, ast.Attribute) and isinstance(a.value, (ast.Name, ast.Attribute)) and a.attr in ("name", "decl"):
                    owners.add(ast.unparse(a.value))
            if not owners:
                continue
            n += 1
            run.check(R, "ast.%s:%s(%s)" % (q, c.func.attr, ast.unparse(c.args[0])), owners == {recv},
                      "`%s` is called on `%s` with an attribute of %s: the helper reads the options of the object it is called on, "
                      "so an option set on this declaration is ignored for its own name and the parent's is used instead"
                      % (c.func.attr, recv, sorted(owners)), am.loc(c))
    run.floor(R, "option-reading helpers called with a node's own attribute", n, 2)


def rule_r16(repo, run):
    R = run.rule("C14.R16", "every group a template instantiation accepts (`format`, `options`) is applied to what is instantiated, "
                            "for function templates as for class templates")
    gm = repo.module("generate")
    am = repo.module("ast")
    ta = am.func("TemplateArgument.__init__")
    fields = [a.targets[0].attr for a in ast.walk(ta) if isinstance(a, ast.Assign) and isinstance(a.targets[0], ast.Attribute)
              and isinstance(a.value, ast.Name) and a.value.id in ("fmtdict", "options")]
    if sorted(fields) != ["fmtdict", "options"]:
        raise AnalysisError("C14.R16: TemplateArgument no longer keeps fmtdict and options (%s)" % fields)
    n = 0
    for q, fn in sorted(gm.functions().items()):
        loops = [l for l in ast.walk(fn) if isinstance(l, ast.For) and "template_arguments" in ast.unparse(l.iter)]
        for lp in loops:
            v = [t.id for t in ast.walk(lp.target) if isinstance(t, ast.Name)]
            v = [x for x in v if x.startswith("targ")]
            if not v:
                continue
            if not any(isinstance(c, ast.Call) and (pyflow.call_name(c) or "").endswith(".clone") for c in ast.walk(lp)):
                continue
            for fld in fields:
                n += 1
                used = [x for x in ast.walk(lp) if isinstance(x, ast.Attribute) and x.attr == fld and pyflow.is_name(x.value, v[0])
                        and isinstance(getattr(x, "_parent", None), ast.Call)]
                run.check(R, "generate.%s:%s.%s" % (q, v[0], fld), bool(used),
                          "the `%s` group of an instantiation is never applied in %s: it is accepted in the YAML file and has no "
                          "effect" % ("format" if fld == "fmtdict" else "options", q), gm.loc(lp))
    run.floor(R, "groups of template instantiations", n, 4)


def run(repo, run, tier):
    rule_r1(repo, run)
    rule_r2(repo, run)
    rule_r3(repo, run)
    rule_r4(repo, run)
    rule_r5(repo, run)
    rule_r6(repo, run)
    rule_x(repo, run)
    rule_r8(repo, run)
    rule_r9(repo, run)
    rule_r10(repo, run)
    rule_r11(repo, run)
    rule_r12(repo, run)
    rule_r13(repo, run)
    rule_r15(repo, run)
    rule_r16(repo, run)
