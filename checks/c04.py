"""C04 - Fortran bind(C) interfaces agree with the C functions and structs
they bind to.  Sibling agreement (F3) between wrapc.build_proto_list,
wrapf.build_arg_list_interface, wrapf.build_arg_list_impl, the
c_arg_decl/f_arg_decl pairs of the statement table, the C struct / Fortran
derived type helper pairs, the SH_TYPE_* constant tables, the helper
interfaces and the scalar kinds of the type table."""
import ast
import re

from sa import pattern, tables, templ, pyflow, interop
from sa.loader import AnalysisError
from sa.consteval import Evaluator, is_unknown

EXPLANATION = (
    "Static sibling-agreement analysis over the sources of /repo: (R1) the if/elif chains "
    "on buf_arg in wrapc.build_proto_list, wrapf.build_arg_list_interface and "
    "wrapf.build_arg_list_impl are specialised per key and compared (key sets, one "
    "parameter/name/actual per key, interoperable C vs Fortran types, kind= of the actual, "
    "module imports); (R2) every c_arg_decl/f_arg_decl/f_result_decl pair of fc_statements "
    "after base/mixin resolution for both languages; (R3) C struct vs Fortran bind(C) derived "
    "type in the helper table; (R4) #define SH_TYPE_* vs Fortran parameter table, evaluated; "
    "(R5) bind(C,name=) helper interfaces vs C helper definitions; (R6) c_type vs "
    "f_kind/f_type/f_cast/f_module in the type table.")
NOT_DECIDED = (
    "Per-declaration run-time attributes (value/rank/dimension chosen for one particular "
    "YAML declaration) are not enumerated; only the code and tables that produce every "
    "interface are compared.")


# ---------------------------------------------------------------------------
# helpers to read the three sibling functions
# ---------------------------------------------------------------------------

def _append_sites(stmts):
    """[(receiver, kind, value_node, call)] for x.append(v) / append_format(x, T, fmt)
    / x.extend / append_format_lst in specialised statements (unconditional
    and conditional)."""
    out = []
    for st, cond, kind in stmts:
        if kind == "test":
            continue
        for call in pyflow.header_calls(st):
            fn = pyflow.call_name(call)
            if fn is None:
                continue
            if fn.endswith(".append") and call.args:
                out.append((pyflow.dotted(call.func.value), "append", call.args[0], call, cond))
            elif fn.endswith(".extend") and call.args:
                out.append((pyflow.dotted(call.func.value), "extend", call.args[0], call, cond))
            elif fn.split(".")[-1] == "append_format" and len(call.args) >= 2:
                out.append((pyflow.dotted(call.args[0]), "append_format", call.args[1], call, cond))
            elif fn.split(".")[-1] == "append_format_lst" and len(call.args) >= 2:
                out.append((pyflow.dotted(call.args[0]), "append_format_lst", call.args[1], call, cond))
    return out


def _const_template(node):
    """String constant of a template expression: Constant, "..." % x,
    "...".format(...) -> the constant text with %s kept."""
    if isinstance(node, ast.Constant) and isinstance(node.value, str):
        return node.value
    if isinstance(node, ast.BinOp) and isinstance(node.op, ast.Mod):
        return _const_template(node.left)
    if isinstance(node, ast.Call) and isinstance(node.func, ast.Attribute) and node.func.attr == "format":
        return _const_template(node.func.value)
    if isinstance(node, ast.BinOp) and isinstance(node.op, ast.Add):
        l = _const_template(node.left)
        r = _const_template(node.right)
        if l is not None or r is not None:
            return (l if l is not None else "{?}") + (r if r is not None else "{?}")
    return None


def _mod_args(node):
    """Argument expressions of `"..." % (a, b)`."""
    if isinstance(node, ast.BinOp) and isinstance(node.op, ast.Mod):
        r = node.right
        if isinstance(r, ast.Tuple):
            return list(r.elts)
        return [r]
    return []


def _set_f_module_kinds(stmts):
    kinds = set()
    for st, cond, kind in stmts:
        if kind == "test":
            continue
        for call in pyflow.header_calls(st):
            fn = pyflow.call_name(call) or ""
            if fn.endswith("set_f_module"):
                for a in call.args[2:]:
                    s = pyflow.const_str(a)
                    if s:
                        kinds.add(s)
    return kinds


def _imports_set(stmts):
    out = set()
    for st, cond, kind in stmts:
        if isinstance(st, ast.Assign):
            for t in st.targets:
                if isinstance(t, ast.Subscript) and pyflow.dotted(t.value) == "imports":
                    d = pyflow.dotted(t.slice)
                    if d:
                        out.add(d)
    return out


BUF_KEYS_FIXED = ["size", "capsule", "context", "len_trim", "len"]
PAIRED_TYPES = {"{C_capsule_data_type}": "fmt.F_capsule_data_type",
                "{C_array_type}": "fmt.F_array_type"}


def rule_r1(repo, run):
    R = run.rule("C04.R1", "buf_arg siblings: build_proto_list / build_arg_list_interface / "
                           "build_arg_list_impl agree per key")
    wc = repo.module("wrapc")
    wf = repo.module("wrapf")
    fC = wc.func("Wrapc.build_proto_list")
    fI = wf.func("Wrapf.build_arg_list_interface")
    fA = wf.func("Wrapf.build_arg_list_impl")
    loops = {}
    for tag, f, m in (("C", fC, wc), ("I", fI, wf), ("A", fA, wf)):
        ls = pyflow.find_loop_over(f, "buf_arg")
        if len(ls) != 1:
            raise AnalysisError("C04.R1: expected one `for buf_arg in ...` loop in %s, found %d"
                                % (f.name, len(ls)))
        loops[tag] = (ls[0], m, f)
    keys = {tag: pyflow.keys_compared(loops[tag][0].body, "buf_arg") for tag in loops}
    allkeys = []
    for tag in ("C", "I", "A"):
        for k in keys[tag]:
            if k not in allkeys:
                allkeys.append(k)
    run.floor(R, "buf_arg keys", len(allkeys), 8)
    # key-set agreement
    for tag, name in (("C", "wrapc.Wrapc.build_proto_list"),
                      ("I", "wrapf.Wrapf.build_arg_list_interface"),
                      ("A", "wrapf.Wrapf.build_arg_list_impl")):
        loop, m, f = loops[tag]
        for k in allkeys:
            run.check(R, "%s[buf_arg=%s]" % (name, k), k in keys[tag],
                      "key %r is handled by a sibling but not by %s" % (k, name), m.loc(loop))
        sp = pyflow.specialize(loop.body, "buf_arg", "<unhandled-key>")
        run.check(R, "%s[unhandled]" % name, sp.end == "raise",
                  "an unknown buf_arg key must raise, walk ends with %r" % sp.end, m.loc(loop),
                  sample="unknown key -> raise")

    specs = {}
    for tag in loops:
        loop, m, f = loops[tag]
        for k in allkeys:
            specs[(tag, k)] = pyflow.specialize(loop.body, "buf_arg", k)

    # by-value / by-reference agreement: where the C prototype switches between `T x` and `T * x` on an attribute,
    # the interface must switch the VALUE attribute on the same test
    def value_tests(tag, k, want_text):
        out = set()
        for st, cond, kind in specs[(tag, k)].stmts:
            for x in ast.walk(st):
                if isinstance(x, ast.IfExp) and "value" in ast.unparse(x.test):
                    arms = [pyflow.const_str(x.body) or "", pyflow.const_str(x.orelse) or ""]
                    if want_text is None or any(want_text in a.lower() for a in arms):
                        out.add(ast.unparse(x.test))
        return out
    for k in allkeys:
        ct = value_tests("C", k, "*")
        if not ct:
            continue
        it = value_tests("I", k, "value")
        run.check(R, "wrapf.Wrapf.build_arg_list_interface[buf_arg=%s]:by-value" % k, ct <= it,
                  "the C prototype passes this argument by value or by pointer depending on %s, but the bind(C) "
                  "interface does not add VALUE on the same test (%s): C receives an address where it expects the "
                  "object" % (sorted(ct), sorted(it)), loops["I"][1].loc(loops["I"][0]),
                  sample=dict(key=k, c_tests=sorted(ct), interface_tests=sorted(it)))

    # role inference for receivers
    def receivers(tag):
        decls, others = set(), set()
        for k in allkeys:
            for recv, kind, val, call, cond in _append_sites(specs[(tag, k)].stmts):
                t = _const_template(val)
                if t is not None and "::" in t:
                    decls.add(recv)
                else:
                    others.add(recv)
        return decls, others - decls

    declI, otherI = receivers("I")
    declA, otherA = receivers("A")
    if len(declI) != 1 or len(otherI) != 1:
        raise AnalysisError("C04.R1: cannot identify name/decl lists of build_arg_list_interface: %s %s"
                            % (declI, otherI))
    names_list = list(otherI)[0]
    decl_list = list(declI)[0]
    if len(otherA) != 1:
        raise AnalysisError("C04.R1: cannot identify the actual-argument list of build_arg_list_impl: %s"
                            % otherA)
    call_list = list(otherA)[0]

    for k in allkeys:
        # C side
        loop, m, f = loops["C"]
        csites = [s for s in _append_sites(specs[("C", k)].stmts)]
        cun = [s for s in csites if not s[4]]
        cname = "wrapc.Wrapc.build_proto_list[buf_arg=%s]" % k
        if k == "arg_decl":
            ok = len(csites) == 1 and csites[0][1] == "append_format" and \
                "c_arg_decl" in ((pyflow.dotted(csites[0][3].args[1]) or "") + " " +
                                 (pyflow.dotted(getattr(_enclosing_for_iter(csites[0][3]), "iter", None)) or ""))
            run.check(R, cname, ok,
                      "arg_decl must emit exactly the entry's c_arg_decl templates", m.loc(loop),
                      sample="for arg in intent_blk.c_arg_decl: append_format(proto_list, arg, ...)")
        else:
            run.check(R, cname, len(cun) == 1 and len(csites) == 1,
                      "expected exactly one parameter appended, found %d" % len(csites), m.loc(loop),
                      sample=[m.seg(s[2]) for s in csites])
        # interface side: every path exactly one name and (for fixed keys) one decl
        loopI, mI, fI_ = loops["I"]
        isites = _append_sites(specs[("I", k)].stmts)
        nn = [s for s in isites if s[0] == names_list]
        iname = "wrapf.Wrapf.build_arg_list_interface[buf_arg=%s]" % k
        run.check(R, iname + ".names", len(nn) == 1 and not nn[0][4],
                  "expected exactly one unconditional append to %s, found %d" % (names_list, len(nn)),
                  mI.loc(loopI), sample=[mI.seg(s[2]) for s in nn])
        dd = [s for s in isites if s[0] == decl_list]
        if k in BUF_KEYS_FIXED:
            run.check(R, iname + ".decl", len(dd) == 1,
                      "expected exactly one declaration appended, found %d" % len(dd), mI.loc(loopI))
        else:
            run.check(R, iname + ".decl", len(dd) >= 1,
                      "no declaration appended", mI.loc(loopI))
        # impl side
        loopA, mA, fA_ = loops["A"]
        asites = [s for s in _append_sites(specs[("A", k)].stmts) if s[0] == call_list]
        aname = "wrapf.Wrapf.build_arg_list_impl[buf_arg=%s]" % k
        if k in BUF_KEYS_FIXED or k == "shadow":
            run.check(R, aname, len(asites) == 1 and not asites[0][4],
                      "expected exactly one actual argument, found %d" % len(asites), mA.loc(loopA),
                      sample=[mA.seg(s[2]) for s in asites])
        else:
            # arg / arg_decl: one append per branch of an if/elif/else chain
            run.check(R, aname, len(asites) >= 1 and all(s[4] for s in asites) or len(asites) == 1,
                      "expected one actual argument per branch", mA.loc(loopA))

        if k not in BUF_KEYS_FIXED:
            continue
        # interoperability of the fixed keys
        if len(csites) != 1 or len(dd) != 1 or len(asites) != 1:
            continue
        ctext = _const_template(csites[0][2])
        ftext = _const_template(dd[0][2])
        atext = _const_template(asites[0][2])
        if ctext is None or ftext is None:
            run.unmodelled_site(R, cname, "non-constant template")
            continue
        fargs = _mod_args(dd[0][2])
        # substitute %s with placeholders naming the python expressions
        fsub = ftext
        for a in fargs:
            fsub = fsub.replace("%s", "<%s>" % (pyflow.dotted(a) or "?"), 1)
        cp = interop.CParam(ctext)
        fd = interop.FDecl(fsub.replace("<", "{").replace(">", "}"))
        probs = interop.interop_problems(cp, fd)
        # paired struct names
        if cp.base in PAIRED_TYPES:
            want = PAIRED_TYPES[cp.base]
            if want not in fsub:
                probs.append("C parameter type %s must pair with Fortran type(%s), got %r"
                             % (cp.base, want, fsub))
            imps = _imports_set(specs[("I", k)].stmts)
            if want not in imps:
                probs.append("interface does not import %s" % want)
        elif cp.base.startswith("{"):
            probs.append("unexpected placeholder type %s" % cp.base)
        # kinds imported
        kinds_i = _set_f_module_kinds(specs[("I", k)].stmts)
        for kind in fd.kinds:
            if kind not in kinds_i:
                probs.append("interface uses kind %s without set_f_module(..., %r)" % (kind, kind))
        # actual argument kind
        if atext is not None:
            mk = re.search(r"kind\s*=\s*(C_[A-Z0-9_]+)", atext)
            if fd.kinds:
                if not mk:
                    probs.append("actual argument %r has no kind= while dummy is %s" % (atext, fd.type))
                elif mk.group(1) not in fd.kinds:
                    probs.append("actual argument kind %s differs from dummy kind %s"
                                 % (mk.group(1), fd.kinds))
                kinds_a = _set_f_module_kinds(specs[("A", k)].stmts)
                if mk and mk.group(1) not in kinds_a:
                    probs.append("impl uses kind %s without set_f_module" % mk.group(1))
            intrinsic = {"size": "size(", "len": "len(", "len_trim": "len_trim("}.get(k)
            if intrinsic and not atext.replace(" ", "").startswith(intrinsic):
                probs.append("actual argument for %r must be %s...), got %r" % (k, intrinsic, atext))
        run.check(R, "buf_arg=%s:interop" % k, not probs,
                  "; ".join(probs), "%s / %s" % (wc.loc(csites[0][3]), wf.loc(dd[0][3])),
                  sample=dict(c=ctext, fortran=fsub, actual=atext))


def _enclosing_for_iter(node):
    from sa.loader import parent_chain
    for p in parent_chain(node):
        if isinstance(p, ast.For):
            return p
    return None


# ---------------------------------------------------------------------------
# R2: c_arg_decl / f_arg_decl pairs
# ---------------------------------------------------------------------------

PLACEHOLDER_PAIR = {"{cxx_type}": ("{f_type}", "type(C_PTR)"), "{c_type}": ("{f_type}", "type(C_PTR)")}
ALWAYS_IMPORTED = set()


def rule_r2(repo, run, table):
    R = run.rule("C04.R2", "c_arg_decl / f_arg_decl / f_result_decl pairs of fc_statements are "
                           "interoperable and import their kinds")
    seen = 0
    done = set()
    for lang in ("c", "c++"):
        res = table.resolve_all(lang)
        for name, e in res.items():
            if not name.startswith("c_"):
                continue
            buf = e.get("buf_args") or []
            cdecl = e.lines("c_arg_decl")
            fdecl = e.lines("f_arg_decl")
            key = (name, tuple(cdecl), tuple(fdecl), tuple(buf))
            if key in done:
                continue
            done.add(key)
            construct = "statements.fc_statements[%s]" % name
            loc = table.loc(e.raw)
            if "arg_decl" in buf:
                seen += 1
                if not run.check(R, construct + ".arity", len(cdecl) == len(fdecl) and len(cdecl) >= 1,
                                 "buf_args has arg_decl but c_arg_decl has %d and f_arg_decl %d entries"
                                 % (len(cdecl), len(fdecl)), loc):
                    continue
                mods = _modules_of(e)
                for c, f in zip(cdecl, fdecl):
                    cp = interop.CParam(templ.unescape(c))
                    fd = interop.FDecl(templ.unescape(f))
                    probs = interop.interop_problems(cp, fd)
                    if cp.base in PLACEHOLDER_PAIR:
                        ft = fd.type.replace(" ", "")
                        if ft not in PLACEHOLDER_PAIR[cp.base] and ft.lower() != "type(c_ptr)":
                            probs.append("C type %s must pair with {f_type} or type(C_PTR), got %s"
                                         % (cp.base, fd.type))
                    for kind in fd.kinds + re.findall(r"\bC_PTR\b", fd.type):
                        if kind not in mods:
                            probs.append("Fortran declaration uses %s but f_module/f_module_line "
                                         "of the entry does not import it" % kind)
                    if "{f_type}" in fd.type and "{f_kind}" not in mods and not e.get("f_module_line"):
                        pass
                    run.check(R, construct, not probs, "; ".join(probs), loc,
                              sample=dict(entry=name, c=c, fortran=f))
            elif cdecl or fdecl:
                run.check(R, construct, False,
                          "c_arg_decl/f_arg_decl given but buf_args lacks 'arg_decl' (never emitted)", loc)
            rdecl = e.lines("f_result_decl")
            if rdecl:
                mods = _modules_of(e)
                for f in rdecl:
                    fd = interop.FDecl(templ.unescape(f))
                    probs = []
                    if not fd.ok:
                        probs.append("f_result_decl %r is not a declaration" % f)
                    if fd.value or fd.intent:
                        probs.append("function result must not carry VALUE/INTENT")
                    for kind in fd.kinds:
                        if kind not in mods:
                            probs.append("f_result_decl uses %s but the entry does not import it" % kind)
                    # result type vs the C return: c_char_scalar_result returns char
                    parts = name.split("_")
                    if len(parts) > 1 and parts[1] == "char" and fd.ok and fd.tclass != "character":
                        probs.append("char result declared as %s" % fd.type)
                    run.check(R, construct + ".result", not probs, "; ".join(probs), loc,
                              sample=dict(entry=name, f_result_decl=f))
    run.floor(R, "entries with arg_decl", seen, 10)


def _modules_of(e):
    mods = set()
    fm = e.get("f_module")
    if isinstance(fm, dict):
        for lst in fm.values():
            if isinstance(lst, (list, tuple)):
                mods.update(str(x) for x in lst)
    line = e.get("f_module_line")
    if isinstance(line, str):
        # "iso_c_binding:C_INT,C_LONG" ; may hold {f_kind}
        for part in line.split(";"):
            if ":" in part:
                mods.update(x.strip() for x in part.split(":", 1)[1].split(","))
    return mods


# ---------------------------------------------------------------------------
# R3: struct / derived type pairs
# ---------------------------------------------------------------------------

def parse_c_struct(text):
    """[(ctype, name, array)] of the outer struct in helper source text."""
    src = templ.protect(templ.c_code(text))
    m = re.search(r"struct\s+\S+\s*\{", src)
    if not m:
        return None
    i = m.end()
    depth = 1
    fields = []
    cur = ""
    nested = ""
    while i < len(src) and depth:
        c = src[i]
        if c == "{":
            depth += 1
            if depth == 2:
                nested = cur.strip()
                cur = ""
        elif c == "}":
            depth -= 1
            if depth == 1:
                # nested aggregate: name follows up to ';'
                j = src.find(";", i)
                fname = src[i + 1:j].strip()
                fields.append(((nested.split() or ["?"])[0] + "{...}", templ.unprotect(fname), None))
                i = j
                cur = ""
        elif c == ";" and depth == 1:
            decl = cur.strip()
            if decl:
                cp = interop.CParam(templ.unprotect(decl))
                ctype = cp.base + (" " + "*" * cp.depth if cp.depth else "")
                fields.append((ctype.strip(), cp.name, cp.array))
            cur = ""
        elif depth == 1:
            cur += c
        i += 1
    return fields


def parse_f_type(text):
    """[(ftype, name, dims)] of a `type, bind(C) :: X ... end type`."""
    lines = [templ.strip_f_comment(l).strip() for l in text.split("\n")]
    fields = []
    inside = False
    bindc = False
    for l in lines:
        low = l.lower().replace(" ", "")
        if not inside and low.startswith("type,bind(c)::"):
            inside = True
            bindc = True
            continue
        if not inside and re.match(r"type\s*::", l.lower()):
            inside = True
            continue
        if inside and low.startswith("endtype"):
            break
        if inside and "::" in l:
            fd = interop.FDecl(l)
            fields.append((fd.type.replace(" ", ""), fd.name, fd.dims))
    return fields if inside else None, bindc


FIELD_INTEROP = {
    "void *": {"type(C_PTR)"},
    "union{...}": {"type(C_PTR)"},
    "int": {"integer(C_INT)"},
    "size_t": {"integer(C_SIZE_T)"},
    "long": {"integer(C_LONG)"},
}


def rule_r3(repo, run, helpers):
    R = run.rule("C04.R3", "C struct and Fortran bind(C) derived type of the same helper have the "
                           "same fields in the same order with interoperable types")
    pairs = 0
    for name in sorted(set(helpers.c) & set(helpers.f)):
        ch, fh = helpers.c[name], helpers.f[name]
        csrc = None
        for k, text in tables.helper_sources(ch):
            if "struct" in text:
                csrc = text
        fsrc = tables.helper_text(fh, "derived_type") or None
        if not csrc or not fsrc:
            continue
        cf = parse_c_struct(csrc)
        ff, bindc = parse_f_type(fsrc)
        if cf is None or ff is None:
            continue
        pairs += 1
        construct = "whelpers.helper[%s]" % name
        loc = repo.module("whelpers").loc(ch.node)
        probs = []
        if not bindc:
            probs.append("Fortran type lacks bind(C)")
        if len(cf) != len(ff):
            probs.append("C struct has %d fields %s, Fortran type has %d %s"
                         % (len(cf), [x[1] for x in cf], len(ff), [x[1] for x in ff]))
        else:
            for (ct, cn, ca), (ft, fn, fdims) in zip(cf, ff):
                allowed = FIELD_INTEROP.get(ct)
                if allowed is None:
                    if ct.startswith("{C_capsule_data_type}"):
                        allowed = {"type({F_capsule_data_type})"}
                    else:
                        probs.append("field %s: C type %r not in the interop table" % (cn, ct))
                        continue
                if ft not in allowed:
                    probs.append("field %s/%s: C %r vs Fortran %r" % (cn, fn, ct, ft))
                if (ca is None) != (fdims is None) or (ca is not None and "(%s)" % ca != fdims.replace(" ", "")):
                    probs.append("field %s/%s: array extent C[%s] vs Fortran %s" % (cn, fn, ca, fdims))
                # name agreement up to the documented renames
                cn_ = cn.lower()
                fn_ = fn.lower()
                if cn_ != fn_ and not (cn_ == "addr" and fn_ == "base_addr"):
                    probs.append("field order/name differs: C %s vs Fortran %s" % (cn, fn))
        # modules import every kind
        mods = set()
        fm = fh.get("modules")
        if isinstance(fm, dict):
            for lst in fm.values():
                mods.update(str(x) for x in lst)
        for ft, fn, fd in ff:
            for kind in interop.KIND_RE.findall(ft):
                if kind not in mods:
                    probs.append("derived type uses %s but helper modules= does not import it" % kind)
        run.check(R, construct, not probs, "; ".join(probs), loc,
                  sample=dict(helper=name, c_fields=cf, f_fields=ff))
    run.floor(R, "struct/derived-type pairs", pairs, 2)
    # capsule struct of each class (add_shadow_helper) has the same layout as capsule_data_helper
    sh = [k for k in helpers.c if k.startswith("capsule_{")]
    base = helpers.c.get("capsule_data_helper")
    for k in sh:
        a = parse_c_struct(_src(helpers.c[k]))
        b = parse_c_struct(_src(base)) if base else None
        run.check(R, "whelpers.helper[%s]" % k, a is not None and b is not None and
                  [(x[0], x[1]) for x in a] == [(x[0], x[1]) for x in b],
                  "per-class capsule struct %s differs from capsule_data_helper %s" % (a, b),
                  repo.module("whelpers").loc(helpers.c[k].node),
                  sample=dict(per_class=a, generic=b))
    # F_capsule_type wraps F_capsule_data_type as member `mem` (passed as %mem)
    ch = helpers.f.get("capsule_helper")
    if ch is None:
        raise AnalysisError("C04.R3: FHelpers['capsule_helper'] vanished")
    txt = tables.helper_text(ch, "derived_type")
    run.check(R, "whelpers.FHelpers[capsule_helper].mem",
              re.search(r"type\(\{F_capsule_data_type\}\)\s*::\s*mem\b", txt) is not None,
              "capsule type no longer holds `type({F_capsule_data_type}) :: mem` (passed as %mem "
              "to the C capsule parameter)", repo.module("whelpers").loc(ch.node))


def _src(h):
    for k, text in tables.helper_sources(h):
        return text
    return ""


# ---------------------------------------------------------------------------
# R4: constants
# ---------------------------------------------------------------------------

def _eval_int(expr, env):
    expr = expr.strip()
    toks = re.findall(r"[A-Za-z_][A-Za-z_0-9]*|\d+|[-+*/()]", expr)
    py = []
    for t in toks:
        if re.match(r"[A-Za-z_]", t):
            if t not in env:
                raise KeyError(t)
            py.append(str(env[t]))
        else:
            py.append(t)
    node = ast.parse(" ".join(py), mode="eval")
    for n in ast.walk(node):
        if not isinstance(n, (ast.Expression, ast.BinOp, ast.UnaryOp, ast.Constant, ast.Add, ast.Sub,
                              ast.Mult, ast.USub, ast.UAdd)):
            raise ValueError("unsupported expression %r" % expr)
    return eval(compile(node, "<const>", "eval"), {"__builtins__": {}}, {})


def rule_r4(repo, run, helpers, types):
    R = run.rule("C04.R4", "SH_TYPE_* : C #define table and Fortran parameter table have the same "
                           "names and values; every sh_type of the type table is defined")
    c = helpers.c.get("ShroudTypeDefines")
    f = helpers.f.get("ShroudTypeDefines")
    if c is None or f is None:
        raise AnalysisError("C04.R4: ShroudTypeDefines helper vanished")
    loc = repo.module("whelpers").loc(c.node)
    cvals, fvals = {}, {}
    for line in templ.strip_c_comments(_src(c)).split("\n"):
        m = re.match(r"\s*#define\s+(SH_TYPE_\w+)\s+(.+?)\s*$", line)
        if m:
            try:
                cvals[m.group(1)] = _eval_int(m.group(2), cvals)
            except Exception as e:
                run.fail(R, "CHelpers[ShroudTypeDefines].%s" % m.group(1),
                         "cannot evaluate %r: %s" % (m.group(2), e), loc)
    ftext = templ.f_code(tables.helper_text(f, "derived_type"))
    ftext = ftext.replace("&\n", " ").replace("&", " ")
    for m in re.finditer(r"(SH_TYPE_\w+)\s*=\s*([^,\n]+)", ftext):
        try:
            fvals[m.group(1)] = _eval_int(m.group(2), fvals)
        except Exception as e:
            run.fail(R, "FHelpers[ShroudTypeDefines].%s" % m.group(1),
                     "cannot evaluate %r: %s" % (m.group(2), e), loc)
    run.floor(R, "SH_TYPE constants", len(cvals), 25)
    for k in sorted(set(cvals) | set(fvals)):
        run.check(R, "ShroudTypeDefines.%s" % k, cvals.get(k) == fvals.get(k) and k in cvals,
                  "C value %r vs Fortran value %r" % (cvals.get(k), fvals.get(k)), loc,
                  sample=dict(name=k, c=cvals.get(k), fortran=fvals.get(k)))
    # distinct values
    inv = {}
    for k, v in cvals.items():
        inv.setdefault(v, []).append(k)
    for v, ks in inv.items():
        run.check(R, "ShroudTypeDefines.value[%s]" % v, len(ks) == 1,
                  "type codes %s share the value %s" % (ks, v), loc)
    for name, t in types.types.items():
        st = t.get("sh_type")
        run.check(R, "typemap[%s].sh_type" % name, st in cvals and st in fvals,
                  "sh_type %r is not defined in both SH_TYPE tables" % st, types.loc(name))


# ---------------------------------------------------------------------------
# R5: helper interfaces
# ---------------------------------------------------------------------------

def _c_function_defs(helpers):
    """{name template: (params, helper key)} for function definitions in C helper sources."""
    out = {}
    for key, h in helpers.c.items():
        for k, src in tables.helper_sources(h):
            text = templ.protect(templ.c_code(src))
            for m in re.finditer(r"^\s*(?:static\s+)?[A-Za-z_][\w\s\*]*?[\s\*](\w+)\s*\(([^;{]*?)\)\s*\{",
                                 text, re.M):
                out.setdefault(templ.unprotect(m.group(1)), []).append(
                    (templ.split_args(templ.unprotect(m.group(2))), key, k))
    return out


def rule_r5(repo, run, helpers):
    R = run.rule("C04.R5", "every bind(C, name=N) interface in a Fortran helper has a C definition "
                           "with the same number of interoperable parameters")
    cdefs = _c_function_defs(helpers)
    wc = repo.module("wrapc")
    n = 0
    for key, h in sorted(helpers.f.items()):
        text = tables.helper_text(h, "interface")
        if not text:
            continue
        lines = [templ.strip_f_comment(l) for l in text.split("\n")]
        joined = []
        buf = ""
        for l in lines:
            s = l.rstrip()
            if s.endswith("&"):
                buf += s[:-1] + " "
                continue
            joined.append(buf + s)
            buf = ""
        body = "\n".join(joined)
        m = re.search(r"(subroutine|function)\s+((?:\{\w+\}|\w)+)\s*\(([^)]*)\)\s*bind\s*\(\s*c\s*,\s*name\s*=\s*\"([^\"]+)\"\s*\)",
                      body, re.I)
        construct = "whelpers.FHelpers[%s].interface" % key
        loc = repo.module("whelpers").loc(h.node)
        if not m:
            run.check(R, construct, False, "interface without bind(C, name=...)", loc)
            continue
        n += 1
        dummies = [x.strip() for x in m.group(3).split(",") if x.strip()]
        cname = m.group(4)
        decls = {}
        for l in joined:
            if "::" in l:
                fd = interop.FDecl(l.strip())
                decls[fd.name.lower()] = fd
        probs = []
        if cname == "{C_memory_dtor_function}":
            # defined by wrapc.write_capsule_code
            f = wc.func("Wrapc.write_capsule_code")
            segs = [s.value for s in ast.walk(f) if isinstance(s, ast.Constant) and isinstance(s.value, str)]
            protos = [s for s in segs if "{C_memory_dtor_function}" in s and "(" in s]
            ok = any("{C_capsule_data_type} *" in s for s in protos)
            if not ok:
                probs.append("no C definition `void {C_memory_dtor_function}({C_capsule_data_type} *...)` "
                             "found in wrapc.write_capsule_code")
            if len(dummies) != 1:
                probs.append("dtor takes one argument, interface has %d" % len(dummies))
            else:
                fd = decls.get(dummies[0].lower())
                if fd is None or fd.type.replace(" ", "") != "type({F_capsule_data_type})" or fd.value:
                    probs.append("dummy %s must be type({F_capsule_data_type}) by reference" % dummies[0])
        else:
            cands = cdefs.get(cname)
            if not cands:
                probs.append("no C helper defines %s" % cname)
            else:
                params = cands[0][0]
                if len(params) != len(dummies):
                    probs.append("C %s has %d parameters, Fortran interface has %d"
                                 % (cname, len(params), len(dummies)))
                else:
                    for p, d in zip(params, dummies):
                        cp = interop.CParam(p)
                        fd = decls.get(d.lower())
                        if fd is None:
                            probs.append("dummy %s not declared" % d)
                            continue
                        pr = interop.interop_problems(cp, fd)
                        if cp.base == "{C_array_type}" and fd.type.replace(" ", "") != "type({F_array_type})":
                            pr.append("C %s vs Fortran %s" % (cp.base, fd.type))
                        if cp.base == "void" and cp.depth == 1 and fd.value:
                            pr.append("void * buffer passed by value")
                        probs.extend("%s: %s" % (d, x) for x in pr)
        # every kind used is imported by the interface body
        used = set(interop.KIND_RE.findall("\n".join(l for l in joined if "::" in l)))
        imported = set()
        for l in joined:
            if re.match(r"\s*use\b", l, re.I):
                imported.update(interop.KIND_RE.findall(l))
                imported.update(re.findall(r"\{f_kind\}", l))
        for kind in used:
            if kind not in imported:
                probs.append("interface body uses %s without importing it" % kind)
        run.check(R, construct, not probs, "; ".join(probs), loc,
                  sample=dict(helper=key, binds=cname, dummies=dummies))
    run.floor(R, "helper interfaces", n, 3)


# ---------------------------------------------------------------------------
# R6: scalar kinds in the type table
# ---------------------------------------------------------------------------

def rule_r6(repo, run, types):
    R = run.rule("C04.R6", "type table: c_type <-> f_kind / f_type / f_c_type / f_cast / f_module agree "
                           "with ISO_C_BINDING")
    n = 0
    for name, t in sorted(types.types.items()):
        ct = t.get("c_type")
        if t.get("sgroup") not in ("native", "bool", "char") and name not in ("MPI_Comm",):
            continue
        want = interop.C_TO_KIND.get(str(ct))
        construct = "typemap[%s]" % name
        loc = types.loc(name)
        if want is None:
            run.check(R, construct, False, "c_type %r has no ISO_C_BINDING kind in the checker table" % ct, loc)
            continue
        n += 1
        probs = []
        fk = t.get("f_kind")
        if fk != want:
            probs.append("c_type %s needs f_kind %s, table has %s" % (ct, want, fk))
        ftype = (t.get("f_c_type") or t.get("f_type") or "")
        fcls = interop.KIND_TO_FTYPE[want]
        ftn = str(ftype).replace(" ", "").lower()
        if not ftn.startswith(fcls):
            probs.append("interface type %r is not %s" % (ftype, fcls))
        kinds = interop.KIND_RE.findall(str(ftype))
        if name != "MPI_Comm" and kinds != [want] and not (fcls == "character" and not kinds and t.get("f_c_type") is None):
            probs.append("interface type %r does not carry kind %s" % (ftype, want))
        if name == "MPI_Comm" and kinds != [want]:
            probs.append("interface type %r does not carry kind %s" % (ftype, want))
        ft = str(t.get("f_type") or "")
        k2 = interop.KIND_RE.findall(ft)
        if k2 and k2 != [want]:
            probs.append("f_type %r carries kind %s, expected %s" % (ft, k2, want))
        cast = str(t.get("f_cast") or "")
        kc = [k.upper() for k in re.findall(r"\b[Cc]_[A-Za-z0-9_]+\b", cast)]
        if kc and kc != [want]:
            probs.append("f_cast %r names kind %s, expected %s" % (cast, kc, want))
        if kc:
            intrinsic = cast.split("(")[0].strip().lower()
            wantfn = {"integer": "int", "real": "real", "complex": "cmplx", "logical": "logical"}.get(fcls)
            if wantfn and intrinsic != wantfn:
                probs.append("f_cast %r uses %s(), expected %s()" % (cast, intrinsic, wantfn))
        mods = set()
        for fld in ("f_module", "f_c_module"):
            fm = t.get(fld)
            if isinstance(fm, dict):
                for lst in fm.values():
                    mods.update(str(x) for x in lst)
        for kind in set(kinds) | set(k2) | set(kc):
            if kind not in mods:
                probs.append("kind %s is used but neither f_module nor f_c_module imports it" % kind)
        run.check(R, construct, not probs, "; ".join(probs), loc,
                  sample=dict(type=name, c_type=ct, f_kind=fk, f_type=ft, f_cast=cast))
    run.floor(R, "scalar typemaps", n, 20)


# ---------------------------------------------------------------------------
# R7: interface <-> prototype over all entries (thorough)
# ---------------------------------------------------------------------------

def rule_r7(repo, run, table):
    R = run.rule("C04.R7", "every buf_args / buf_extra key of every c_* entry is a key the three "
                           "sibling emitters handle")
    wc = repo.module("wrapc")
    loop = pyflow.find_loop_over(wc.func("Wrapc.build_proto_list"), "buf_arg")[0]
    keys = set(pyflow.keys_compared(loop.body, "buf_arg"))
    n = 0
    for lang in ("c", "c++"):
        for name, e in table.resolve_all(lang).items():
            if not name.startswith("c_"):
                continue
            for fld in ("buf_args", "buf_extra"):
                v = e.get(fld) or []
                for k in v:
                    n += 1
                    run.check(R, "statements.fc_statements[%s].%s" % (name, fld), k in keys,
                              "%s key %r is not handled by build_proto_list (raises at run time)" % (fld, k),
                              table.loc(e.raw))
    run.floor(R, "buf_args keys", n, 60)


def rule_r8(repo, run, table, types):
    R = run.rule("C04.R8", "the bind(C) function result is type(C_PTR) for every result the Fortran wrapper receives "
                           "as a C pointer (over the lookup closure of result statements)")
    from checks import c01
    from sa import decide
    wf = repo.module("wrapf")
    f = wf.func("Wrapf.wrap_function_interface")
    chains = [n for n in ast.walk(f) if isinstance(n, ast.If) and "return_deref_attr" in wf.seg(n.test)
              and "f_result_decl" not in wf.seg(n.test)]
    # the chain starts at `if c_result_blk.f_result_decl:`
    top = [n for n in ast.walk(f) if isinstance(n, ast.If) and wf.seg(n.test).endswith(".f_result_decl")]
    if len(top) != 1 or not chains:
        raise AnalysisError("C04.R8: result-declaration chain of wrap_function_interface not found")
    top = top[0]
    blk = wf.seg(top.test).split(".")[0]
    pairs, _ = c01.lookup_pairs(table)
    n = 0
    for (fname, cname), (fe, ce, fpath, cpath) in sorted(pairs.items(), key=lambda kv: (kv[0][0], kv[0][1] or "")):
        if fpath[3] != "result":
            continue
        deref = fpath[5]
        decl = "\n".join(fe.lines("declare"))
        call = "\n".join(fe.lines("call"))
        argd = "\n".join(fe.lines("arg_decl"))
        m = re.search(r"(\{\w+\})\s*=\s*\{F_C_call\}", call)
        expects = False
        if m:
            var = re.escape(m.group(1))
            expects = re.search(r"type\(C_PTR\)[^\n]*::\s*" + var, decl) is not None
        elif not call and re.search(r"type\(C_PTR\)\s*::\s*\{f_var\}", argd):
            expects = True
        if not expects:
            continue
        sg = fpath[1]
        if deref is None and sg != "void":
            # generate.check_return_pointer gives every indirect POD/struct result a deref value
            # (explicit, `pointer` with a dimension, else options.return_scalar_pointer)
            continue
        n += 1

        def oracle(e, ce=ce, deref=deref):
            t = wf.seg(e)
            if t.startswith(blk + "."):
                return bool(ce.get(t.split(".", 1)[1])) if ce else False
            if isinstance(e, ast.Compare) and isinstance(e.ops[0], ast.In) and pyflow.is_name(e.left, "return_deref_attr") \
                    and isinstance(e.comparators[0], (ast.List, ast.Tuple)):
                return deref in [pyflow.const_str(x) for x in e.comparators[0].elts]
            return None
        taken = decide.take([top], oracle)
        construct = "statements.fc_statements[%s<->%s]:result" % (fname, cname or "c_default")
        if taken is None:
            run.unmodelled_site(R, construct, "result-declaration chain not decidable for this pair")
            continue
        text = " ".join(s_ for st in taken for s_ in pattern.strings(st))
        if ce and ce.get("f_result_decl"):
            text += " " + " ".join(str(x) for x in ce.get("f_result_decl"))
        if any("bind_c" in wf.seg(st) for st in taken) and sg == "void":
            vt = types.types.get("void", {})
            text += " %s %s" % (vt.get("f_c_type") or "", vt.get("f_type") or "")
        run.check(R, construct, "C_PTR" in text,
                  "the Fortran wrapper stores the C function value in a type(C_PTR) (deref %s) but the interface declares "
                  "the result through %s: the C function returns a pointer, Fortran reads a scalar"
                  % (deref, [wf.seg(st)[:50] for st in taken][:1]), wf.loc(top),
                  sample=dict(f_entry=fname, c_entry=cname, deref=deref))
    run.floor(R, "pointer-result pairs", n, 4)


def rule_r9(repo, run):
    R = run.rule("C04.R9", "when the C return type differs from the library function's (dereferenced pointer result), a "
                           "C wrapper is generated, so the interface never binds the changed type to the user's function")
    wc = repo.module("wrapc")
    f = wc.func("Wrapc.wrap_function")
    n = 0
    for asg in ast.walk(f):
        if not (isinstance(asg, ast.Assign) and (pyflow.dotted(asg.targets[0]) or "").endswith(".C_return_type")):
            continue
        call = asg.value
        if not (isinstance(call, ast.Call) and (pyflow.call_name(call) or "").endswith("gen_arg_as_c")):
            continue
        kw = [k for k in call.keywords if k.arg == "as_scalar"]
        if not kw or (isinstance(kw[0].value, ast.Constant) and kw[0].value.value is False):
            continue
        n += 1
        blk = None
        par = asg._parent
        for fld in ("body", "orelse"):
            l = getattr(par, fld, None)
            if isinstance(l, list) and any(x is asg for x in l):
                blk = l
        forced = any(pattern.has(st, "need_wrapper = True") for st in (blk or []))
        cond_const = isinstance(kw[0].value, ast.Constant)
        run.check(R, "wrapc.Wrapc.wrap_function:C_return_type[as_scalar]", forced and cond_const,
                  "the result is rendered as a scalar (`as_scalar=%s`) %s: without a C wrapper the Fortran interface, "
                  "which declares the scalar type, is bound directly to the pointer-returning library function"
                  % (wc.seg(kw[0].value), "but need_wrapper is not forced in this branch" if not forced else
                     "under a run-time condition that does not force need_wrapper"), wc.loc(asg))
    run.floor(R, "scalar renderings of a pointer result", n, 1)


def _role_lists(mod, fn, var):
    """{'result': List node, 'arg': List node} assigned to `var` under / not under an is_result test"""
    out = {}
    for a in ast.walk(fn):
        if isinstance(a, ast.Assign) and pyflow.is_name(a.targets[0], var):
            v = a.value
            if isinstance(v, ast.BinOp) and isinstance(v.left, ast.List):
                v = v.left
            if not (isinstance(v, ast.List) and len(v.elts) >= 4 and pyflow.const_str(v.elts[0]) == "c"):
                continue
            conds = [(mod.seg(t), pol) for t, pol in pyflow.dominating_tests(a, stop=fn)]
            isres = [pol for t, pol in conds if "is_result" in t]
            if isres:
                out.setdefault("result" if isres[-1] else "arg", v)
    return out


def _eval_path(mod, lst, env):
    path = []
    for e in lst.elts:
        c = pyflow.const_str(e)
        if c is not None:
            path.append(c)
            continue
        t = str(mod.seg(e))
        for key in ("sgroup", "spointer", "generated_suffix", "stmts_suffix", "intent", "deref", "cdesc"):
            if key in t:
                path.append(env[key])
                break
        else:
            raise AnalysisError("C04.R10: cannot interpret lookup path element %s" % t)
    return path


def rule_r10(repo, run, table):
    R = run.rule("C04.R10", "the C emitter and the Fortran interface/wrapper look an argument or result up under the same "
                            "statement path (over the lookup closure), so both sides describe the same parameter list")
    from checks import c01
    wc, wf = repo.module("wrapc"), repo.module("wrapf")
    sites = {
        "wrapc.wrap_function": _role_lists(wc, wc.func("Wrapc.wrap_function"), "stmts"),
        "wrapf.wrap_function_interface": _role_lists(wf, wf.func("Wrapf.wrap_function_interface"), "c_stmts"),
        "wrapf.wrap_function_impl": _role_lists(wf, wf.func("Wrapf.wrap_function_impl"), "c_stmts"),
    }
    mods = {"wrapc.wrap_function": wc, "wrapf.wrap_function_interface": wf, "wrapf.wrap_function_impl": wf}
    for k, v in sites.items():
        if "result" not in v or "arg" not in v:
            raise AnalysisError("C04.R10: lookup path lists of %s not found (%s)" % (k, sorted(v)))
    res = table.resolve_all("c++")
    groups = sorted(set(n_.split("_")[1] for n_ in res if n_.count("_") >= 2))
    n = 0
    for role in ("result", "arg"):
        bad = {}
        for sg in groups:
            for sp in c01.SPOINTERS:
                for intent in (("result",) if role == "result" else ("in", "out", "inout")):
                    for gsuf in c01.SUFFIXES.get(sg, ("", "buf")):
                        for deref in c01.DEREFS:
                            for cdesc in ((None,) if role == "result" else (None, "cdesc")):
                                # the result-as-argument keeps the function's suffix; its own stmts_suffix is empty
                                env = dict(sgroup=sg, spointer=sp, intent=intent, generated_suffix=gsuf,
                                           stmts_suffix=("" if role == "result" else gsuf), deref=deref, cdesc=cdesc)
                                got = {}
                                for k in sites:
                                    e = table.lookup(_eval_path(mods[k], sites[k][role], env), "c++")
                                    got[k] = e.name if e else None
                                n += 1
                                if len(set(got.values())) > 1:
                                    bad.setdefault(tuple(sorted(got.items())), env)
        for combo, env in sorted(bad.items(), key=str)[:5]:
            run.fail(R, "fc_statements:%s-lookup[%s]" % (role, ",".join("%s=%s" % kv for kv in combo)),
                     "for %s the emitters resolve different entries %s: the C prototype and the bind(C) interface are "
                     "built from different buf_args (missing context/len arguments on one side)"
                     % ({k: v for k, v in env.items() if v}, dict(combo)), "shroud/wrapf.py")
        if not bad:
            run.ok(R, "fc_statements:%s-lookup" % role, sample=dict(role=role, paths={k: str(mods[k].seg(sites[k][role])) for k in sites}))
    run.rules[R]["obligations"] += n
    run.rules[R]["discharged"] += n
    run.floor(R, "lookup tuples compared", n, 500)


def rule_r11(repo, run):
    R = run.rule("C04.R11", "shared with sibling checks: Fortran enumerator parameters are computed as twins of the C "
                            "enumerators (C11.R1, C11.R2); the C prototype lists its parameters in the order the interface "
                            "declares them (C02.R2)")
    from checks import c11, c02
    from sa.report import import_rules
    import_rules(run, R, c11, repo, {"C11.R1", "C11.R2"})
    import_rules(run, R, c02, repo, {"C02.R2"})
    # every C helper a bind(C) interface names is written to the C utility file (C05.R14)
    from checks import c05
    import_rules(run, R, c05, repo, {"C05.R14"}, only=lambda c: c.endswith(":shared-helpers-per-module"))
    # ... and a C function that an interface binds to is written: the C flag of a container follows its members' (C15.R6)
    from checks import c15
    import_rules(run, R, c15, repo, {"C15.R6"}, only=lambda c: c.startswith("ast.WrapFlags"))
    # the abstract interface a procedure dummy argument names is the one of *its* function pointer (C08.R8)
    from checks import c08
    import_rules(run, R, c08, repo, {"C08.R8"})


def rule_r12(repo, run):
    R = run.rule("C04.R12", "bind(C) derived types mirror the C struct member by member: a pointer member is type(C_PTR), a "
                            "fixed-size array member keeps its element type and extent, in declaration order")
    from sa import decide
    wf = repo.module("wrapf")
    dm = repo.module("declast")
    fn = wf.func("Wrapf.wrap_struct")
    loops = [l for l in ast.walk(fn) if isinstance(l, ast.For) and wf.seg(l.iter) == "node.variables"]
    run.check(R, "wrapf.Wrapf.wrap_struct:member-order", len(loops) == 1,
              "the derived type must list the members of node.variables in declaration order", wf.loc(fn))
    if not loops:
        return
    sem = decide.pointer_predicates(dm)
    chain = [st for st in loops[0].body if isinstance(st, ast.If)]
    for desc, op, arr, want_ptr in (("scalar member", None, False, False), ("pointer member", "*", False, True),
                                    ("fixed-size array member", None, True, False)):
        def oracle(e, op=op, arr=arr):
            if isinstance(e, ast.Call) and isinstance(e.func, ast.Attribute):
                m_ = e.func.attr
                if m_ in sem:
                    return op in sem[m_]
                if m_ == "is_array":
                    return arr or op is not None
            return None
        taken = decide.take(chain, oracle)
        if taken is None:
            run.unmodelled_site(R, "wrapf.Wrapf.wrap_struct[%s]" % desc, "member chain not decidable")
            continue
        text = " ".join(x for st in taken for x in pattern.strings(st))
        got_ptr = "type(C_PTR)" in text
        run.check(R, "wrapf.Wrapf.wrap_struct[%s]" % desc, got_ptr == want_ptr,
                  "a %s is declared %s in the bind(C) derived type: size and offsets of the Fortran type differ from the C "
                  "struct" % (desc, "as a single type(C_PTR)" if got_ptr else "with its value type instead of type(C_PTR)"),
                  wf.loc(loops[0]), sample=dict(member=desc, c_ptr=got_ptr))
    # the C copy of a C++ struct is the sibling of the derived type: each member is rendered from its declaration
    # (type, pointer stars, array extents), not from its type name and member name alone
    wc_ = repo.module("wrapc")
    ws_ = wc_.func("Wrapc.wrap_struct")
    ml = [l for l in ast.walk(ws_) if isinstance(l, ast.For) and str(wc_.seg(l.iter)).endswith(".variables")]
    if len(ml) != 1:
        raise AnalysisError("C04.R12: member loop of Wrapc.wrap_struct not found")
    rend_c = [c for c in ast.walk(ml[0]) if isinstance(c, ast.Call) and isinstance(c.func, ast.Attribute) and c.func.attr == "gen_arg_as_c"]
    run.check(R, "wrapc.Wrapc.wrap_struct:member-declarator", bool(rend_c),
              "the members of the C struct are not rendered with the declaration's gen_arg_as_c(): written from type and name "
              "fields (`{c_type} {variable_name};`) a member `double pos[3]` or `int *hits` becomes `double pos` / `int hits` and "
              "the C struct is smaller than the bind(C) derived type", wc_.loc(ml[0]))
    # value members are components of a bind(C) type, not dummy arguments: they are rendered with the interoperable type
    # (f_c_type: logical(C_BOOL), not the wrapper-side `logical`) and without dummy-argument forms (character(len=*))
    rend = [c for c in ast.walk(loops[0]) if isinstance(c, ast.Call) and isinstance(c.func, ast.Attribute)
            and c.func.attr == "gen_arg_as_fortran"]
    if not rend:
        raise AnalysisError("C04.R12: rendering of value members (gen_arg_as_fortran) not found in wrap_struct")
    for c in rend:
        kw = dict((k.arg, k.value) for k in c.keywords)
        ok_kw = all(isinstance(kw.get(k_), ast.Constant) and kw[k_].value is True for k_ in ("bindc", "local"))
        run.check(R, "wrapf.Wrapf.wrap_struct:member-kinds", ok_kw,
                  "members are rendered with `%s`: without bindc=True a `bool` member is default `logical` (4 bytes against C's "
                  "1-byte bool), without local=True a `char` member is `character(len=*)`, which is not allowed in a derived "
                  "type" % " ".join(str(wf.seg(c)).split()), wf.loc(c))
    # assumed-rank dummies of the interface are declared (..) whatever rank/dimension attributes say
    sf = wf.func("Wrapf.set_fmt_fields")
    ar = [a for a in ast.walk(sf) if isinstance(a, ast.Assign) and isinstance(a.targets[0], ast.Attribute)
          and a.targets[0].attr == "f_c_dimension" and pyflow.const_str(a.value) == "(..)"]
    ok = len(ar) == 1
    if ok:
        conds = [(str(wf.seg(t)), pol) for t, pol in pyflow.dominating_tests(ar[0], stop=sf)]
        ok = len(conds) == 1 and "assumed-rank" in conds[0][0] and conds[0][1]
    run.check(R, "wrapf.Wrapf.set_fmt_fields:assumed-rank", ok,
              "`f_c_dimension = '(..)'` must depend on the assumed-rank mark alone; placed behind the rank/dimension tests it is "
              "unreachable under F_CFI (dimension is '..' there) and the interface declares a scalar where C expects a "
              "descriptor", wf.loc(sf))


def rule_r13(repo, run):
    R = run.rule("C04.R13", "VALUE: a parameter the C wrapper takes by value is a VALUE dummy - the renderer emits VALUE exactly "
                            "when the value attribute is set, and declarations generated after attribute defaulting set it "
                            "themselves")
    dm = repo.module("declast")
    bc = dm.func("Declaration.bind_c")
    apps = [c for c in ast.walk(bc) if isinstance(c, ast.Call) and isinstance(c.func, ast.Attribute) and c.func.attr == "append"
            and c.args and pyflow.const_str(c.args[0]) == "value"]
    if len(apps) != 1:
        raise AnalysisError("C04.R13: `t.append(\"value\")` of Declaration.bind_c not found")
    atoms = pyflow.path_atoms(apps[0], stop=bc, seg=dm.seg)
    run.check(R, "declast.Declaration.bind_c:value", atoms == {("attrs['value']", True)},
              "VALUE is emitted under %s: it must follow the value attribute alone (C takes `void *p`, `T x` and a "
              "+value pointer by value; a further condition makes Fortran pass the address of the pointer)" % sorted(atoms),
              dm.loc(apps[0]))
    # declarations added by GenFunctions are created after VerifyAttrs defaulted `value`: by-value parameters say so
    gm = repo.module("generate")
    n = 0
    for q, fn in sorted(gm.functions().items()):
        if not q.startswith("GenFunctions."):
            continue
        for c in ast.walk(fn):
            if not (isinstance(c, ast.Call) and isinstance(c.func, ast.Attribute) and c.func.attr == "add_function"):
                continue
            kw = dict((k.arg, k.value) for k in c.keywords if k.arg)
            if not c.args:
                continue
            # the declaration text: parameters written by gen_arg_as_c(name="<param>")
            names = set()
            for a in ast.walk(fn):
                if isinstance(a, ast.Call) and isinstance(a.func, ast.Attribute) and a.func.attr == "gen_arg_as_c":
                    for k in a.keywords:
                        if k.arg == "name" and pyflow.const_str(k.value):
                            names.add(pyflow.const_str(k.value))
            decl = c.args[0]
            dtext = None
            if isinstance(decl, ast.Name):
                for a in ast.walk(fn):
                    if isinstance(a, ast.Assign) and pyflow.is_name(a.targets[0], decl.id) and a.lineno < c.lineno:
                        dtext = a
            if dtext is None:
                continue
            fmtcall = dtext.value
            if not (isinstance(fmtcall, ast.Call) and isinstance(fmtcall.func, ast.Attribute) and fmtcall.func.attr == "format"
                    and isinstance(fmtcall.func.value, ast.Constant)):
                continue
            template = fmtcall.func.value.value
            mparams = re.search(r"\((.*)\)", template)
            if not mparams or "{}" not in mparams.group(1):
                continue          # no generated parameter
            n += 1
            av = kw.get("attrs")
            if isinstance(av, ast.Name):
                avname = av.id
                for a in ast.walk(fn):
                    if isinstance(a, ast.Assign) and pyflow.is_name(a.targets[0], avname) and a.lineno < c.lineno:
                        av = a.value
            text = str(gm.seg(av)) if av is not None else ""
            # by value exactly when the declaration the parameter is rendered from is not a pointer / reference:
            # `value=True` is right for a declaration known to be a value, `value=not <decl>.is_indirect()` in general
            mv = re.search(r"(?:value\s*=|'value':)\s*(not \w+(?:\.\w+)*\.is_indirect\(\)|True|False|None|[\w.]+)", text)
            val = mv.group(1).strip() if mv else None
            srcs = set()
            for a in ast.walk(fn):
                if isinstance(a, ast.Call) and isinstance(a.func, ast.Attribute) and a.func.attr == "gen_arg_as_c":
                    srcs.add(str(gm.seg(a.func.value)))
            cond = any(val == "not %s.is_indirect()" % src for src in srcs) if val else False
            ok = av is not None and (cond or val == "True" and not srcs)
            run.check(R, "generate.%s:add_function(%s):value" % (q, re.sub(r"\s+", "", template)[:30]), ok,
                      "the generated function takes its argument by value (declaration `%s` from gen_arg_as_c) but its attrs %s "
                      "do not set `value` to whether the member is a value (`not <decl>.is_indirect()`): VerifyAttrs has already "
                      "run, so a value member is passed by reference, or a pointer member (`int *tags`) as `integer, value` "
                      "where C takes `int *`" % (template, text[:60] or "are missing"), gm.loc(c))
    run.floor(R, "generated functions with a by-value parameter", n, 1)


def rule_r14(repo, run):
    R = run.rule("C04.R14", "the abstract interface of a callback argument is built from the callback's own declaration: its "
                            "dummy arguments from the callback's parameters, its result from the callback's result type, and "
                            "every kind it uses is imported")
    wf = repo.module("wrapf")
    f = wf.func("Wrapf.dump_abstract_interfaces")
    loops = [l for l in ast.walk(f) if isinstance(l, ast.For) and "f_abstract_interface" in wf.seg(l.iter)]
    if len(loops) != 1:
        raise AnalysisError("C04.R14: loop over fileinfo.f_abstract_interface not found")
    lp = loops[0]
    unpack = [a for a in lp.body if isinstance(a, ast.Assign) and isinstance(a.targets[0], ast.Tuple)
              and "f_abstract_interface" in wf.seg(a.value)]
    if not unpack:
        raise AnalysisError("C04.R14: `node, fmt, arg = fileinfo.f_abstract_interface[key]` not found")
    names = [e.id for e in unpack[0].targets[0].elts if isinstance(e, ast.Name)]
    if len(names) != 3:
        raise AnalysisError("C04.R14: unexpected shape of the f_abstract_interface entry")
    fn_node, _, cb = names          # the function that has the callback, its format, the callback argument
    # names bound to the enclosing function's declaration
    outer = {fn_node}
    for a in ast.walk(lp):
        if isinstance(a, ast.Assign) and isinstance(a.targets[0], ast.Name) and isinstance(a.value, ast.Attribute) \
                and pyflow.is_name(a.value.value, fn_node) and a.value.attr == "ast":
            outer.add(a.targets[0].id)
    apps = [c for c in ast.walk(lp) if isinstance(c, ast.Call) and isinstance(c.func, ast.Attribute) and c.func.attr == "append"
            and pyflow.is_name(c.func.value, "arg_c_decl")]
    if len(apps) < 2:
        raise AnalysisError("C04.R14: declarations of the abstract interface (arg_c_decl.append) not found")
    n = 0
    for c in apps:
        n += 1
        exprs = [c.args[0]]
        used = set(x.id for x in ast.walk(c.args[0]) if isinstance(x, ast.Name))
        # one level of local aliases (rtypemap = arg.typemap)
        for a in ast.walk(lp):
            if isinstance(a, ast.Assign) and isinstance(a.targets[0], ast.Name) and a.targets[0].id in used:
                exprs.append(a.value)
        # what carries a *type*: <decl>.bind_c(...), <decl>.typemap, <decl>.gen_arg_as_*()
        bad = sorted(set(x.value.id for e in exprs for x in ast.walk(e) if isinstance(x, ast.Attribute)
                         and isinstance(x.value, ast.Name) and x.value.id in outer
                         and (x.attr in ("bind_c", "typemap", "params") or x.attr.startswith("gen_arg"))))
        run.check(R, "wrapf.Wrapf.dump_abstract_interfaces:decl[%s]" % " ".join(str(wf.seg(c.args[0])).split())[:40], not bad,
                  "a declaration of the callback's interface is computed from %s, the function that *takes* the callback: the "
                  "callback `double (*get)(int)` of `void f(...)` is declared with f's result type (type(C_PTR) for void)"
                  % bad, wf.loc(c))
        in_function_arm = any("subprogram == 'function'" in str(wf.seg(t)) and pol for t, pol in pyflow.dominating_tests(c, stop=lp))
        if in_function_arm:
            blk = c
            while getattr(blk, "_parent", None) is not None and not isinstance(blk._parent, ast.If):
                blk = blk._parent
            sib = blk._parent.body if blk._parent is not None and any(x is blk for x in blk._parent.body) else blk._parent.orelse
            imports = [x for st in sib for x in ast.walk(st) if isinstance(x, ast.Call) and (pyflow.call_name(x) or "").endswith("update_f_module")]
            run.check(R, "wrapf.Wrapf.dump_abstract_interfaces:result-import[%s]" % " ".join(str(wf.seg(c.args[0])).split())[:30],
                      bool(imports),
                      "the result of the callback is declared but the kind it uses is not added to the interface's `use "
                      "iso_c_binding, only :` list (the parameters' kinds are)", wf.loc(c))
    run.floor(R, "declarations of callback interfaces", n, 2)


def rule_r15(repo, run):
    R = run.rule("C04.R15", "when Fortran binds to the C function directly (no C wrapper is written) the binding label is the name "
                            "written in the declaration, not the `name` attribute that renames the wrapper")
    wc, dm = repo.module("wrapc"), repo.module("declast")
    # is Declaration.name attribute-aware?
    gn = dm.func("Declaration.get_name")
    defaults = dict(zip([a.arg for a in gn.args.args][-len(gn.args.defaults):], gn.args.defaults)) if gn.args.defaults else {}
    aware = isinstance(defaults.get("use_attr"), ast.Constant) and defaults["use_attr"].value is True and \
        any(isinstance(x, ast.Subscript) and pyflow.const_str(x.slice) == "name" and "attrs" in ast.unparse(x.value) for x in ast.walk(gn))
    prop = any(isinstance(a, ast.Assign) and pyflow.is_name(a.targets[0], "name") and isinstance(a.value, ast.Call)
               and pyflow.is_name(a.value.func, "property") and a.value.args and pyflow.is_name(a.value.args[0], "get_name")
               for a in dm.cls("Declaration").body)
    wfn = wc.func("Wrapc.wrap_function")
    sets = [a for a in ast.walk(wfn) if isinstance(a, ast.Assign) and isinstance(a.targets[0], ast.Attribute)
            and a.targets[0].attr == "C_name" and "ast" in ast.unparse(a.value)]
    if not sets:
        raise AnalysisError("C04.R15: the direct binding (`fmt_func.C_name = <declared name>`) of Wrapc.wrap_function was not found")
    for a in sets:
        v = a.value
        uses_property = isinstance(v, ast.Attribute) and v.attr == "name" and not (isinstance(v.value, ast.Attribute) and v.value.attr == "declarator")
        uses_getter_default = isinstance(v, ast.Call) and isinstance(v.func, ast.Attribute) and v.func.attr == "get_name" and \
            not any((k.arg == "use_attr" and isinstance(k.value, ast.Constant) and k.value.value is False) for k in v.keywords) and \
            not (v.args and isinstance(v.args[0], ast.Constant) and v.args[0].value is False)
        bad = aware and ((uses_property and prop) or uses_getter_default)
        run.check(R, "wrapc.Wrapc.wrap_function:C_name<-%s" % ast.unparse(v)[:40], not bad,
                  "the label of the direct binding is `%s`, which returns the +name attribute when there is one: "
                  "`void foo(int a) +name(bar)` in a C library is bound with bind(C, name=\"bar\") and does not link"
                  % ast.unparse(v), wc.loc(a))


def rule_r16(repo, run):
    R = run.rule("C04.R16", "the predicates of a declaration that count levels of indirection agree with what they are documented to "
                            "count: is_pointer `*`, is_reference `&`, is_indirect and is_array both - the bind(C) interface "
                            "chooses between `type(C_PTR)` and a typed dummy argument by these counts, the C prototype is "
                            "written from the same declarator")
    dm = repo.module("declast")
    n = 0
    for name in ("is_pointer", "is_reference", "is_indirect", "is_array"):
        fn = dm.func("Declaration.%s" % name)
        doc = (ast.get_docstring(fn) or "").lower()
        wants = set()
        if "pointer" in doc:
            wants.add("*")
        if "reference" in doc:
            wants.add("&")
        counted = set()
        for lp in ast.walk(fn):
            if not (isinstance(lp, ast.For) and "pointer" in ast.unparse(lp.iter)):
                continue
            for i_ in ast.walk(lp):
                if isinstance(i_, ast.If):
                    t = i_.test
                    if isinstance(t, ast.Compare) and isinstance(t.ops[0], ast.Eq) and pyflow.const_str(t.comparators[0]):
                        counted.add(pyflow.const_str(t.comparators[0]))
                    elif isinstance(t, ast.Compare) and isinstance(t.ops[0], ast.In):
                        counted |= set(pyflow.const_str(e) for e in getattr(t.comparators[0], "elts", []) if pyflow.const_str(e))
                    elif isinstance(t, ast.Attribute) and t.attr == "ptr":
                        counted |= {"*", "&"}
        if not wants or not counted:
            raise AnalysisError("C04.R16: Declaration.%s: documentation / counting loop not recognised" % name)
        n += 1
        run.check(R, "declast.Declaration.%s:counts" % name, counted == wants,
                  "%s is documented to count %s and counts %s: `T *&p` is then declared with one level of indirection less in the "
                  "bind(C) interface (a typed dummy argument) than the C wrapper's `T **p` has" % (name, sorted(wants), sorted(counted)),
                  dm.loc(fn))
    run.floor(R, "indirection predicates", n, 4)


def run(repo, run, tier):
    tables.check_model_assumptions(repo)
    table = tables.StatementTable(repo, "statements", "fc_statements")
    helpers = tables.build_helper_table(repo)
    types = tables.TypeTable(repo)
    rule_r1(repo, run)
    rule_r2(repo, run, table)
    rule_r3(repo, run, helpers)
    rule_r4(repo, run, helpers, types)
    rule_r5(repo, run, helpers)
    rule_r6(repo, run, types)
    rule_r7(repo, run, table)
    rule_r8(repo, run, table, types)
    rule_r9(repo, run)
    rule_r10(repo, run, table)
    rule_r11(repo, run)
    rule_r12(repo, run)
    rule_r13(repo, run)
    rule_r14(repo, run)
    rule_r15(repo, run)
    rule_r16(repo, run)
    run.assumptions.extend([
        "LP64 / ISO_C_BINDING interoperability table in sa/interop.py",
        "table semantics model (base/mixin/language selection) mirrors statements.update_stmt_tree; "
        "its assumptions are re-checked against the AST on every run",
    ])
