"""Typed uses of raw YAML values.

The input file is read by a YAML loader: the value of any key can be None (a blank value), a scalar of any type, a list or
a mapping.  The node constructors of shroud/ast.py (and the command line driver) read those values out of a dictionary
(`kwargs`, `dct`, `node`, `allinput`, ...) and use them as a string, a list or a mapping.  This module computes, from the
source alone,

  paths       which expressions of a function hold a value of the input file, named by the key path that leads to it
              (`attrs`, `cxx_template[]`, `cxx_template[].format`, `typemap[].fields`)
  typed uses  (path, required type, site, how)       where such a value is used in a way only one type supports
  validators  (path, type)                           isinstance tests on such a value that end in `raise`

A typed use without a validator of a matching type reaches the Python operation with whatever the user wrote: the failure
is an AttributeError / TypeError from inside the generator, not a diagnostic.
"""
import ast

from . import pyflow
from .loader import parent_chain

# names of local variables that hold a dictionary read from the YAML file (confirmed by reading ast.py and main.py:
# add_declarations(parent, node), create_library_from_dictionary(node), clean_dictionary(ddct), the **kwargs of the
# add_* / __init__ methods, main_with_args: allinput)
YAML_DICTS = ("kwargs", "dct", "ddct", "node", "subnode", "allinput")
# a list of declarations holds dictionaries of the same shape as the one it is in
RECURSIVE = ("declarations",)

STR_METHODS = {"split", "lower", "upper", "strip", "startswith", "endswith", "replace", "splitlines", "join",
               "rstrip", "lstrip", "find", "title", "capitalize"}
DICT_METHODS = {"items", "keys", "values", "update", "setdefault", "get"}
LIST_METHODS = {"append", "extend", "insert", "sort", "reverse"}


def _is_load(x):
    return not isinstance(getattr(x, "ctx", None), (ast.Store, ast.Del))


def _inside(node, outer):
    return any(p is outer for p in parent_chain(node))


def _is_text(e):
    if isinstance(e, ast.Constant) and isinstance(e.value, str):
        return True
    if isinstance(e, ast.JoinedStr):
        return True
    if isinstance(e, ast.BinOp) and isinstance(e.op, ast.Add):
        return _is_text(e.left) or _is_text(e.right)
    if isinstance(e, ast.BinOp) and isinstance(e.op, ast.Mod):
        return _is_text(e.left)
    return False


def typed_use(x):
    """(required type, how) when expression node x is used by its parent in a way that only one type supports"""
    p = getattr(x, "_parent", None)
    if p is None:
        return None
    if isinstance(p, ast.Attribute) and p.value is x and isinstance(getattr(p, "_parent", None), ast.Call) and p._parent.func is p:
        if p.attr in STR_METHODS:
            return "str", ".%s()" % p.attr
        if p.attr in DICT_METHODS:
            return "dict", ".%s()" % p.attr
        if p.attr in LIST_METHODS:
            return "list", ".%s()" % p.attr
    if isinstance(p, (ast.For, ast.comprehension)) and p.iter is x:
        return "list", "for ... in"
    if isinstance(p, ast.Call) and pyflow.is_name(p.func, "enumerate") and p.args and p.args[0] is x:
        return "list", "enumerate()"
    if isinstance(p, ast.BinOp) and isinstance(p.op, ast.Add):
        other = p.right if p.left is x else p.left
        if _is_text(other):
            return "str", "+ '...'"
    if isinstance(p, ast.Compare) and len(p.ops) == 1 and isinstance(p.ops[0], (ast.In, ast.NotIn)) and p.comparators[0] is x:
        return "container", "in"
    if isinstance(p, ast.Subscript) and p.value is x and _is_load(p):
        return "container", "[...]"
    if isinstance(p, ast.Call) and any(a is x for a in p.args):
        name = pyflow.call_name(p) or ""
        if name.endswith(".update") and p.args[0] is x:
            return "dict", "%s(...)" % name
        if name == "listify" and p.args[0] is x:
            return "dict", "listify(...)"
        if name in ("util.update", "update") and len(p.args) == 2 and p.args[1] is x:
            return "dict", "util.update(..., v)"
        if name == "clean_list":
            return "list", "clean_list(...)"
    if isinstance(p, ast.keyword) and p.arg is None and p.value is x:
        return "dict", "**"
    return None


TYPE_OK = {
    "str": ("str",),
    "dict": ("dict", "Mapping", "collections.abc.Mapping"),
    "list": ("list", "(list, tuple)"),
    "container": ("str", "dict", "list", "(list, tuple)", "Mapping"),
}


def satisfies(have, want):
    return any(have == ok or have == "(%s,)" % ok for ok in TYPE_OK[want])


def facts_at(fn, use):
    """isinstance / is None / truthiness facts that hold when `use` is evaluated:
    [(kind, tested expression node, type text, polarity)]"""
    atoms = []

    def add(test, pol):
        test, pol = pyflow._positive(test, pol)
        if isinstance(test, ast.BoolOp) and ((isinstance(test.op, ast.And) and pol) or (isinstance(test.op, ast.Or) and not pol)):
            for v in test.values:
                add(v, pol)
        else:
            atoms.append((test, pol))
    for t, pol in list(pyflow.dominating_tests(use, stop=fn)) + list(pyflow.early_exit_guards(fn, use)):
        add(t, pol)
    child = use
    for p in parent_chain(use):
        if p is fn or isinstance(p, ast.stmt):
            break
        if isinstance(p, ast.BoolOp):
            for v in p.values:
                if v is child:
                    break
                add(v, isinstance(p.op, ast.And))
        child = p
    out = []
    for t, pol in atoms:
        if isinstance(t, ast.Call) and isinstance(t.func, ast.Name) and t.func.id == "isinstance" and len(t.args) == 2:
            out.append(("isinstance", t.args[0], ast.unparse(t.args[1]), pol))
        elif isinstance(t, ast.Compare) and len(t.ops) == 1 and isinstance(t.ops[0], (ast.Is, ast.IsNot)) and \
                isinstance(t.comparators[0], ast.Constant) and t.comparators[0].value is None:
            out.append(("none", t.left, "", pol if isinstance(t.ops[0], ast.Is) else not pol))
        else:
            out.append(("truth", t, "", pol))
    return out


class Env(object):
    """which expressions of one function hold a value of the input file"""

    def __init__(self, fn, params=(), bound=None):
        self.fn = fn
        self.names = {}      # local name -> paths
        self.scoped = []     # (loop node, YAML dict name, prefix): inside the loop the dictionary is an element
        for p in params:
            self.names[p] = [p]
        for p, path in (bound or {}).items():
            self.names[p] = [path]
        self._solve()

    def _key(self, x):
        """(dictionary name, key expression) when x is D[k] or D.get(k, ...)"""
        if isinstance(x, ast.Subscript) and isinstance(x.value, ast.Name) and x.value.id in YAML_DICTS:
            return x.value.id, x.slice
        if isinstance(x, ast.Call) and isinstance(x.func, ast.Attribute) and x.func.attr in ("get", "setdefault") and \
                isinstance(x.func.value, ast.Name) and x.func.value.id in YAML_DICTS and x.args:
            return x.func.value.id, x.args[0]
        return None

    def _prefix(self, dname, at):
        for lp, name, prefix in self.scoped:
            if name == dname and _inside(at, lp):
                return prefix
        return ""

    def paths(self, x):
        """key paths of the value expression x holds ([] when it is not a value of the input file)"""
        kd = self._key(x)
        if kd:
            dname, kx = kd
            k = pyflow.const_str(kx)
            keys = [k] if k else []
            if not k and isinstance(kx, ast.Name):
                # D[var] where var runs over a list of constants
                for p in parent_chain(x):
                    if isinstance(p, ast.For) and pyflow.is_name(p.target, kx.id) and isinstance(p.iter, (ast.List, ast.Tuple)):
                        keys = [c.value for c in p.iter.elts if isinstance(c, ast.Constant) and isinstance(c.value, str)]
                        break
            pre = self._prefix(dname, x)
            return [pre + k for k in keys]
        if isinstance(x, ast.Name) and x.id in self.names:
            return list(self.names[x.id])
        if isinstance(x, ast.Subscript) and not self._key(x):
            return [p + "[]" for p in self.paths(x.value)]
        return []

    def _solve(self):
        fn = self.fn
        changed = True
        rounds = 0
        while changed and rounds < 6:
            changed = False
            rounds += 1
            for st in ast.walk(fn):
                if isinstance(st, ast.Assign) and len(st.targets) == 1 and isinstance(st.targets[0], ast.Name):
                    name = st.targets[0].id
                    if name in self.names or name in YAML_DICTS:
                        continue
                    ps = self.paths(st.value)
                    if ps:
                        others = [a for a in ast.walk(fn) if isinstance(a, ast.Assign) and a is not st
                                  and any(pyflow.is_name(t, name) for t in a.targets)]
                        if all(self.paths(a.value) == ps for a in others):
                            self.names[name] = ps
                            changed = True
                elif isinstance(st, (ast.For, ast.comprehension)):
                    it, tgt = st.iter, st.target
                    if isinstance(it, ast.Call) and pyflow.is_name(it.func, "enumerate") and it.args and \
                            isinstance(tgt, ast.Tuple) and len(tgt.elts) == 2:
                        it, tgt = it.args[0], tgt.elts[1]
                    elif isinstance(it, ast.Call) and isinstance(it.func, ast.Attribute) and it.func.attr in ("items", "values"):
                        if it.func.attr == "items":
                            if not (isinstance(tgt, ast.Tuple) and len(tgt.elts) == 2):
                                continue
                            tgt = tgt.elts[1]
                        it = it.func.value
                    if not isinstance(tgt, ast.Name):
                        continue
                    ps = self.paths(it)
                    if not ps:
                        continue
                    if tgt.id in YAML_DICTS:
                        if len(ps) != 1 or ps[0] in RECURSIVE:
                            continue
                        ent = (st, tgt.id, ps[0] + "[].")
                        if not any(e[0] is st for e in self.scoped):
                            self.scoped.append(ent)
                            changed = True
                    elif tgt.id not in self.names:
                        self.names[tgt.id] = [p + "[]" for p in ps]
                        changed = True

    def values(self):
        """[(expression node, path)] for every expression of the function that holds a value of the input file"""
        out = []
        for x in ast.walk(self.fn):
            if not isinstance(x, (ast.Name, ast.Subscript, ast.Call)) or not _is_load(x):
                continue
            for p in self.paths(x):
                out.append((x, p))
        # a scoped dictionary itself (`for subnode in node["typemap"]: "type" in subnode`)
        for lp, name, prefix in self.scoped:
            for x in ast.walk(lp):
                if isinstance(x, ast.Name) and x.id == name and _is_load(x) and x is not lp.target:
                    out.append((x, prefix[:-1]))
        return out

    def same_value(self, a, b):
        """expressions a and b hold the same value of the input file"""
        pa, pb = self.paths(a), self.paths(b)
        if pa and pb and set(pa) & set(pb):
            return True
        for lp, name, prefix in self.scoped:
            if pyflow.is_name(a, name) and pyflow.is_name(b, name):
                return True
        return ast.unparse(a) == ast.unparse(b)


def spread_params(mod):
    """{function qualname: [parameter names]} of functions that receive a YAML dictionary as ** keywords: their named
    parameters are YAML keys"""
    out = {}
    spreaders = set()
    for q, fn in mod.functions().items():
        for c in ast.walk(fn):
            if isinstance(c, ast.Call):
                for k in c.keywords:
                    if k.arg is None and isinstance(k.value, ast.Name) and k.value.id in YAML_DICTS:
                        name = pyflow.call_name(c) or ""
                        spreaders.add(name.split(".")[-1])
    for q, fn in mod.functions().items():
        short = q.split(".")[-1]
        cls = q.split(".")[0] if "." in q else None
        if short in spreaders or (short == "__init__" and cls in spreaders):
            out[q] = [a.arg for a in fn.args.args + fn.args.kwonlyargs if a.arg != "self"]
    return out


class Use(object):
    def __init__(self, mod, q, fn, env, node, path, want, how):
        self.mod, self.q, self.fn, self.env, self.node, self.path, self.want, self.how = mod, q, fn, env, node, path, want, how

    def guarded(self):
        """an isinstance test of a matching type on this value holds here"""
        for kind, e, t, pol in facts_at(self.fn, self.node):
            if kind == "isinstance" and pol and self.env.same_value(e, self.node) and satisfies(t, self.want):
                return True
        return False

    def not_none(self):
        for kind, e, t, pol in facts_at(self.fn, self.node):
            if not self.env.same_value(e, self.node):
                continue
            if (kind == "isinstance" and pol) or (kind == "none" and not pol) or (kind == "truth" and pol):
                return True
        return False


def uses_in(mod, documented=None):
    """typed uses of values of the input file in one module (reads of YAML dictionaries, their aliases and elements,
    and the named parameters of functions called with ** of a YAML dictionary when the name is a documented key)"""
    out = []
    spread = spread_params(mod)
    for q, fn in sorted(mod.functions().items()):
        params = [p for p in spread.get(q, []) if documented is None or p in documented]
        env = Env(fn, params)
        seen = set()
        for x, path in env.values():
            tu = typed_use(x)
            if tu and (id(x), path) not in seen:
                seen.add((id(x), path))
                out.append(Use(mod, q, fn, env, x, path, tu[0], tu[1]))
    return out


def validators_in(mod, qualnames, binding=None, _depth=0):
    """[(path, type text, none_exempt, Raise node, qualname)] for `if not isinstance(v, T): raise` on a value of the
    input file, and {path} of values whose None is replaced or removed (`if v is None: D[k] = ...` / `del D[k]`)"""
    typed, blank = [], set()
    for q in qualnames:
        if not mod.has_func(q):
            continue
        fn = mod.func(q)
        env = Env(fn, bound=binding)
        for r in ast.walk(fn):
            if isinstance(r, ast.Raise):
                facts = facts_at(fn, r)
                for kind, e, t, pol in facts:
                    if kind == "isinstance" and not pol:
                        paths = env.paths(e)
                        if not paths:
                            for lp, name, prefix in env.scoped:
                                if pyflow.is_name(e, name) and _inside(r, lp):
                                    paths = [prefix[:-1]]
                        exempt = any(k2 == "none" and not p2 and env.same_value(e2, e) for k2, e2, t2, p2 in facts)
                        for p in paths:
                            typed.append((p, t, exempt, r, q))
            if isinstance(r, ast.Assign) and isinstance(r.value, ast.Call) and pyflow.is_name(r.value.func, "str") and \
                    len(r.value.args) == 1 and isinstance(r.targets[0], ast.Subscript):
                # lst[i] = str(element): the element is text afterwards
                src = env.paths(r.value.args[0])
                if src and set(p + "[]" for p in env.paths(r.targets[0].value)) & set(src):
                    for p in src:
                        typed.append((p, "str", False, r, q))
            if isinstance(r, ast.Expr) and isinstance(r.value, ast.Call) and isinstance(r.value.func, ast.Name) and \
                    mod.has_func(r.value.func.id) and r.value.func.id not in qualnames and _depth < 2:
                # helper(<value>) that checks or cleans the value it is given
                callee = mod.func(r.value.func.id)
                ps = [a.arg for a in callee.args.args]
                binding = {}
                for i, a in enumerate(r.value.args):
                    if i < len(ps) and len(env.paths(a)) == 1:
                        binding[ps[i]] = env.paths(a)[0]
                if binding:
                    t2, b2 = validators_in(mod, [r.value.func.id], binding, _depth + 1)
                    typed.extend(t2)
                    blank |= b2
            if isinstance(r, (ast.Assign, ast.Delete)):
                tgt = r.targets[0]
                for kind, e, t, pol in facts_at(fn, r):
                    if kind == "none" and pol and isinstance(tgt, ast.Subscript) and env.same_value(e, tgt):
                        for p in env.paths(tgt):
                            blank.add(p)
    return typed, blank


def stored_attributes(mod):
    """{attribute name: path} for `self.A = <value of the input file>` in the constructors of the module"""
    out = {}
    spread = spread_params(mod)
    for q, fn in sorted(mod.functions().items()):
        env = Env(fn, spread.get(q, []))
        for a in ast.walk(fn):
            if isinstance(a, ast.Assign) and len(a.targets) == 1 and isinstance(a.targets[0], ast.Attribute) and \
                    pyflow.is_name(a.targets[0].value, "self"):
                ps = env.paths(a.value)
                if len(ps) == 1 and not ps[0].startswith("__"):
                    out.setdefault(a.targets[0].attr, set()).add(ps[0])
    return out
