"""Parse the sources of /repo (never import them).

Repo(root=None, overlay=None)
    root     directory of the shroud checkout (default: $VERIF_REPO or /repo)
    overlay  {relative path: source text} replacing the file on disk
             (used by the checker self-test; nothing is written anywhere)

Every check works on `Repo.module(name)` objects: parsed `ast.Module`, source
text, and parent links.  A missing file or a syntax error is an AnalysisError
(exit 2), never a silent pass.
"""
import ast
import hashlib
import os

DEFAULT_ROOT = "/repo"

PY_MODULES = [
    "ast", "declast", "generate", "main", "metadata", "splicer", "statements",
    "todict", "typemap", "util", "visitor", "whelpers", "wrapc", "wrapf",
    "wrapl", "wrapp",
]


class AnalysisError(Exception):
    """The analysis cannot be carried out (anchor vanished, table not
    evaluable, instance floor not reached).  Exit code 2."""


class Module(object):
    def __init__(self, name, relpath, source):
        self.name = name
        self.relpath = relpath
        self.source = source
        self.lines = source.split("\n")
        try:
            self.tree = ast.parse(source, filename=relpath)
        except SyntaxError as e:
            raise AnalysisError("%s does not parse: %s" % (relpath, e))
        for parent in ast.walk(self.tree):
            for child in ast.iter_child_nodes(parent):
                child._parent = parent
        self.tree._parent = None
        self._funcs = None
        self._classes = None
        self._blines = None

    # ---- lookup helpers -------------------------------------------------
    def functions(self):
        """{qualified name: FunctionDef} for module functions and methods
        (Class.method); nested functions as outer.<locals>.inner."""
        if self._funcs is None:
            self._funcs = {}
            self._classes = {}

            def rec(body, prefix):
                for node in body:
                    if isinstance(node, (ast.FunctionDef, ast.AsyncFunctionDef)):
                        q = prefix + node.name
                        self._funcs[q] = node
                        node._qualname = q
                        node._module = self
                        rec(node.body, q + ".<locals>.")
                    elif isinstance(node, ast.ClassDef):
                        q = prefix + node.name
                        self._classes[q] = node
                        node._qualname = q
                        node._module = self
                        rec(node.body, q + ".")
                    elif isinstance(node, (ast.If, ast.Try, ast.With, ast.For, ast.While)):
                        for field in ("body", "orelse", "finalbody"):
                            rec(getattr(node, field, []) or [], prefix)
                        for h in getattr(node, "handlers", []) or []:
                            rec(h.body, prefix)
            rec(self.tree.body, "")
        return self._funcs

    def classes(self):
        self.functions()
        return self._classes

    def func(self, qualname):
        f = self.functions().get(qualname)
        if f is None:
            raise AnalysisError("anchor vanished: %s.%s" % (self.name, qualname))
        return f

    def cls(self, name):
        c = self.classes().get(name)
        if c is None:
            raise AnalysisError("anchor vanished: class %s.%s" % (self.name, name))
        return c

    def has_func(self, qualname):
        return qualname in self.functions()

    def toplevel_assign(self, name):
        """Value node of the (last) module-level `name = ...`."""
        found = None
        for node in self.tree.body:
            if isinstance(node, ast.Assign):
                for t in node.targets:
                    if isinstance(t, ast.Name) and t.id == name:
                        found = node.value
        if found is None:
            raise AnalysisError("anchor vanished: %s.%s" % (self.name, name))
        return found

    def seg(self, node):
        """Source text of a node (fast replacement for ast.get_source_segment)."""
        try:
            l0, c0, l1, c1 = node.lineno, node.col_offset, node.end_lineno, node.end_col_offset
        except AttributeError:
            return ""
        if l1 is None or c1 is None:
            return ""
        if self._blines is None:
            self._blines = [l.encode("utf-8") for l in self.source.splitlines(True)]
        bl = self._blines
        if l0 == l1:
            return bl[l0 - 1][c0:c1].decode("utf-8")
        parts = [bl[l0 - 1][c0:]] + bl[l0:l1 - 1] + [bl[l1 - 1][:c1]]
        return b"".join(parts).decode("utf-8")

    def loc(self, node):
        return "%s:%d" % (self.relpath, getattr(node, "lineno", 0))


class Repo(object):
    def __init__(self, root=None, overlay=None):
        self.root = root or os.environ.get("VERIF_REPO") or DEFAULT_ROOT
        self.overlay = dict(overlay or {})
        self._mods = {}
        self._texts = {}

    def read(self, relpath):
        if relpath in self._texts:
            return self._texts[relpath]
        if relpath in self.overlay:
            text = self.overlay[relpath]
        else:
            path = os.path.join(self.root, relpath)
            try:
                with open(path, "r", encoding="utf-8") as fp:
                    text = fp.read()
            except (IOError, OSError) as e:
                raise AnalysisError("cannot read %s: %s" % (path, e))
        self._texts[relpath] = text
        return text

    def module(self, name):
        if name not in self._mods:
            rel = "shroud/%s.py" % name
            self._mods[name] = Module(name, rel, self.read(rel))
        return self._mods[name]

    def modules(self, names=None):
        return [self.module(n) for n in (names or PY_MODULES)]

    def digest(self, names=None):
        h = hashlib.sha256()
        for n in (names or PY_MODULES):
            h.update(self.module(n).source.encode("utf-8"))
        return h.hexdigest()[:16]


def parent_chain(node):
    """Yield ancestors from the immediate parent up to the Module."""
    p = getattr(node, "_parent", None)
    while p is not None:
        yield p
        p = getattr(p, "_parent", None)


def enclosing_function(node):
    for p in parent_chain(node):
        if isinstance(p, (ast.FunctionDef, ast.AsyncFunctionDef)):
            return p
    return None


def enclosing_class(node):
    for p in parent_chain(node):
        if isinstance(p, ast.ClassDef):
            return p
    return None
