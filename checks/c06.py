"""C06 - wrapped objects and returned memory are released exactly once,
never early.  Decided: typestate over the statement tables and the release
functions."""
import ast
import re

from sa import pattern, tables, templ, pyflow
from sa.loader import AnalysisError

EXPLANATION = (
    "Typestate / pairing analysis over the tables and the emitted release code: (R1) a c_* entry whose "
    "pre_call allocates a temporary with ShroudStrAlloc / ShroudStrArrayAlloc frees exactly that "
    "variable in post_call with the matching free helper and count; (R2) an entry that creates an "
    "object with `new T` (cxx_local_var pointer) hands it over together with a destructor whose "
    "reinterpret_cast and delete name the same T and stores {idtor} with the address, malloc-family "
    "allocations pair with free; (R3) destructor slot 0 means 'do not release': it is registered "
    "before any other destructor, default indices are \"0\", a class only gets a non-zero index when its "
    "destructor is wrapped; (R4) release is idempotent: the emitted release function nulls the address "
    "and resets the index, the Fortran final and delete procedures call the same C dtor, "
    "c_shadow_dtor nulls the handle, the Python deallocator nulls its pointer; (R5) no wrapper helper "
    "reads or writes outside its buffers (bounds proofs shared with C10.R1); (R6) Python entries: "
    "objects created in declare/post_parse/pre_call are released on the fail path when the entry can "
    "fail, and converter values are released in cleanup.")
NOT_DECIDED = "Exactly-once release along arbitrary call histories of compiled code (needs execution under a memory checker)."

ALLOC_FREE = {"ShroudStrAlloc": "ShroudStrFree", "ShroudStrArrayAlloc": "ShroudStrArrayFree"}


def _norm(s):
    return re.sub(r"\s+", "", s)


def _lines(e, clause):
    out = []
    for s in e.lines(clause):
        out.extend(templ.code_lines(s))
    return out


def rule_r1(repo, run, table):
    R = run.rule("C06.R1", "temporaries allocated in pre_call are freed in post_call (same variable, matching helper)")
    n = 0
    done = set()
    for lang in ("c", "c++"):
        for name, e in table.resolve_all(lang).items():
            if not name.startswith("c_") or name in done:
                continue
            pre = "\n".join(_lines(e, "pre_call"))
            post = "\n".join(_lines(e, "post_call"))
            allocs = []
            for m in re.finditer(r"([\w{}*\s]+?)\s*=\s*(ShroudStrAlloc|ShroudStrArrayAlloc)\s*\(", templ.c_code(pre)):
                var = _norm(m.group(1)).split("*")[-1]
                allocs.append((var, m.group(2)))
            if not allocs:
                continue
            done.add(name)
            loc = table.loc(e.raw)
            for var, fn in allocs:
                n += 1
                free = ALLOC_FREE[fn]
                calls = [(c, a) for c, a, p in templ.calls(post) if c == free]
                ok = len(calls) == 1 and _norm(calls[0][1][0]) == var
                run.check(R, "statements.fc_statements[%s]:%s" % (name, var), ok,
                          "%s = %s(...) in pre_call is not released by exactly one %s(%s...) in post_call "
                          "(found %s)" % (var, fn, free, var, [(c, a) for c, a in calls]), loc,
                          sample=dict(entry=name, alloc=fn, var=var, free=[a for c, a in calls]))
                if fn == "ShroudStrArrayAlloc" and calls:
                    a_args = [a for c, a, p in templ.calls(pre) if c == fn][0]
                    run.check(R, "statements.fc_statements[%s]:%s:count" % (name, var),
                              len(calls[0][1]) == 2 and _norm(calls[0][1][1]) == _norm(a_args[1]),
                              "the free helper must be given the same element count as the allocation", loc)
                # not released early / not returned after release
                for clause in ("final", "ret"):
                    txt = "\n".join(_lines(e, clause))
                    run.check(R, "statements.fc_statements[%s]:%s:not-used-after-free(%s)" % (name, var, clause),
                              var not in _norm(txt),
                              "the freed temporary is still used in the %s clause" % clause, loc)
            # nothing in post_call after the free may use the variable... (free is last use)
            pl = [_norm(x) for x in _lines(e, "post_call")]
            for var, fn in allocs:
                idx = [i for i, l in enumerate(pl) if ALLOC_FREE[fn] + "(" + var in l]
                if idx:
                    later = [l for l in pl[idx[-1] + 1:] if var in l]
                    run.check(R, "statements.fc_statements[%s]:%s:free-last" % (name, var), not later,
                              "the temporary is used after it has been freed: %s" % later, loc)
    run.floor(R, "temporary allocations in c_* entries", n, 4)


def rule_r2(repo, run, table):
    R = run.rule("C06.R2", "objects created with new are handed over with a matching destructor and stored index")
    n = 0
    done = set()
    for name, e in table.resolve_all("c++").items():
        if not name.startswith("c_"):
            continue
        pre = [_norm(x) for x in _lines(e, "pre_call")] + [_norm(x) for x in _lines(e, "call")]
        news = []
        for l in pre:
            m = re.search(r"=\s*new\s*((?:std::)?[\w:]+(?:<[^>]*>)?|\{[\w]+\})", l.replace("\\t", ""))
            m2 = re.search(r"=new((?:std::)?[\w:{}]+(?:<[^>]*>)?)", l)
            if m2:
                news.append(m2.group(1))
        if not news:
            continue
        key = (str(e.raw.get("name")), tuple(news))
        if key in done:
            continue
        done.add(key)
        loc = table.loc(e.raw)
        for T in news:
            n += 1
            construct = "statements.fc_statements[%s]:new %s" % (name, T)
            post = [_norm(x) for x in _lines(e, "post_call")]
            if e.get("destructor_name"):
                dlines = [_norm(x) for x in _lines(e, "destructor")]
                cast = [re.search(r"reinterpret_cast<(.+?)\*>\(ptr\)", l) for l in dlines]
                cast = [c.group(1) for c in cast if c]
                ok_cast = cast == [T]
                ok_del = any(l == "deletecxx_ptr;" for l in dlines)
                stored = any("{idtor}" in l for l in post)
                addr = any(("cxx.addr={cxx_var}" in l) or ("ShroudStrToArray(" in l and "{cxx_var}" in l) for l in post)
                probs = []
                if not ok_cast:
                    probs.append("destructor casts to %s but the object is a %s" % (cast, T))
                if not ok_del:
                    probs.append("destructor never deletes the object")
                if not stored:
                    probs.append("{idtor} is not stored with the address: the object can never be released")
                if not addr:
                    probs.append("the address of the new object is not stored in the capsule")
                if e.get("cxx_local_var") != "pointer":
                    probs.append("cxx_local_var must be 'pointer' for a heap object")
                run.check(R, construct, not probs, "; ".join(probs), loc,
                          sample=dict(entry=name, new=T, destructor_name=str(e.get("destructor_name")), cast=cast))
            else:
                # shadow constructor: ownership goes to the caller through the shadow struct
                lines_all = post + [_norm(x) for x in _lines(e, "call")] + [_norm(x) for x in _lines(e, "ret")]
                ok = e.get("owner") == "caller" and any("{shadow_var}->idtor={idtor};" in l for l in lines_all) and \
                    any("{shadow_var}->addr=" in l for l in lines_all)
                run.check(R, construct, ok,
                          "a new object without destructor_name must be owned by the caller through the shadow "
                          "struct (addr and idtor stored, owner=caller)", loc,
                          sample=dict(entry=name, new=T, owner=str(e.get("owner"))))
    run.floor(R, "entries creating heap objects", n, 5)
    # every destructor_name maps to one destructor text
    by = {}
    for name, e in table.resolve_all("c++").items():
        dn = e.get("destructor_name")
        if dn:
            by.setdefault(str(dn), set()).add(tuple(_norm(x) for x in _lines(e, "destructor")))
    for dn, texts in sorted(by.items()):
        run.check(R, "destructor_name[%s]" % dn, len(texts) == 1,
                  "entries sharing destructor_name %r define different destructor bodies (the first one wins)" % dn,
                  "shroud/statements.py", sample=dict(name=dn, variants=len(texts)))
    # malloc/free pairing inside Python helper sources is checked in R6


def rule_r3(repo, run):
    R = run.rule("C06.R3", "destructor slot 0 means 'do not release'")
    for mname, cname in (("wrapc", "Wrapc"), ("wrapp", "Wrapp")):
        m = repo.module(mname)
        f = m.func(cname + ".wrap_library")
        calls = []
        for st in f.body:
            for c in sorted(pyflow.calls_in(st), key=lambda c: (c.lineno, c.col_offset)):
                d = pyflow.call_name(c) or ""
                if d.startswith("self."):
                    calls.append((d, c))
        first_reg = [i for i, (d, c) in enumerate(calls) if d == "self.add_capsule_code"]
        first_wrap = [i for i, (d, c) in enumerate(calls) if d in ("self.wrap_namespace", "self.wrap_class",
                                                                   "self.wrap_functions", "self.wrap_enums")]
        ok = bool(first_reg) and (not first_wrap or first_reg[0] < first_wrap[0])
        run.check(R, "%s.%s.wrap_library:slot0-first" % (mname, cname), ok,
                  "the 'nothing to release' entry must be registered before any declaration is wrapped", m.loc(f))
        if first_reg:
            c = calls[first_reg[0]][1]
            lines = c.args[-1]
            txt = m.seg(lines)
            noop = isinstance(lines, ast.List) and all(pyflow.const_str(x) is not None and pyflow.const_str(x).strip().startswith("//")
                                                       for x in lines.elts)
            run.check(R, "%s.%s.wrap_library:slot0-noop" % (mname, cname), noop,
                      "slot 0 must contain no code (only a comment), found %s" % txt, m.loc(c),
                      sample=dict(slot0=txt))
        # index = number of entries registered so far, assigned once per name
        ac = m.func(cname + ".add_capsule_code")
        s = _norm(m.seg(ac))
        run.check(R, "%s.%s.add_capsule_code" % (mname, cname),
                  "ifnamenotinself.capsule_code:" in s and "str(len(self.capsule_code))" in s and
                  "self.capsule_order.append(name)" in s and "returnself.capsule_code[name][0]" in s,
                  "a destructor name must get exactly one index (its registration order)", m.loc(ac))
    tt = tables.TypeTable(repo)
    run.check(R, "typemap.Typemap.defaults[idtor]", tt.defaults.get("idtor") == "0",
              "the default destructor index of a type must be \"0\"", "shroud/typemap.py")
    wc = repo.module("wrapc")
    inits = []
    for node in ast.walk(wc.tree):
        if isinstance(node, ast.Assign) and any((pyflow.dotted(t) or "").endswith(".idtor") and
                                                (pyflow.dotted(t) or "").startswith("fmt") for t in node.targets):
            if isinstance(node.value, ast.Constant):
                inits.append(node)
    run.floor(R, "constant idtor initialisations in wrapc", len(inits), 2)
    for node in inits:
        run.check(R, "wrapc:%s@%s" % (_norm(wc.seg(node.targets[0])), getattr(pyflow, "x", "") or node.lineno and "init"),
                  node.value.value == "0", "format field idtor initialised to %r, must be \"0\"" % node.value.value, wc.loc(node))
    ci = wc.func("Wrapc.compute_idtor")
    assigns = [n for n in ast.walk(ci) if isinstance(n, ast.Assign) and (pyflow.dotted(n.targets[0]) or "") == "ntypemap.idtor"]
    ok = len(assigns) == 2
    for a in assigns:
        under = [(wc.seg(t), p) for t, p in pyflow.dominating_tests(a, stop=ci)]
        if isinstance(a.value, ast.Constant):
            ok = ok and a.value.value == "0" and any(t == "has_dtor" and not p for t, p in under)
        else:
            ok = ok and any(t == "has_dtor" and p for t, p in under) and "add_capsule_code" in wc.seg(a.value)
    run.check(R, "wrapc.Wrapc.compute_idtor", ok,
              "a class gets a non-zero destructor index only when its destructor is wrapped, else \"0\"", wc.loc(ci))
    s = wc.seg(ci)
    run.check(R, "wrapc.Wrapc.compute_idtor:delete-type", "reinterpret_cast<{cxx_type} *>(ptr)" in s and '"delete cxx_ptr;"' in s,
              "the class destructor entry must cast to the class type and delete it", wc.loc(ci))


def rule_r4(repo, run, table, helpers):
    R = run.rule("C06.R4", "release is idempotent and final/delete share one C release function")
    wc = repo.module("wrapc")
    f = wc.func("Wrapc.write_capsule_code")
    strs = [n.value for n in ast.walk(f) if isinstance(n, ast.Constant) and isinstance(n.value, str)]
    tail = [s for s in strs if "cap->addr" in s and "cap->idtor = 0" in s]
    ok = len(tail) == 1 and re.search(r"cap->addr = \{nullptr\};", tail[0]) and re.search(r"cap->idtor = 0;", tail[0])
    run.check(R, "wrapc.Wrapc.write_capsule_code:reset", bool(ok),
              "after running the destructor the release function must null cap->addr and set cap->idtor = 0",
              wc.loc(f), sample=dict(tail=tail))
    # the reset is emitted unconditionally and after the switch
    reset_nodes = [n for n in ast.walk(f) if isinstance(n, ast.Constant) and isinstance(n.value, str) and "cap->idtor = 0" in n.value]
    if reset_nodes:
        run.check(R, "wrapc.Wrapc.write_capsule_code:reset-unconditional",
                  not pyflow.dominating_tests(reset_nodes[0], stop=f),
                  "the reset must not depend on any option", wc.loc(reset_nodes[0]))
        sw = [n for n in ast.walk(f) if isinstance(n, ast.Constant) and isinstance(n.value, str) and "switch (cap->idtor)" in n.value]
        run.check(R, "wrapc.Wrapc.write_capsule_code:order", bool(sw) and sw[0].lineno < reset_nodes[0].lineno,
                  "the switch on idtor must precede the reset", wc.loc(f))
    run.check(R, "wrapc.Wrapc.write_capsule_code:cases", any("case {}:" in s for s in strs) and
              "self.capsule_code[name][1]" in wc.seg(f) and "enumerate(self.capsule_order)" in wc.seg(f),
              "case i must run the i-th registered destructor", wc.loc(f))
    # Fortran capsule helper
    ch = helpers.f.get("capsule_helper")
    if ch is None:
        raise AnalysisError("C06.R4: FHelpers[capsule_helper] vanished")
    src = tables.helper_text(ch, "source")
    calls = re.findall(r"call\s+(\S+)\((\S+)\)", src)
    run.check(R, "whelpers.FHelpers[capsule_helper]:final+delete", len(calls) == 2 and calls[0] == calls[1] and
              calls[0][1] == "cap%mem", "final and delete must call the same C release function on cap%%mem: %s" % calls,
              repo.module("whelpers").loc(ch.node), sample=dict(calls=calls))
    dt = tables.helper_text(ch, "derived_type")
    run.check(R, "whelpers.FHelpers[capsule_helper]:bindings", "final :: {F_capsule_final_function}" in dt and
              "procedure :: delete => {F_capsule_delete_function}" in dt,
              "the capsule type must bind its final and delete procedures", repo.module("whelpers").loc(ch.node))
    cd = helpers.f.get("capsule_dtor")
    it = tables.helper_text(cd, "interface") if cd else ""
    run.check(R, "whelpers.FHelpers[capsule_dtor]", 'bind(C, name="{C_memory_dtor_function}")' in it and "intent(INOUT) :: ptr" in it,
              "the Fortran dtor interface must bind to the C release function with an INOUT capsule (it is reset)",
              repo.module("whelpers").loc(cd.node) if cd else "shroud/whelpers.py")
    # c_shadow_dtor
    e = table.resolve_all("c++").get("c_shadow_dtor")
    if e is None:
        raise AnalysisError("C06.R4: c_shadow_dtor entry vanished")
    call = [_norm(x) for x in _lines(e, "call")]
    run.check(R, "statements.fc_statements[c_shadow_dtor]", call == ["delete{CXX_this};", "{C_this}->addr={nullptr};"],
              "the destructor wrapper must delete the object and null the handle (so that deleting again is harmless), "
              "found %s" % call, table.loc(e.raw), sample=dict(call=call))
    # Python deallocator
    wp = repo.module("wrapp")
    td = None
    for q, fn in wp.functions().items():
        if q.endswith("tp_del"):
            td = fn
    if td is not None:
        s = wp.seg(td)
        run.check(R, "wrapp.Wrapp.tp_del", "{PY_release_memory_function}" in s and "self->{PY_type_obj} = {nullptr};" in s,
                  "tp_del must release through the release function and null its pointer", wp.loc(td))


NEW_REF = ("PyCapsule_New", "PyList_New", "PyTuple_New", "PyArray_SimpleNew", "PyArray_NewFromDescr",
           "PyObject_New", "PyArray_FROM_OTF", "PySequence_Fast", "PyObject_GetAttrString", "Py_BuildValue",
           "PyUnicode_AsUTF8String", "PyString_FromString", "PyArray_FromAny")


def rule_r6(repo, run):
    R = run.rule("C06.R6", "Python statement entries release what they create on the failure path")
    t = tables.StatementTable(repo, "wrapp", "py_statements")
    helpers = tables.build_helper_table(repo)
    n = 0
    done = set()
    for name, e in t.resolve_all("c++").items():
        raw_name = str(e.raw.get("name"))
        if raw_name in done:
            continue
        done.add(raw_name)
        clauses = {c: "\n".join(_lines(e, c)) for c in ("declare", "post_declare", "post_parse", "pre_call", "post_call",
                                                         "cleanup", "fail", "declare_capsule", "post_call_capsule",
                                                         "fail_capsule", "declare_keep", "post_call_keep", "fail_keep")}
        body = "\n".join(clauses[c] for c in ("post_parse", "pre_call", "post_call"))
        loc = t.loc(e.raw)
        # goto fail => goto_fail flag
        if re.search(r"\bgoto\s+fail\b", "\n".join(clauses.values())):
            n += 1
            run.check(R, "wrapp.py_statements[%s]:goto_fail" % raw_name, e.get("goto_fail") is True,
                      "entry contains `goto fail` but goto_fail is not set: the label is never emitted", loc,
                      sample=dict(entry=raw_name))
        # new references created into declared PyObject variables
        created = []
        for m in re.finditer(r"(\{?[\w{}]+\}?)\s*=\s*(?:\{cast_\w+\}[^;=]*?\{cast1\})?\s*(%s)\s*\(" % "|".join(NEW_REF),
                             templ.c_code(body)):
            created.append((_norm(m.group(1)), m.group(2)))
        for var, api in created:
            if not var.startswith("{py_") and var not in ("{py_var}", "{pytmp_var}"):
                continue
            can_fail_after = bool(re.search(r"\bgoto\s+fail\b", body))
            if not can_fail_after:
                continue
            n += 1
            fail = _norm(clauses["fail"] + clauses["fail_capsule"] + clauses["fail_keep"])
            returned = e.get("object_created") is True
            ok = ("Py_XDECREF(%s)" % var in fail) or ("Py_DECREF(%s)" % var in fail) or \
                ("Py_XDECREF(%s)" % var in _norm(clauses["cleanup"]))
            run.check(R, "wrapp.py_statements[%s]:%s" % (raw_name, var), ok,
                      "%s receives a new reference from %s and the entry can `goto fail` afterwards, but neither "
                      "fail nor cleanup releases it" % (var, api), loc, sample=dict(entry=raw_name, var=var, api=api))
        # converter values: the PY_typedef_converter filled by a helper holds references in .obj / .dataobj;
        # each must be released (normal path, and fail path when the entry can fail) or handed over.
        decl = clauses["declare"]
        if "{PY_typedef_converter}" in decl:
            m = re.search(r"\{PY_typedef_converter\}\s+(\{?\w+\}?)", decl)
            if m:
                v = _norm(m.group(1))
                normal = _norm(clauses["post_call"] + clauses["cleanup"] + clauses["post_call_keep"])
                fl = _norm(clauses["fail"] + clauses["fail_keep"])
                req = e.get("c_helper")
                reqs = [str(x) for x in req] if isinstance(req, (list, tuple)) else str(req or "").split()
                from checks.c05 import match_helper
                hsrc = ""
                for r_ in reqs:
                    for k in match_helper(r_, helpers.c):
                        hsrc += tables.helper_text(helpers.c[k], "source") + tables.helper_text(helpers.c[k], "cxx_source")
                for field in ("obj", "dataobj"):
                    n += 1
                    released = ("Py_XDECREF(%s.%s)" % (v, field) in normal) or ("Py_DECREF(%s.%s)" % (v, field) in normal)
                    handed = re.search(r"=%s\.%s;" % (re.escape(v), field), normal) is not None
                    never_set = bool(hsrc) and field == "obj" and \
                        set(re.findall(r"value->obj\s*=\s*([^;]+);", hsrc)) <= {"{nullptr}", "NULL"}
                    never_set_d = bool(hsrc) and field == "dataobj" and \
                        set(re.findall(r"value->dataobj\s*=\s*([^;]+);", hsrc)) <= {"{nullptr}", "NULL"}
                    ok = released or handed or never_set or never_set_d
                    probs = []
                    if not ok:
                        probs.append("%s.%s may hold a reference but is neither released nor handed over on the "
                                     "normal path" % (v, field))
                    if ok and released and e.get("goto_fail") and \
                            "Py_XDECREF(%s.%s)" % (v, field) not in fl and "Py_DECREF(%s.%s)" % (v, field) not in fl:
                        probs.append("%s.%s is released on the normal path but not on the fail path" % (v, field))
                    run.check(R, "wrapp.py_statements[%s]:converter %s.%s" % (raw_name, v, field), not probs,
                              "; ".join(probs), loc,
                              sample=dict(entry=raw_name, field=field, released=released, handed_over=handed,
                                          never_set=never_set or never_set_d))
    run.floor(R, "Python entries with failure/cleanup obligations", n, 25)
    # helper sources: malloc'ed blocks are freed on the error return
    for key, h in sorted(helpers.c.items()):
        src = tables.helper_text(h, "source") or tables.helper_text(h, "cxx_source")
        if "malloc(" not in src and "calloc(" not in src:
            continue
        code = templ.c_code(src)
        # every `return 0;`/`return -1;` after the allocation is preceded by free(...) or DECREF of the owner capsule
        alloc_pos = min([p for p in (code.find("malloc("), code.find("calloc(")) if p >= 0])
        rest = code[alloc_pos:]
        blocks = re.findall(r"\{([^{}]*?return\s+(?:0|-1)\s*;)", rest)
        for b in blocks:
            ok = "free(" in b or "Py_DECREF(dataobj)" in b
            run.check(R, "whelpers.CHelpers[%s]:error-return" % key, ok,
                      "an error return after the allocation leaks the block: %r" % _norm(b)[:80],
                      repo.module("whelpers").loc(h.node), sample=dict(helper=key))


def rule_r7(repo, run):
    R = run.rule("C06.R7", "an explicit +free_pattern decides how caller-owned pointer memory is released, "
                           "whatever the type's default destructor is")
    from sa import decide
    wm = repo.module("wrapc")
    f = wm.func("Wrapc.find_idtor")
    chains = [n for n in f.body if isinstance(n, ast.If) and any(
        isinstance(x, ast.Name) and x.id == "free_pattern" for y in ast.walk(n) for x in [y])]
    if len(chains) != 1:
        raise AnalysisError("C06.R7: decision chain on free_pattern not found in find_idtor")
    chain = chains[0]
    ats = decide.chain_atoms([chain])
    fixed = {}
    for a in ats:
        if re.match(r"^owner == ['\"]library['\"]$", a):
            fixed[a] = False
        elif a.endswith(".is_pointer()"):
            fixed[a] = True
        elif a == "free_pattern is not None":
            fixed[a] = True
        elif a == "free_pattern is None":
            fixed[a] = False
        elif a == "free_pattern":
            fixed[a] = True
    if not any("free_pattern" in a for a in fixed) or not any(a.endswith(".is_pointer()") for a in fixed):
        raise AnalysisError("C06.R7: expected tests on free_pattern / is_pointer() in find_idtor: %s" % ats)
    n = 0
    bad = []
    for asg, taken in decide.outcomes([chain], fixed):
        if taken is None:
            continue
        n += 1
        uses = any(isinstance(x, ast.Name) and x.id == "free_pattern" for st in taken for x in ast.walk(st))
        if not uses:
            bad.append(", ".join("%s=%s" % (k, v) for k, v in sorted(asg.items()) if k not in fixed))
    run.check(R, "wrapc.Wrapc.find_idtor:free_pattern-precedence", not bad,
              "with +owner(caller)+free_pattern(p) on a pointer result the destructor is chosen without looking at "
              "free_pattern when %s: the memory is released with the type's default (delete/free) instead of the "
              "user's pattern" % "; or ".join(bad[:3]), wm.loc(chain),
              sample=dict(fixed=fixed, outcomes=n))
    run.floor(R, "decision outcomes enumerated", n, 4)


def rule_r8(repo, run):
    R = run.rule("C06.R8", "a destructor index handed out at registration is the position of that destructor in the "
                           "emitted table / switch")
    n = 0
    for mname, cname in (("wrapc", "Wrapc"), ("wrapp", "Wrapp")):
        m = repo.module(mname)
        reg = m.func(cname + ".add_capsule_code")
        # registration: index = number of entries so far, name appended to the order list in the same branch
        blocks = pattern.find(reg, "if MV_N not in self.capsule_code:\n    ...")
        ok = False
        for node, env in blocks:
            has_idx = pattern.has(node.body, "str(len(self.capsule_code))")
            has_app = pattern.has(node.body, "self.capsule_order.append(%s)" % env["N"])
            ok = ok or (has_idx and has_app)
        n += 1
        run.check(R, "%s.%s.add_capsule_code:index" % (mname, cname), ok,
                  "a new destructor must get index len(capsule_code) and be appended to capsule_order in the same step",
                  m.loc(reg))
        # emission: every loop that prints per-destructor code walks capsule_order in order, numbering by position
        for q, fn in sorted(m.functions().items()):
            if not q.startswith(cname + "."):
                continue
            for lp in ast.walk(fn):
                if not isinstance(lp, ast.For):
                    continue
                uses = any(pattern.has(st, "self.capsule_code[MV_K]") for st in lp.body)
                if not uses:
                    continue
                n += 1
                it = lp.iter
                good = pattern.match(pattern.parse("enumerate(self.capsule_order)")[1], it, {}) or \
                    pattern.match(pattern.parse("self.capsule_order")[1], it, {})
                run.check(R, "%s.%s:table-order" % (mname, q), bool(good),
                          "destructor code is emitted in the order of `%s`, not in registration order "
                          "(self.capsule_order): entry i of the table is no longer the destructor whose index is i"
                          % m.seg(it), m.loc(lp), sample=dict(function=q, iterates=m.seg(it)))
    run.floor(R, "destructor table sites", n, 4)
    # a capsule that the caller passes in to receive ownership is intent(OUT): Fortran then finalises (releases) what
    # the variable held before the call; INOUT / no intent would silently overwrite a live capsule
    table = tables.StatementTable(repo, "statements", "fc_statements")
    nc = 0
    for name, e in sorted(table.resolve_all("c++").items()):
        if not name.startswith("f_"):
            continue
        for line in e.lines("arg_decl"):
            mm = re.search(r"type\(\{F_capsule_type\}\)(.*?)::\s*\{c_var_capsule\}", line)
            if mm:
                nc += 1
                intent = re.search(r"intent\((\w+)\)", mm.group(1), re.I)
                run.check(R, "statements.fc_statements[%s]:capsule-intent" % name,
                          bool(intent) and intent.group(1).upper() == "OUT",
                          "the capsule dummy argument is declared `%s`: it must be intent(OUT) so that a capsule "
                          "variable that already owns memory is finalised before it is overwritten (else the earlier "
                          "block is never released)" % line.strip(), table.loc(e.raw), sample=dict(entry=name, decl=line.strip()))
    if nc < 1:
        raise AnalysisError("C06.R8: no capsule dummy argument found in f_* statements")


def rule_r9(repo, run, helpers):
    R = run.rule("C06.R9", "release comes last: the wrapper body runs post_call (copy-out) before the final clause (release), "
                           "and helpers that copy-and-free reach their release on every path")
    wc = repo.module("wrapc")
    f = wc.func("Wrapc.wrap_function")
    chains = [a for a in ast.walk(f) if isinstance(a, ast.Assign) and pyflow.is_name(a.targets[0], "C_code")
              and isinstance(a.value, ast.BinOp)]
    if not chains:
        raise AnalysisError("C06.R9: assembly of C_code not found in wrap_function")
    for a in chains:
        names = []

        def leaves(e):
            if isinstance(e, ast.BinOp) and isinstance(e.op, ast.Add):
                leaves(e.left)
                leaves(e.right)
            elif isinstance(e, ast.Name):
                names.append(e.id)
        leaves(a.value)
        want = ["pre_call", "call_code", "post_call", "final_code", "return_code"]
        order = [names.index(w) if w in names else -1 for w in want]
        run.check(R, "wrapc.Wrapc.wrap_function:C_code-order", -1 not in order and order == sorted(order),
                  "the wrapper body is assembled as %s: declarations/conversions, the call, copy-out (post_call), release "
                  "(final), return must come in this order - a result released in `final` before post_call is copied from "
                  "freed memory" % " + ".join(names), wc.loc(a), sample=dict(order=names))
    n = 0
    for key, h in sorted(helpers.c.items()):
        for k, text in tables.helper_sources(h):
            code = templ.strip_c_comments("\n".join(templ.strip_layout(l) for l in text.split("\n")))
            if "{C_memory_dtor_function}(" not in code:
                continue
            # per function body
            for m_ in re.finditer(r"\)\s*\{+", code):
                depth, j = 1, m_.end()
                while j < len(code) and depth:
                    depth += {"{": 1, "}": -1}.get(code[j], 0)
                    j += 1
                body = code[m_.end():j]
                if "{C_memory_dtor_function}(" not in body or re.match(r"\s*\{", body):
                    continue
                n += 1
                before = body[:body.rindex("{C_memory_dtor_function}(")]
                early = re.search(r"\breturn\b", before)
                run.check(R, "whelpers.CHelpers[%s].%s:release-reached#%d" % (key, k, n), early is None,
                          "the helper can return before it calls the memory destructor: on that path the object the "
                          "wrapper owns (e.g. the std::string of an empty result) is never released", "shroud/whelpers.py",
                          sample=dict(helper=key))
                break
    run.floor(R, "copy-and-free helpers", n, 2)


def rule_r10(repo, run, helpers, table):
    R = run.rule("C06.R10", "each release action is looked up by the exact C++ type it deletes; arrays whose unfilled slots a "
                            "destructor may free start zeroed; results created by the wrapper are owned by the caller")
    wc = repo.module("wrapc")
    ci = wc.func("Wrapc.compute_idtor")
    calls = [c for c in ast.walk(ci) if isinstance(c, ast.Call) and (pyflow.call_name(c) or "") == "self.add_capsule_code"]
    ok = False
    why = "add_capsule_code call of compute_idtor not found"
    if len(calls) == 1 and calls[0].args:
        key = calls[0].args[0]
        # the registration key must be the same expression that is formatted into the delete statement
        fm = [k.value for c in ast.walk(ci) if isinstance(c, ast.Call) and isinstance(c.func, ast.Attribute) and c.func.attr == "format"
              for k in c.keywords if k.arg == "cxx_type"]
        ok = bool(fm) and all(ast.unparse(x) == ast.unparse(key) for x in fm)
        why = "the class destructor is registered under `%s` but its code deletes a `%s`: two classes with the same %s share " \
              "one release action (delete through the wrong type)" % (ast.unparse(key), [ast.unparse(x) for x in fm][:1], ast.unparse(key))
    run.check(R, "wrapc.Wrapc.compute_idtor:key", ok, why, wc.loc(ci))
    # pointer arrays released element-wise by a FREE_ function
    n = 0
    for key, h in sorted(helpers.c.items()):
        for k, text in tables.helper_sources(h):
            code = templ.strip_c_comments("\n".join(templ.strip_layout(l) for l in text.split("\n")))
            for m_ in re.finditer(r"char\s*\*\*\s*(\w+)\s*=\s*[^;]*?\b(calloc|malloc)\s*\(", code):
                var, fn = m_.group(1), m_.group(2)
                if not re.search(r"PyCapsule_New\s*\(\s*%s\s*," % var, code):
                    continue
                n += 1
                run.check(R, "whelpers.CHelpers[%s].%s:%s zeroed" % (key, k, var), fn == "calloc",
                          "the array `%s` is handed to a capsule whose destructor frees every slot, but it is allocated with "
                          "malloc: after a conversion error the unfilled slots hold garbage and are passed to free()" % var,
                          "shroud/whelpers.py", sample=dict(helper=key, allocator=fn))
    run.floor(R, "pointer arrays owned by a capsule", n, 1)
    # entries that create the result object (new / copy) give it to the caller
    ne = 0
    for lang in ("c++",):
        for name, e in sorted(table.resolve_all(lang).items()):
            if not name.startswith("c_") or "result" not in name.split("_"):
                continue
            pre = "\n".join(e.lines("pre_call"))
            if re.search(r"=\s*\t?\s*new\b", pre):
                ne += 1
                run.check(R, "statements.fc_statements[%s]:owner" % name, str(e.get("owner") or "") == "caller" or bool(e.get("destructor_name")),
                          "the entry allocates the result with `new` but its owner is %r and it names no destructor: idtor stays 0 and the memory "
                          "destructor never deletes the object the wrapper created" % (e.get("owner"),), table.loc(e.raw),
                          sample=dict(entry=name, owner=str(e.get("owner"))))
    run.floor(R, "result entries that allocate", ne, 2)


NEW_REFERENCE_API = ("PyBool_FromLong", "PyString_FromStringAndSize", "PyString_FromString", "PyArray_SimpleNewFromData",
                     "PyArray_SimpleNew", "PyArray_NewFromDescr", "PyArray_FROM_OTF", "PyArray_FromAny", "PyObject_New",
                     "PyCapsule_New", "{hnamefunc0}", "{hnamefunc1}", "{PY_to_object_idtor_func}", "PyInt_FromLong",
                     "PyFloat_FromDouble", "PyList_New", "Py_BuildValue")


def rule_r11(repo, run):
    R = run.rule("C06.R11", "Python objects a wrapper creates for its return tuple are owned by the tuple: a new reference is "
                            "handed over with \"N\" (or released), a borrowed argument object with \"O\"")
    py = tables.StatementTable(repo, "wrapp", "py_statements")
    wp = repo.module("wrapp")
    new, borrowed, n = [], [], 0
    for name, e in sorted(py.resolve_all("c++").items()):
        if e.get("object_created") is not True:
            continue
        n += 1
        text = " ".join(l.replace("\t", " ") for c in ("post_declare", "post_parse", "pre_call", "post_call") for l in e.lines(c))
        m = re.search(r"\{py_var\}\s*=\s*(?:\{cast_\w+\}[^;]*?\{cast1\})?\s*([A-Za-z_{}0-9]+)\s*\(", text)
        if m is None:
            borrowed.append(name)   # nothing is assigned: the parsed argument object itself goes back
            continue
        run.check(R, "wrapp.py_statements[%s]:creator" % name, m.group(1) in NEW_REFERENCE_API,
                  "object_created entry assigns {py_var} from %s(), which is not in the table of CPython calls known to return "
                  "a new reference" % m.group(1), py.loc(e.raw))
        new.append(name)
        released = any("Py_DECREF({py_var})" in l or "Py_XDECREF({py_var})" in l for l in e.lines("cleanup"))
        if released:
            raise AnalysisError("C06.R11: %s releases its object in cleanup: ownership model out of date" % name)
    run.floor(R, "object_created entries", n, 30)
    io = wp.func("Wrapp.intent_out")
    arms = [i for i in ast.walk(io) if isinstance(i, ast.If) and "object_created" in wp.seg(i.test)]
    if len(arms) != 1:
        raise AnalysisError("C06.R11: object_created arm of Wrapp.intent_out not found")
    fmts = [a.value.value for st in arms[0].body for a in ast.walk(st) if isinstance(a, ast.Assign)
            and pyflow.is_name(a.targets[0], "build_format") and isinstance(a.value, ast.Constant)]
    run.check(R, "wrapp.Wrapp.intent_out:object_created:build_format", fmts == ["N"] or not new,
              "an object the wrapper created (%d entries, e.g. %s) is put into the return tuple with %r: \"O\" takes a second "
              "reference and the wrapper never releases its own - every call leaks the object (a NumPy array with its "
              "capsule, a list, a class instance)" % (len(new), ", ".join(new[:3]), fmts), wp.loc(arms[0]))
    wf = wp.func("Wrapp.wrap_function")
    repl = [c for c in ast.walk(wf) if isinstance(c, ast.Call) and isinstance(c.func, ast.Attribute) and c.func.attr == "_replace"
            and any(k.arg == "format" and isinstance(k.value, ast.Constant) and k.value.value == "O" for k in c.keywords)]
    guarded = [c for c in repl if any("inout" in str(wp.seg(t)) for t, pol in pyflow.dominating_tests(c, stop=wf))]
    # the reference taken for a borrowed object returned *by itself* belongs to the code block the single-value path
    # consumes, and to no block the tuple path consumes ("O" already takes one there)
    single = [i for i in ast.walk(wf) if isinstance(i, ast.If) and "len(build_tuples) == 1" in wp.seg(i.test)]
    if len(single) != 1:
        raise AnalysisError("C06.R11: single-value arm of wrap_function not found")
    def fields_read(stmts, names):
        out = set()
        for st in stmts:
            for a in ast.walk(st):
                if isinstance(a, ast.Attribute) and a.attr in BT_FIELDS and isinstance(a.ctx, ast.Load):
                    base = a.value
                    if isinstance(base, ast.Subscript) and pyflow.is_name(base.value, "build_tuples") or \
                            isinstance(base, ast.Name) and base.id in names:
                        out.add(a.attr)
        return out
    bt = [a for a in ast.walk(wp.tree) if isinstance(a, ast.Assign) and pyflow.is_name(a.targets[0], "BuildTuple")]
    BT_FIELDS = set(pyflow.const_str(bt[0].value.args[1]).split()) if bt else set()
    if not BT_FIELDS:
        raise AnalysisError("C06.R11: BuildTuple field list not found")
    loopvars = set(l.target.id for st in single[0].orelse for l in ast.walk(st) if isinstance(l, ast.For)
                   and isinstance(l.target, ast.Name) and "build_tuples" in wp.seg(l.iter))
    one = fields_read(single[0].body, set()) - {"format", "vargs", "ctorvar"}
    many = fields_read(single[0].orelse, loopvars) - {"format", "vargs", "ctorvar"}
    for c in guarded:
        inc = [k.arg for k in c.keywords if "Py_INCREF" in wp.seg(k.value)]
        run.check(R, "wrapp.Wrapp.wrap_function:borrowed-object:reference-block", bool(inc) and set(inc) <= one - many,
                  "the Py_INCREF for a borrowed argument object is attached to BuildTuple field(s) %s; the single-value return "
                  "consumes %s and the tuple path %s: in a field of the tuple path the lone return is a borrowed reference "
                  "(released while still held) and the tuple gets one reference too many" % (inc, sorted(one), sorted(many)),
                  wp.loc(c))
    run.check(R, "wrapp.Wrapp.wrap_function:borrowed-object:build_format", bool(guarded) or not borrowed or fmts != ["N"],
              "entries %s hand back the argument object parsed with \"O!\" (a borrowed reference): with \"N\" the tuple would "
              "steal the caller's reference - they need \"O\"" % borrowed[:4], wp.loc(wf))


def rule_r12(repo, run):
    R = run.rule("C06.R12", "a Python object that wraps a C++ instance releases it when the object goes away: the extension type has "
                            "a tp_dealloc that calls the release function and tp_free, every object made with PyObject_New gets "
                            "its destructor index, and owner(caller) results are given the index of `delete`")
    wp = repo.module("wrapp")
    wt = wp.func("Wrapp.write_tp_func")
    # functions that every type gets, whatever the YAML `python: type:` list says
    autos = set()
    for l in ast.walk(wt):
        if isinstance(l, ast.For) and isinstance(l.iter, (ast.List, ast.Tuple)) and \
                any("selected.append" in str(wp.seg(st)) for st in l.body):
            autos |= set(pyflow.const_str(e) for e in l.iter.elts)
    for a in ast.walk(wt):
        if isinstance(a, ast.Assign) and pyflow.is_name(a.targets[0], "selected") and isinstance(a.value, ast.List):
            vals = set(pyflow.const_str(e) for e in a.value.elts)
            autos = autos & vals if autos else vals
    run.check(R, "wrapp.Wrapp.write_tp_func:dealloc-always", "dealloc" in autos,
              "tp_dealloc is not among the type functions every extension type gets (%s): CPython calls tp_dealloc, never tp_del, "
              "when the last reference to an instance of these types goes away - the C++ instance of every constructed object "
              "and of every owner(caller) result is leaked" % sorted(x for x in autos if x), wp.loc(wt))
    bodies = {}
    for a in ast.walk(wt):
        if isinstance(a, ast.Assign) and isinstance(a.targets[0], ast.Subscript) and pyflow.is_name(a.targets[0].value, "default_body") \
                and pyflow.const_str(a.targets[0].slice):
            bodies[pyflow.const_str(a.targets[0].slice)] = str(wp.seg(a.value))
    body = bodies.get("dealloc", "")
    ok = False
    if body.startswith("self."):
        fn = wp.func("Wrapp." + body[5:])
        strs = " ".join(x.value for x in ast.walk(fn) if isinstance(x, ast.Constant) and isinstance(x.value, str))
        calls = [pyflow.call_name(c) or "" for c in ast.walk(fn) if isinstance(c, ast.Call)]
        for c in calls:
            if c.startswith("self.tp_"):
                strs += " " + " ".join(x.value for x in ast.walk(wp.func("Wrapp." + c[5:]))
                                       if isinstance(x, ast.Constant) and isinstance(x.value, str))
        ok = "{PY_release_memory_function}(self->{PY_type_dtor}" in strs and "tp_free" in strs
    run.check(R, "wrapp.Wrapp.write_tp_func:dealloc-body", ok,
              "the default body of tp_dealloc must release the C++ instance through {PY_release_memory_function}(self->"
              "{PY_type_dtor}, ...) and then free the Python object with tp_free", wp.loc(wt))
    # PyObject_New leaves the object uninitialised
    py = tables.StatementTable(repo, "wrapp", "py_statements")
    n = 0
    for name, e in sorted(py.resolve_all("c++").items()):
        code = [l for c in ("post_call", "post_parse", "pre_call", "call") for l in e.lines(c)]
        if not any("PyObject_New(" in l for l in code):
            continue
        n += 1
        text = " ".join(code)
        run.check(R, "wrapp.py_statements[%s]:idtor" % name, "->{PY_type_dtor} =" in text and "->{PY_type_obj} =" in text,
                  "the entry creates its object with PyObject_New, which does not initialise it, and never assigns "
                  "->{PY_type_dtor}: tp_dealloc indexes the destructor table with whatever the memory contained", py.loc(e.raw))
    run.floor(R, "entries that create an instance object", n, 3)
    pr = wp.func("Wrapp.process_function_result")
    regs = [c for c in ast.walk(pr) if isinstance(c, ast.Call) and (pyflow.call_name(c) or "").endswith("add_capsule_code")]
    okr = any(any("owner" in str(wp.seg(t)) and "caller" in str(wp.seg(t)) and pol for t, pol in pyflow.dominating_tests(c, stop=pr))
              and any("delete" in (x.value if isinstance(x.value, str) else "") for x in ast.walk(c) if isinstance(x, ast.Constant))
              for c in regs)
    run.check(R, "wrapp.Wrapp.process_function_result:owner-caller", okr,
              "a class result with +owner(caller) must be given the index of a destructor that deletes it (add_capsule_code "
              "under a test of the owner attribute): otherwise the instance the library hands over is never released",
              wp.loc(pr))


def rule_r13(repo, run, helpers):
    R = run.rule("C06.R13", "a conversion helper does not release what it was lent: an object the helper did not create or "
                            "receive from a call of its own (that is, one of its `PyObject *` parameters, a borrowed reference) "
                            "is never Py_DECREF'ed by it")
    n = 0
    for key, h in sorted(helpers.c.items()):
        for kk, src in tables.helper_sources(h):
            flat = re.sub(r"\s+", " ", src)
            for m in re.finditer(r"Py_X?DECREF\(\s*([A-Za-z_]\w*)\s*\)", flat):
                name = m.group(1)
                n += 1
                # the helper owns what it assigned itself: `name = f(...)`, `PyObject *name = ...`, `T *name;` + later assignment
                own = re.search(r"(?<![\w.>])%s\s*=[^=]" % re.escape(name), flat) is not None
                run.check(R, "whelpers.CHelpers[%s].%s:borrowed[%s]" % (key, kk, name), own,
                          "the helper calls %s, but never assigns `%s`: it is a parameter, i.e. the caller's (borrowed) reference "
                          "- every failed conversion takes one reference away from the caller's object (crash when it reaches "
                          "zero)" % (m.group(0), name), "shroud/whelpers.py")
    run.floor(R, "Py_DECREF sites in helpers", n, 10)
    # ... and what a converter keeps (value->dataobj = obj) is a reference of its own: the wrapper releases dataobj later
    from checks import c03
    from sa.report import import_rules
    import_rules(run, R, c03, repo, {"C03.R11"}, only=lambda c: "dataobj" in c)


def rule_r14(repo, run):
    R = run.rule("C06.R14", "the function that releases wrapped memory dispatches on the destructor index as soon as one destructor "
                            "besides the reserved entries exists, and the owner a user writes (+owner(caller)) takes precedence "
                            "over the owner a statement group states for its own temporaries")
    wc = repo.module("wrapc")
    reserved = [c for c in ast.walk(wc.tree) if isinstance(c, ast.Call) and (pyflow.call_name(c) or "") == "self.add_capsule_code"
                and c.args and (pyflow.const_str(c.args[0]) or "").startswith("--")]
    wcc = wc.func("Wrapc.write_capsule_code")
    tests = [i for i in ast.walk(wcc) if isinstance(i, ast.If) and isinstance(i.test, ast.Compare)
             and "len(self.capsule_order)" in ast.unparse(i.test.left) and isinstance(i.test.comparators[0], ast.Constant)]
    if not reserved or not tests:
        raise AnalysisError("C06.R14: reserved capsule entries / the switch test of write_capsule_code not found")
    t = tests[0].test
    k = t.comparators[0].value
    need = len(reserved)
    op = type(t.ops[0]).__name__
    ok = (op == "Gt" and k == need) or (op == "GtE" and k == need + 1)
    run.check(R, "wrapc.Wrapc.write_capsule_code:switch-threshold", ok,
              "`%s` with %d reserved entr%s (%s): a library with exactly one releasable type gets a memory destructor without the "
              "`switch (cap->idtor)`, nothing is ever freed" % (ast.unparse(t), need, "y" if need == 1 else "ies",
                                                                 ", ".join(pyflow.const_str(c.args[0]) for c in reserved)), wc.loc(tests[0]))
    fi = wc.func("Wrapc.find_idtor")
    uses = [a for a in ast.walk(fi) if isinstance(a, ast.Assign) and pyflow.is_name(a.targets[0], "owner")
            and "intent_blk.owner" in ast.unparse(a.value)]
    if not uses:
        raise AnalysisError("C06.R14: find_idtor no longer takes an owner from the statement group")
    for a in uses:
        atoms = pyflow.path_atoms(a, stop=fi, seg=ast.unparse)
        ok = any(("attrs['owner']" in t_ or 'attrs["owner"]' in t_) and not pol for t_, pol in atoms)
        run.check(R, "wrapc.Wrapc.find_idtor:attribute-before-statement-owner", ok,
                  "the owner of the statement group is taken without having seen that the declaration has no +owner attribute "
                  "(every group inherits owner=\"library\"): `Pt *clone() +owner(caller)` is returned with idtor 0 and never "
                  "released", wc.loc(a))



def rule_r15(repo, run, table):
    R = run.rule("C06.R15", "a clause that walks a packed array of fixed-length strings (`P += {c_var_len}` per step) takes as many "
                            "steps as the array has elements ({c_var_size}): the character length is the stride, never the count")
    n = 0
    for name, e in sorted(table.resolve_all("c++").items()):
        for clause in ("pre_call", "post_call"):
            text = "\n".join(e.lines(clause))
            strides = re.findall(r"(\w+)\s*\+=\s*\{(c_var_len|c_var_size)\}", text)
            if not strides:
                continue
            loops = re.findall(r"for\s*\(.*?;\s*(\S+?)\s*<\s*(\S+?)\s*;", text)
            for idx, bound in loops:
                n += 1
                # the first assignment of the bound
                mo = re.search(r"%s\s*=\s*([^;,]+)[;,]" % re.escape(bound), text)
                rhs = mo.group(1) if mo else ""
                stride_fields = set(f for p_, f in strides)
                count_fields = set(re.findall(r"\{(c_var_len|c_var_size)\}", rhs))
                run.check(R, "fc_statements[%s].%s:steps" % (name, clause),
                          bool(count_fields) and not (count_fields & stride_fields) and stride_fields == {"c_var_len"},
                          "the loop runs to `%s = %s` and the pointer advances by %s: the number of steps must be the number of "
                          "elements ({c_var_size}) and the stride the character length ({c_var_len}), else the loop reads or "
                          "writes behind the caller's array" % (bound, rhs.strip(), sorted(stride_fields)), table.loc(e.raw))
    run.floor(R, "loops over packed string arrays in the statements", n, 2)



def _dangling_at_return(lines):
    """walk the lines of a clause (blocks are `... {{+` / `-}}`): the fields released with Py_XDECREF / Py_DECREF and not
    assigned since, at each `return`"""
    out = []
    stack = []
    dangling = set()
    for raw in lines:
        for line in raw.split("\n"):
            t = line.strip()
            closes = t.startswith("-}}") or t.startswith("}}")
            if closes and stack:
                entry, returned = stack.pop()
                dangling = set(entry) if returned else (set(entry) | dangling)
                t = t.lstrip("-").lstrip("}").strip()
                if t.startswith("else"):
                    stack.append((set(entry), False))
                    dangling = set(entry)
                    continue
            mo = re.match(r"Py_X?DECREF\(\s*(\{\w+\})\s*\)\s*;", t)
            if mo:
                dangling.add(mo.group(1))
            mo = re.match(r"(\{\w+\})\s*=[^=]", t)
            if mo:
                dangling.discard(mo.group(1))
            if re.match(r"return\b", t):
                if dangling:
                    out.append((t, sorted(dangling)))
                if stack:
                    stack[-1] = (stack[-1][0], True)
            if t.endswith("{{+") or t.endswith("{{"):
                stack.append((set(dangling), False))
    return out


def rule_r16(repo, run, T):
    R = run.rule("C06.R16", "a setter that drops its reference to the object that owns a member's memory (Py_XDECREF of a field of "
                            "the struct object) stores a new value or NULL in that field on every way out: a stale pointer would "
                            "be released again by the next assignment or by tp_dealloc")
    table = T
    n = 0
    for name, e in sorted(table.resolve_all("c++").items()):
        for clause in ("setter",):
            lines = e.lines(clause)
            if not any("DECREF" in l for l in lines):
                continue
            n += 1
            bad = _dangling_at_return(lines)
            run.check(R, "py_statements[%s].%s:released-then-cleared" % (name, clause), not bad,
                      "at `%s` the field(s) %s were released and not assigned again: the object keeps a pointer to an object it "
                      "no longer owns" % (bad[0] if bad else ("", ""))[:2], table.loc(e.raw))
    run.floor(R, "setter clauses that release a field", n, 4)



def rule_r17(repo, run, helpers):
    R = run.rule("C06.R17", "a helper that is given the index of the destructor of the object it describes (`int idtor`) records "
                            "object and index in the capsule on every path: what is not recorded is never released")
    n = 0
    for key, h in sorted(helpers.c.items()):
        for kk, src in tables.helper_sources(h):
            if not re.search(r"\bint\s+idtor\b\s*[,)]", src):
                continue
            n += 1
            depth, base = 0, None
            uncond = {"idtor": False, "addr": False}
            arms = []          # per if/else chain at base depth: list of sets
            cur = None
            for line in src.split("\n"):
                t = line.strip()
                opens = t.count("{") - t.count("{{") * 2 + t.count("{{")
                closes = t.count("}") - t.count("}}") * 2 + t.count("}}")
                if base is None:
                    if "idtor" in t and "(" in t:
                        base = 0
                        depth = 0
                    else:
                        continue
                d0 = depth
                if t.startswith("-") or t.startswith("}"):
                    d0 = depth - 1
                what = None
                if re.search(r"cxx\.idtor\s*=\s*idtor\s*;", t):
                    what = "idtor"
                elif re.search(r"cxx\.addr\s*=\s*(?!NULL|nullptr|0\b)", t):
                    what = "addr"
                if what:
                    if d0 <= 1:
                        uncond[what] = True
                    elif cur is not None:
                        cur.add(what)
                if d0 == 1 and re.search(r"\bif\s*\(", t):
                    arms.append([set()])
                    cur = arms[-1][-1]
                elif d0 == 1 and re.search(r"\belse\b", t) and arms:
                    arms[-1].append(set())
                    cur = arms[-1][-1]
                depth += opens - closes
            for what in ("idtor", "addr"):
                every_arm = any(len(chain) >= 2 and all(what in a for a in chain) for chain in arms)
                run.check(R, "whelpers.CHelpers[%s].%s:records-%s" % (key, kk, what), uncond[what] or every_arm,
                          "`cxx.%s` is not assigned on every path (only under a condition): for the inputs that take the other path "
                          "the capsule has no owner recorded and the object the wrapper allocated is never deleted" % what,
                          "shroud/whelpers.py")
    run.floor(R, "helpers that take a destructor index", n, 1)


def run(repo, run, tier):
    tables.check_model_assumptions(repo)
    table = tables.StatementTable(repo, "statements", "fc_statements")
    helpers = tables.build_helper_table(repo)
    rule_r1(repo, run, table)
    rule_r2(repo, run, table)
    rule_r3(repo, run)
    rule_r4(repo, run, table, helpers)
    # R5: bounds proofs of the helper bodies (shared engine with C10.R1)
    from checks import c10
    R5 = run.rule("C06.R5", "no wrapper helper reads or writes outside the buffers it was given (bounds proofs, see C10.R1)")
    sub = type(run)(run.prop, run.tier, write=False, known={"findings": [], "fixed": []})
    c10.rule_r1(repo, sub, helpers)
    # only the memory-safety part: text-conversion conventions (blank scan, blank fill, NUL placement)
    # belong to C10 and do not affect which memory is touched
    def safety(c):
        return not c.endswith((":blank-scan", ":blank-fill", ":no-NUL-in-dest", ":element-pointer"))
    for v in sub.violations:
        if safety(v["construct"]):
            run.fail(R5, v["construct"].replace("C10", "C06"), v["message"], v["loc"])
    failed = set(v["construct"] for v in sub.violations)
    kept = [c for (rr, c) in sub.nontrivial if safety(c) and c not in failed]
    run.rules[R5]["obligations"] += len(kept)
    run.rules[R5]["discharged"] += len(kept)
    run.nontrivial.update(("C06.R5", c) for c in kept)
    run.samples.extend([dict(s, rule="C06.R5") for s in sub.samples[:2]])
    # R5 (call sites): the temporaries handed to the library are as large as the library may write
    sub2 = type(run)(run.prop, run.tier, write=False, known={"findings": [], "fixed": []})
    c10.rule_r2(repo, sub2, table)
    for v in sub2.violations:
        if "ShroudStrAlloc(" in v["construct"] or "ShroudStrArrayAlloc(" in v["construct"]:
            run.fail(R5, v["construct"], v["message"], v["loc"])
    kept = [c for (rr, c) in sub2.nontrivial if ("ShroudStrAlloc(" in c or "ShroudStrArrayAlloc(" in c)
            and c not in set(v["construct"] for v in sub2.violations)]
    run.rules[R5]["obligations"] += len(kept)
    run.rules[R5]["discharged"] += len(kept)
    run.nontrivial.update(("C06.R5", c) for c in kept)
    rule_r6(repo, run)
    rule_r7(repo, run)
    rule_r8(repo, run)
    rule_r9(repo, run, helpers)
    rule_r10(repo, run, helpers, table)
    rule_r11(repo, run)
    rule_r12(repo, run)
    rule_r13(repo, run, helpers)
    rule_r14(repo, run)
    rule_r15(repo, run, table)
    from sa import tables as _t
    rule_r16(repo, run, _t.StatementTable(repo, "wrapp", "py_statements"))
    rule_r17(repo, run, helpers)
