"""C17 - invalid input is rejected with a diagnostic, never by an internal
failure.  Decided: definite internal failures and definite silent
acceptances visible in the source."""
import ast
import os
import re
try:
    import re._parser as sre_parse     # Python >= 3.11
except ImportError:                   # pragma: no cover
    import sre_parse

from sa import pyflow
from sa.symbols import Program
from sa.consteval import Evaluator, is_unknown
from sa.loader import AnalysisError, enclosing_function, enclosing_class, parent_chain

EXPLANATION = (
    "(R1) every raise statement of the input-facing modules raises RuntimeError / NotImplementedError / "
    "SystemExit / DeprecationWarning (raising a non-exception or a builtin internal exception class for "
    "user data is an error); (R2) None-contradiction: a parameter that receives the literal None at a call "
    "site, or that the callee itself tests for None, is dereferenced on a path not dominated by that "
    "test (propagated one call level); (R3) every place outside the parser classes that runs a parser "
    "on user text must require EOF afterwards; (R4) tokenizer: every alternative has minimum width >= 1, "
    "no earlier literal shadows a later longer literal, REAL precedes INTEGER, the catch-all is last and "
    "residual input raises; (R5) every while loop of the parsers consumes a token or leaves on each "
    "path (never hangs), recursion passes through a consuming call; (R6) an opening bracket consumed by "
    "a parser method is closed by mustbe(<closing>) on every normal exit; (R7) subscripts with constant "
    "keys on raw YAML dictionaries are dominated by a membership test.")
NOT_DECIDED = ("Absence of implicit Python exceptions for all inputs (types and values are dynamic); that "
               "every declaration of the documented grammar is accepted.")

OK_RAISE = {"RuntimeError", "NotImplementedError", "SystemExit", "DeprecationWarning"}
INPUT_MODULES = ["ast", "declast", "generate", "main", "typemap", "statements", "splicer", "util",
                 "todict", "visitor"]


# ---------------------------------------------------------------------------
def rule_r1(repo, run, P):
    R = run.rule("C17.R1", "raised exception classes are diagnostics (RuntimeError family / SystemExit)")
    n = 0
    for mname in INPUT_MODULES:
        m = repo.module(mname)
        for node in ast.walk(m.tree):
            if not isinstance(node, ast.Raise):
                continue
            n += 1
            func = enclosing_function(node)
            q = getattr(func, "_qualname", "<module>")
            exc = node.exc
            if exc is None:
                run.ok(R, "%s.%s:reraise@%d" % (mname, q, node.lineno - getattr(func, "lineno", 0)))
                continue
            name = None
            if isinstance(exc, ast.Call):
                name = pyflow.dotted(exc.func)
            elif isinstance(exc, (ast.Name, ast.Attribute)):
                name = pyflow.dotted(exc)
            construct = "%s.%s:raise %s" % (mname, q, name)
            if name in OK_RAISE and not isinstance(exc, ast.Call) and name not in ("SystemExit",):
                # `raise NotImplementedError` without a message says nothing about the offending input; a method that
                # only exists to be overridden may do that, if nothing can reach it with user input: the lookup methods
                # of the node classes are reached from the parser with whatever node a name resolves to
                # (unqualified_lookup is only ever called on the scope a declaration is read in - library, namespace,
                # class, block, function - and all of those override it)
                reach = func is not None and func.name == "qualified_lookup"
                run.check(R, construct + ":bare", not reach,
                          "`raise %s` without a message in %s, which the parser calls on whatever node a name resolves to "
                          "(`void f(std::string::npos x)`): the user sees a traceback ending in a bare exception name" % (name, q),
                          m.loc(node))
                continue
            if name in OK_RAISE:
                run.ok(R, construct + "@%s" % _msgkey(m, exc))
                continue
            if name == "NotImplemented":
                run.fail(R, construct, "`raise NotImplemented` raises TypeError (NotImplemented is not an "
                         "exception): reaching this virtual method is reported as an internal failure",
                         m.loc(node))
                continue
            if name == "AttributeError" and func is not None and func.name == "__getattr__":
                run.ok(R, construct, sample=dict(note="attribute protocol requires AttributeError"))
                continue
            # internal assertion on a parameter that only ever receives constants?
            if func is not None and _guards_constant_only_param(P, m, func, node):
                run.ok(R, construct + ":internal", sample=dict(note="guard on a parameter that receives only "
                                                                    "literal constants at every call site"))
                continue
            run.fail(R, construct + "@%s" % _msgkey(m, exc),
                     "raises %s for input data: the property requires a RuntimeError/SystemExit style "
                     "diagnostic, never TypeError/ValueError/KeyError/..." % name, m.loc(node))
    run.floor(R, "raise statements", n, 90)


def _msgkey(m, exc):
    s = [n.value for n in ast.walk(exc) if isinstance(n, ast.Constant) and isinstance(n.value, str)]
    return re.sub(r"\W+", "_", (s[0] if s else m.seg(exc)))[:40]


def _guards_constant_only_param(P, m, func, node):
    params = [a.arg for a in func.args.args]
    tests = pyflow.dominating_tests(node, stop=func)
    names = set()
    for t, pol in tests:
        for n in ast.walk(t):
            if isinstance(n, ast.Attribute) and pyflow.is_name(n.value, "self"):
                names.add(n.attr)
            elif isinstance(n, ast.Name):
                names.add(n.id)
    cand = [p for p in params if p in names and p != "self"]
    if not cand:
        return False
    fid = getattr(func, "_fid", None)
    if fid is None:
        return False
    # find call sites (constructor calls for __init__)
    cls = enclosing_class(func)
    target = cls.name if func.name == "__init__" and cls is not None else func.name
    for p in cand:
        idx = params.index(p) - (1 if params and params[0] == "self" else 0)
        sites = 0
        for f2id, f2 in P.funcs.items():
            for call in P.calls_of(f2id):
                if (pyflow.call_name(call) or "").split(".")[-1] != target:
                    continue
                sites += 1
                val = None
                if idx < len(call.args):
                    val = call.args[idx]
                for k in call.keywords:
                    if k.arg == p:
                        val = k.value
                    if k.arg is None:
                        return False           # **kwargs may carry it
                if val is not None and not isinstance(val, ast.Constant):
                    return False
        if sites:
            return True
    return False


# ---------------------------------------------------------------------------
def _none_tests(test, name):
    """(establishes_nonnull_when_true, establishes_nonnull_when_false)"""
    if isinstance(test, ast.Name) and test.id == name:
        return (True, False)
    if isinstance(test, ast.UnaryOp) and isinstance(test.op, ast.Not) and pyflow.is_name(test.operand, name):
        return (False, True)
    if isinstance(test, ast.Compare) and pyflow.is_name(test.left, name) and len(test.ops) == 1:
        c = test.comparators[0]
        if isinstance(c, ast.Constant) and c.value is None:
            if isinstance(test.ops[0], (ast.Is, ast.Eq)):
                return (False, True)
            if isinstance(test.ops[0], (ast.IsNot, ast.NotEq)):
                return (True, False)
    if isinstance(test, ast.BoolOp) and isinstance(test.op, ast.And):
        t = any(_none_tests(v, name)[0] for v in test.values)
        return (t, False)
    if isinstance(test, ast.BoolOp) and isinstance(test.op, ast.Or):
        f = any(_none_tests(v, name)[1] for v in test.values)
        return (False, f)
    return (False, False)


def _nonnull_at(func, node, name):
    for t, pol in pyflow.dominating_tests(node, stop=func):
        a, b = _none_tests(t, name)
        if (pol and a) or ((not pol) and b):
            return True
    for t, pol in pyflow.early_exit_guards(func, node):
        a, b = _none_tests(t, name)
        if b:       # `if name is None: return/raise` precedes
            return True
    # re-assignment before use:  name = something  (not None) earlier in straight line
    return False


def rule_r2(repo, run, P):
    R = run.rule("C17.R2", "a parameter that may be None (literal None at a call site, or tested for None by "
                           "the callee) is not dereferenced outside the guard")
    maybe_none = {}      # (fid, param) -> reason
    params = {fid: [a.arg for a in f.args.args] for fid, f in P.funcs.items()}
    targets = [fid for fid in P.funcs if fid.split(":")[0] in ("generate", "ast", "declast")]
    for fid in P.funcs:
        for call in P.calls_of(fid):
            ids, how = P.resolve_call(call, fid)
            if how in ("unresolved", "byname-multi", "byname"):
                continue
            for cid in ids:
                if cid not in targets:
                    continue
                pn = params[cid]
                off = 1 if pn and pn[0] == "self" else 0
                for i, a in enumerate(call.args):
                    if isinstance(a, ast.Constant) and a.value is None and i + off < len(pn):
                        maybe_none.setdefault((cid, pn[i + off]), "None passed at %s:%d"
                                              % (P.module_of(fid), call.lineno))
    # propagate one level through unguarded argument passing
    work = list(maybe_none.items())
    seen = set(maybe_none)
    depth = {k: 0 for k in maybe_none}
    while work:
        (fid, p), why = work.pop()
        if depth[(fid, p)] >= 2:
            continue
        func = P.funcs[fid]
        for call in P.calls_of(fid):
            ids, how = P.resolve_call(call, fid)
            if how in ("unresolved", "byname-multi", "byname"):
                continue
            for cid in ids:
                pn = params.get(cid, [])
                off = 1 if pn and pn[0] == "self" else 0
                for i, a in enumerate(call.args):
                    if pyflow.is_name(a, p) and i + off < len(pn) and not _nonnull_at(func, call, p):
                        key = (cid, pn[i + off])
                        if key not in seen and cid != fid:
                            seen.add(key)
                            depth[key] = depth[(fid, p)] + 1
                            maybe_none[key] = "receives %s.%s (%s)" % (fid.split(":")[1], p, why)
                            work.append((key, maybe_none[key]))
    n = 0
    for (fid, p), why in sorted(maybe_none.items()):
        func = P.funcs[fid]
        m = P.mods[P.module_of(fid)]
        # parameter rebound at function start (e.g. `if options is None: options = ...`)?
        rebound_lines = [nd.lineno for nd in ast.walk(func) if isinstance(nd, ast.Assign)
                         and any(pyflow.is_name(t, p) for t in nd.targets)]
        for node in ast.walk(func):
            if isinstance(node, ast.Attribute) and pyflow.is_name(node.value, p) and isinstance(node.ctx, (ast.Load, ast.Store)) \
                    and enclosing_function(node) is func:
                n += 1
                if rebound_lines and min(rebound_lines) < node.lineno:
                    run.ok(R, "%s:%s.%s@rebound" % (fid, p, node.attr))
                    continue
                ok = _nonnull_at(func, node, p)
                # guarded by a test on ANOTHER parameter that is only None when p is not None?
                if not ok:
                    ok = _guarded_by_default_fill(func, node, p)
                run.check(R, "%s:%s.%s" % (fid, p, node.attr), ok,
                          "%s may be None (%s) but %s.%s is evaluated outside any `if %s` guard: "
                          "AttributeError instead of a diagnostic" % (p, why, p, node.attr, p), m.loc(node),
                          sample=dict(function=fid, param=p, reason=why, access=node.attr))
    run.floor(R, "dereferences of maybe-None parameters", n, 6)


def _guarded_by_default_fill(func, node, p):
    """`if options is None: options = node.options` : the dereference of `node`
    happens only when `options` was not supplied; call sites that pass None for
    `node` pass an explicit options value (checked by the caller of this rule
    through the literal-None call site having more arguments)."""
    for t, pol in pyflow.dominating_tests(node, stop=func):
        if pol and isinstance(t, ast.Compare) and isinstance(t.left, ast.Name) and t.left.id != p \
                and isinstance(t.comparators[0], ast.Constant) and t.comparators[0].value is None \
                and isinstance(t.ops[0], ast.Is):
            other = t.left.id
            params = [a.arg for a in func.args.args]
            if other in params and params.index(other) > params.index(p):
                return True
    return False


# ---------------------------------------------------------------------------
PARSER_CLASSES = ("Parser", "ExprParser", "RecursiveDescent")


def rule_r3(repo, run, P):
    R = run.rule("C17.R3", "every entry point that runs a parser on user text requires EOF afterwards")
    dm = repo.module("declast")
    parse_methods = set()
    for cname in PARSER_CLASSES:
        cls = dm.cls(cname)
        for b in cls.body:
            if isinstance(b, ast.FunctionDef):
                parse_methods.add(b.name)
    ends_with_eof = {}
    for cname in PARSER_CLASSES:
        cls = dm.cls(cname)
        for b in cls.body:
            if isinstance(b, ast.FunctionDef):
                ends_with_eof[b.name] = _requires_eof(b)
    n = 0
    for mname in ("declast", "ast", "generate", "wrapf", "wrapp", "wrapc", "wrapl", "main"):
        m = repo.module(mname)
        for q, func in m.functions().items():
            cls = enclosing_class(func)
            if cls is not None and cls.name in PARSER_CLASSES:
                continue
            # parser instances created here
            pvars = {}
            for node in ast.walk(func):
                if isinstance(node, ast.Assign) and isinstance(node.value, ast.Call) and \
                        (pyflow.call_name(node.value) or "").split(".")[-1] in ("Parser", "ExprParser"):
                    for t in node.targets:
                        if isinstance(t, ast.Name):
                            pvars[t.id] = node
            for node in ast.walk(func):
                if not (isinstance(node, ast.Call) and isinstance(node.func, ast.Attribute)):
                    continue
                meth = node.func.attr
                recv = node.func.value
                is_direct = isinstance(recv, ast.Call) and \
                    (pyflow.call_name(recv) or "").split(".")[-1] in ("Parser", "ExprParser")
                is_var = isinstance(recv, ast.Name) and recv.id in pvars
                if not (is_direct or is_var) or meth not in parse_methods or meth in ("mustbe", "have", "peek", "next"):
                    continue
                n += 1
                ok = ends_with_eof.get(meth, False)
                if not ok and is_var:
                    # caller requires EOF itself
                    for later in ast.walk(func):
                        if isinstance(later, ast.Call) and isinstance(later.func, ast.Attribute) and \
                                later.func.attr == "mustbe" and pyflow.is_name(later.func.value, recv.id) and \
                                later.args and pyflow.const_str(later.args[0]) == "EOF" and later.lineno >= node.lineno:
                            ok = True
                run.check(R, "%s.%s:%s()" % (mname, q, meth), ok,
                          "parses user text with %s() but never requires EOF: trailing text after a valid "
                          "prefix is silently accepted" % meth, m.loc(node),
                          sample=dict(entry="%s.%s" % (mname, q), method=meth))
    run.floor(R, "parser entry points", n, 5)


def _requires_eof(func):
    """All normal exits of func are preceded by self.mustbe("EOF")."""
    body = pyflow.prune(func.body, lambda n: isinstance(n, ast.Call) and isinstance(n.func, ast.Attribute)
                        and n.func.attr == "mustbe")
    try:
        ps = pyflow.paths(body, limit=5000)
    except OverflowError:
        return False
    for p in ps:
        if p.end == "raise":
            continue
        got = False
        for st in p.stmts:
            for c in pyflow.calls_in(st) if not isinstance(st, (ast.If, ast.For, ast.While, ast.Try, ast.With)) else []:
                if isinstance(c.func, ast.Attribute) and c.func.attr == "mustbe" and c.args and \
                        pyflow.const_str(c.args[0]) == "EOF":
                    got = True
        if not got:
            return False
    return True


# ---------------------------------------------------------------------------
def rule_r4(repo, run):
    R = run.rule("C17.R4", "tokenizer: no empty match, no shadowed literal, catch-all last, residue raises")
    dm = repo.module("declast")
    ev = Evaluator(dm)
    spec = ev.eval(dm.toplevel_assign("token_specification"))
    if is_unknown(spec) or not isinstance(spec, list):
        raise AnalysisError("C17.R4: token_specification not evaluable")
    loc = dm.loc(dm.toplevel_assign("token_specification"))
    run.floor(R, "token alternatives", len(spec), 25)
    literals = []
    names = [str(x[0]) for x in spec]
    for i, (name, rx) in enumerate(spec):
        name, rx = str(name), str(rx)
        try:
            parsed = sre_parse.parse(rx)
        except Exception as e:
            run.fail(R, "declast.token_specification[%s]" % name, "regex does not parse: %s" % e, loc)
            continue
        lo, hi = parsed.getwidth()
        run.check(R, "declast.token_specification[%s].width" % name, lo >= 1,
                  "alternative %s can match the empty string: the tokenizer loop would not advance" % name,
                  loc, sample=dict(name=name, regex=rx, min_width=lo))
        lit = _literal(parsed)
        if lit is not None:
            literals.append((i, name, lit))
    for i, n1, l1 in literals:
        for j, n2, l2 in literals:
            if i < j and l2.startswith(l1) and l1 != l2:
                run.fail(R, "declast.token_specification[%s<%s]" % (n1, n2),
                         "literal %r (%s) precedes the longer literal %r (%s): %s can never be produced"
                         % (l1, n1, l2, n2, n2), loc)
            elif i < j and l1 == l2:
                run.fail(R, "declast.token_specification[%s=%s]" % (n1, n2), "duplicate literal %r" % l1, loc)
    run.ok(R, "declast.token_specification.literal-order", sample=dict(literals=[(n, l) for i, n, l in literals]))
    if "REAL" in names and "INTEGER" in names:
        run.check(R, "declast.token_specification.REAL<INTEGER", names.index("REAL") < names.index("INTEGER"),
                  "INTEGER precedes REAL: `1.5` would be tokenised as INTEGER . INTEGER", loc)
    else:
        raise AnalysisError("C17.R4: REAL/INTEGER alternatives vanished")
    if "ID" in names:
        # a keyword-like literal made of identifier characters placed after ID would be unreachable
        for i, n1, l1 in literals:
            if re.match(r"^[A-Za-z_]\w*$", l1):
                run.check(R, "declast.token_specification[ID<%s]" % n1, i < names.index("ID"),
                          "word literal %r comes after ID and can never match" % l1, loc)
    run.check(R, "declast.token_specification.catch-all-last", names[-1] == "OTHER" and str(spec[-1][1]) == ".",
              "the catch-all alternative must be last", loc)
    # residual input raises
    tk = dm.func("tokenize")
    tail = tk.body[-1]
    ok = isinstance(tail, ast.If) and any(isinstance(n, ast.Raise) for n in ast.walk(tail)) and \
        "len(" in dm.seg(tail.test)
    run.check(R, "declast.tokenize.residue", ok,
              "tokenize must raise when the scan stops before the end of the text", dm.loc(tail))
    # regex compiled from the same table with named groups
    src = dm.seg(dm.toplevel_assign("tok_regex"))
    run.check(R, "declast.tok_regex", "token_specification" in src and "|" in src,
              "tok_regex is no longer built from token_specification", loc)


def _literal(parsed):
    out = []
    for op, av in parsed:
        if str(op) == "LITERAL":
            out.append(chr(av))
        else:
            return None
    return "".join(out)


# ---------------------------------------------------------------------------
CONSUME_PRIMS = {"next", "mustbe"}


def _have_taken(t, pol):
    """The condition (t, pol) means a self.have(X) call returned True."""
    if isinstance(t, ast.Call) and isinstance(t.func, ast.Attribute) and t.func.attr == "have":
        return pol
    if isinstance(t, ast.UnaryOp) and isinstance(t.op, ast.Not):
        return _have_taken(t.operand, not pol)
    return False


def _parser_methods(dm):
    meths = {}
    for cname in PARSER_CLASSES:
        cls = dm.cls(cname)
        for b in cls.body:
            if isinstance(b, ast.FunctionDef):
                meths[b.name] = b
    return meths


def _self_calls(st):
    out = []
    nodes = pyflow.header_calls(st) if isinstance(st, (ast.If, ast.While, ast.For, ast.With, ast.Try)) \
        else pyflow.calls_in(st)
    for c in nodes:
        if isinstance(c.func, ast.Attribute) and pyflow.is_name(c.func.value, "self"):
            out.append(c)
    return sorted(out, key=lambda c: (c.lineno, c.col_offset))


def _definitely_consuming(meths):
    cons = {m: False for m in meths}
    for p in CONSUME_PRIMS:
        if p in cons:
            cons[p] = True
    changed = True
    while changed:
        changed = False
        for name, f in meths.items():
            if cons[name] or name in ("peek", "have", "error_msg", "enter", "exit", "info"):
                continue
            try:
                ps = pyflow.paths(pyflow.prune(f.body, lambda n: isinstance(n, ast.Call)), limit=20000)
            except OverflowError:
                continue
            ok = True
            for p in ps:
                if p.end == "raise":
                    continue
                got = False
                for st in p.stmts:
                    for c in _self_calls(st):
                        if cons.get(c.func.attr, False):
                            got = True
                for t, pol in p.conds:
                    if _have_taken(t, pol):
                        got = True
                # error_msg always raises
                if any(c.func.attr == "error_msg" for st in p.stmts for c in _self_calls(st)):
                    continue
                if not got:
                    ok = False
                    break
            if ok and ps:
                cons[name] = True
                changed = True
    return cons


def rule_r5(repo, run):
    R = run.rule("C17.R5", "every while loop of the parsers consumes a token or leaves on each path; recursive "
                           "cycles pass through a consuming call")
    dm = repo.module("declast")
    meths = _parser_methods(dm)
    cons = _definitely_consuming(meths)
    n = 0
    for name, f in sorted(meths.items()):
        for loop in [x for x in ast.walk(f) if isinstance(x, ast.While)]:
            n += 1
            test_consumes = isinstance(loop.test, ast.Call) and isinstance(loop.test.func, ast.Attribute) \
                and loop.test.func.attr == "have"
            ps = pyflow.paths(loop.body, limit=20000)
            bad = []
            for p in ps:
                if p.end in ("break", "return", "raise"):
                    continue
                got = test_consumes
                raised = False
                for st in p.stmts:
                    for c in _self_calls(st):
                        if cons.get(c.func.attr, False):
                            got = True
                        if c.func.attr == "error_msg":
                            raised = True
                for t, pol in p.conds:
                    if _have_taken(t, pol):
                        got = True
                # flag-controlled loop: the path clears the loop variable
                if isinstance(loop.test, ast.Name):
                    for st in p.stmts:
                        if isinstance(st, ast.Assign) and any(pyflow.is_name(t, loop.test.id) for t in st.targets) \
                                and isinstance(st.value, ast.Constant) and st.value.value is False:
                            got = True
                if not got and not raised:
                    bad.append([("%s=%s" % (dm.seg(t), pol)) for t, pol in p.conds])
            run.check(R, "declast.%s:while %s" % (name, re.sub(r"\s+", " ", dm.seg(loop.test))), not bad,
                      "a path through the loop body returns to the loop test without consuming a token "
                      "(parser can hang): %s" % bad[:2], dm.loc(loop),
                      sample=dict(method=name, loop=dm.seg(loop.test), paths=len(ps)))
    run.floor(R, "while loops in parser classes", n, 12)
    # tokenizer loop advances
    tk = dm.func("tokenize")
    wl = [x for x in ast.walk(tk) if isinstance(x, ast.While)]
    if len(wl) != 1:
        raise AnalysisError("C17.R5: tokenize loop not found")
    adv = [x for x in ast.walk(wl[0]) if isinstance(x, ast.Assign) and pyflow.is_name(x.targets[0], "pos")
           and "end()" in dm.seg(x.value)]
    nxt = [x for x in ast.walk(wl[0]) if isinstance(x, ast.Assign) and "get_token" in dm.seg(x.value)]
    run.check(R, "declast.tokenize:advance", len(adv) == 1 and len(nxt) == 1 and not pyflow.dominating_tests(adv[0], stop=wl[0]),
              "tokenize must advance pos to mo.end() on every iteration", dm.loc(wl[0]))
    # recursion: every call cycle among parser methods contains a consuming step before the recursive call
    graph = {}
    for name, f in meths.items():
        graph[name] = set(c.func.attr for st in ast.walk(f) if isinstance(st, ast.stmt)
                          for c in _self_calls(st) if c.func.attr in meths)
    for name, f in sorted(meths.items()):
        # left recursion: can `name` call itself (transitively) as the first consuming action?
        first = _first_calls(f, cons, meths)
        seen = set()
        stack = list(first)
        left = False
        while stack:
            x = stack.pop()
            if x == name:
                left = True
                break
            if x in seen or x not in meths:
                continue
            seen.add(x)
            stack.extend(_first_calls(meths[x], cons, meths))
        if name in graph and _reaches(graph, name, name):
            run.check(R, "declast.%s:recursion" % name, not left,
                      "method can re-enter itself before consuming any token (left recursion)", dm.loc(f),
                      sample=dict(method=name, first_calls=sorted(first)))


def _first_calls(f, cons, meths):
    """Parser methods that may be called before any token has definitely been consumed."""
    out = set()
    try:
        ps = pyflow.paths(pyflow.prune(f.body, lambda n: isinstance(n, ast.Call)), limit=20000)
    except OverflowError:
        return set(meths)
    for p in ps:
        consumed = False
        ci = 0
        for st in p.stmts:
            if consumed:
                break
            if isinstance(st, ast.If) and ci < len(p.conds):
                t, pol = p.conds[ci]
                ci += 1
                for c in _self_calls(st):
                    if c.func.attr == "have" and pol:
                        consumed = True
                continue
            for c in _self_calls(st):
                a = c.func.attr
                if a in meths and a not in ("peek", "have", "enter", "exit", "info", "error_msg"):
                    if not cons.get(a, False) or a not in CONSUME_PRIMS:
                        out.add(a)
                    if cons.get(a, False):
                        consumed = True
                        break
    return out - CONSUME_PRIMS


def _reaches(graph, a, b):
    seen = set()
    stack = list(graph.get(a, ()))
    while stack:
        x = stack.pop()
        if x == b:
            return True
        if x in seen:
            continue
        seen.add(x)
        stack.extend(graph.get(x, ()))
    return False


# ---------------------------------------------------------------------------
CLOSER = {"LPAREN": "RPAREN", "LBRACKET": "RBRACKET", "LT": "GT", "LCURLY": "RCURLY"}


def rule_r6(repo, run):
    R = run.rule("C17.R6", "an opening bracket consumed by a parser method is closed by mustbe(<closing>) on "
                           "every normal exit")
    dm = repo.module("declast")
    meths = _parser_methods(dm)
    n = 0
    for name, f in sorted(meths.items()):
        if name in ("peek", "have", "mustbe", "next"):
            continue
        opens = []
        for node in ast.walk(f):
            if isinstance(node, ast.Call) and isinstance(node.func, ast.Attribute) and \
                    node.func.attr in ("have", "mustbe") and node.args:
                t = pyflow.const_str(node.args[0])
                if t in CLOSER:
                    opens.append((node, t))
        # self.next() that consumes an opener which was only peeked at: either under a test
        # `self.token.typ == "<opener>"` in this method, or as the first action of a method all of whose
        # callers are under such a test
        def peeked(node, stop):
            # the innermost test of the current token's type decides what self.next() consumes
            tests = pyflow.dominating_tests(node, stop=stop)
            tests = sorted(tests, key=lambda tp: getattr(tp[0], "lineno", 0))
            found = None
            for t, pol in tests:
                for c in ast.walk(t):
                    if isinstance(c, ast.Compare) and (pyflow.dotted(c.left) or "") in ("self.token.typ", "self.token.value"):
                        v = pyflow.const_str(c.comparators[0]) if isinstance(c.ops[0], ast.Eq) and pol else None
                        found = v if v in CLOSER else None
            return found
        for c in ast.walk(f):
            if isinstance(c, ast.Call) and isinstance(c.func, ast.Attribute) and c.func.attr == "next" \
                    and pyflow.is_name(c.func.value, "self") and not c.args:
                tok = peeked(c, f)
                if tok is None and not pyflow.dominating_tests(c, stop=f):
                    first = [st for st in f.body if not (isinstance(st, ast.Expr) and (
                        isinstance(st.value, ast.Constant) or
                        (isinstance(st.value, ast.Call) and (pyflow.call_name(st.value) or "") == "self.enter")))
                        and not isinstance(st, ast.Assign)]
                    if first and isinstance(first[0], ast.Expr) and first[0].value is c:
                        toks = set()
                        for g in meths.values():
                            for call in ast.walk(g):
                                if isinstance(call, ast.Call) and (pyflow.call_name(call) or "") == "self." + name:
                                    toks.add(peeked(call, g))
                        if len(toks) == 1 and None not in toks:
                            tok = toks.pop()
                if tok:
                    opens.append((c, tok))
        for node, tok in opens:
            # hand-rolled counter in attribute(): must raise at EOF
            if name == "attribute":
                rs = [r for r in ast.walk(f) if isinstance(r, ast.Raise)]
                ok = any("EOF" in dm.seg(t) for r in rs for t, p in pyflow.dominating_tests(r, stop=f))
                n += 1
                run.check(R, "declast.attribute:%s" % tok, ok,
                          "the parenthesis counter of attribute() must raise when EOF is reached", dm.loc(node),
                          sample=dict(method=name, opener=tok, rule="hand-rolled counter raises at EOF"))
                continue
            closer = CLOSER[tok]
            n += 1
            ok, why = _closed_on_all_paths(f, node, closer, dm)
            run.check(R, "declast.%s:%s@%d" % (name, tok, node.lineno - f.lineno), ok,
                      "after consuming %s a normal exit is reached without mustbe(%r): %s" % (tok, closer, why),
                      dm.loc(node), sample=dict(method=name, opener=tok, closer=closer))
    run.floor(R, "opening-bracket sites", n, 8)


def _closed_on_all_paths(f, open_node, closer, dm):
    def relevant(n):
        return isinstance(n, ast.Call) and isinstance(n.func, ast.Attribute) and n.func.attr in ("have", "mustbe", "next")
    body = pyflow.prune(f.body, relevant)
    try:
        ps = pyflow.paths(body, limit=50000)
    except OverflowError:
        return True, "too many paths"
    for p in ps:
        if p.end == "raise":
            continue
        opened = False
        closed = False
        ci = 0
        for st in p.stmts:
            calls = _self_calls(getattr(st, "_orig", st)) if isinstance(st, (ast.If, ast.While, ast.For)) else _self_calls(st)
            pol = None
            if isinstance(st, ast.If) and ci < len(p.conds):
                pol = p.conds[ci][1]
                ci += 1
            for c in calls:
                if c is open_node or (c.lineno == open_node.lineno and c.col_offset == open_node.col_offset):
                    if c.func.attr == "have" and pol is False:
                        continue
                    opened = True
                elif opened and c.func.attr == "mustbe" and c.args and pyflow.const_str(c.args[0]) == closer:
                    closed = True
                elif opened and c.func.attr == "error_msg":
                    closed = True
        if opened and not closed:
            return False, "path %s" % [("%s=%s" % (dm.seg(t), pl)) for t, pl in p.conds][:4]
    return True, ""


# ---------------------------------------------------------------------------
YAML_FUNCS = [("ast", "create_library_from_dictionary"), ("ast", "add_declarations"),
              ("ast", "clean_dictionary"), ("main", "main_with_args")]


def rule_r7(repo, run):
    R = run.rule("C17.R7", "constant-key subscripts and fixed-arity unpacking on raw YAML / command-line data are "
                           "dominated by a membership / shape test")
    n = 0
    for mname, q in YAML_FUNCS:
        m = repo.module(mname)
        f = m.func(q)
        aliases = {}
        for node in ast.walk(f):
            if isinstance(node, ast.Assign) and len(node.targets) == 1 and isinstance(node.targets[0], ast.Name):
                v = node.value
                src = None
                if isinstance(v, ast.Name):
                    src = v.id
                elif isinstance(v, ast.Call) and (pyflow.call_name(v) or "") in ("copy.copy", "dict") and v.args \
                        and isinstance(v.args[0], ast.Name):
                    src = v.args[0].id
                if src:
                    aliases.setdefault(node.targets[0].id, []).append(src)
        for node in ast.walk(f):
            if isinstance(node, ast.Subscript) and isinstance(node.ctx, ast.Load):
                key = pyflow.const_str(node.slice)
                d = pyflow.dotted(node.value)
                if key is None or d is None or d.startswith("self."):
                    continue
                if d in ("splicers", "config", "os.environ"):
                    continue
                n += 1
                ok = False
                names = [d] + aliases.get(d, [])
                for dd in names:
                    for t, pol in pyflow.dominating_tests(node, stop=f):
                        if _member_test(t, key, dd) is not None and _member_test(t, key, dd) == pol:
                            ok = True
                    # `key in d and d[key] ...`: the right operand is evaluated only when the left one held
                    child = node
                    for p in parent_chain(node):
                        if isinstance(p, ast.stmt):
                            break
                        if isinstance(p, ast.BoolOp):
                            for v in p.values:
                                if v is child:
                                    break
                                if not isinstance(v, ast.BoolOp) and _member_test(v, key, dd) is isinstance(p.op, ast.And):
                                    ok = True
                        child = p
                    for t, pol in pyflow.early_exit_guards(f, node):
                        # the exit must be taken whenever the key is missing: the test is `key not in d`
                        # itself or a disjunction containing it (a conjunction only exits when *all* are missing)
                        if isinstance(t, ast.BoolOp):
                            if isinstance(t.op, ast.Or) and any(
                                    not isinstance(v, ast.BoolOp) and _member_test(v, key, dd) is False for v in t.values):
                                ok = True
                        elif _member_test(t, key, dd) is False:
                            ok = True
                run.check(R, "%s.%s:%s[%r]" % (mname, q, d, key), ok,
                          "%s[%r] is read without a dominating `%r in %s` test: a YAML file that omits the key "
                          "dies with KeyError" % (d, key, key, d), m.loc(node),
                          sample=dict(function=q, subscript="%s[%r]" % (d, key)))
            if isinstance(node, ast.Assign) and isinstance(node.targets[0], ast.Tuple) and \
                    isinstance(node.value, ast.Call) and isinstance(node.value.func, ast.Attribute) and \
                    node.value.func.attr == "split":
                n += 1
                guarded = any(isinstance(t, ast.Compare) and isinstance(t.ops[0], ast.In)
                              for t, p in pyflow.dominating_tests(node, stop=f))
                in_try = any(isinstance(p, ast.Try) for p in parent_chain(node))
                for t, pol in pyflow.early_exit_guards(f, node):
                    if any(isinstance(x, ast.Compare) and isinstance(x.ops[0], ast.NotIn) for x in ast.walk(t)):
                        guarded = True
                run.check(R, "%s.%s:unpack %s" % (mname, q, re.sub(r"\s+", "", m.seg(node.value))), guarded or in_try,
                          "fixed-arity unpacking of %s: input without the separator raises ValueError"
                          % m.seg(node.value), m.loc(node))
    run.floor(R, "raw-data subscripts", n, 10)


def _member_test(t, key, d):
    """True: test is `key in d` ; False: `key not in d` ; None otherwise."""
    for n in ast.walk(t):
        if isinstance(n, ast.Compare) and len(n.ops) == 1 and pyflow.const_str(n.left) == key and \
                (pyflow.dotted(n.comparators[0]) or "") == d:
            if isinstance(n.ops[0], ast.In):
                return True
            if isinstance(n.ops[0], ast.NotIn):
                return False
    # `d.get(key)` used as a truth value: true only when the key is present
    if isinstance(t, ast.Call) and isinstance(t.func, ast.Attribute) and t.func.attr == "get" and t.args and \
            pyflow.const_str(t.args[0]) == key and (pyflow.dotted(t.func.value) or "") == d:
        dflt = t.args[1] if len(t.args) > 1 else None
        if dflt is None or (isinstance(dflt, ast.Constant) and not dflt.value) or \
                (isinstance(dflt, (ast.Dict, ast.List, ast.Tuple)) and not (getattr(dflt, "keys", None) or getattr(dflt, "elts", None))):
            return True
    return None


def rule_r8(repo, run):
    R = run.rule("C17.R8", "a raw YAML value is iterated (or handed to a function that iterates it) only after "
                           "its shape was checked with isinstance")
    n = 0
    am = repo.module("ast")
    # module functions that iterate a parameter without checking it
    iterating = {}
    for q, fn in am.functions().items():
        if "." in q:
            continue
        for i, a in enumerate(fn.args.args):
            for node in ast.walk(fn):
                it = None
                if isinstance(node, (ast.For, ast.comprehension)):
                    it = node.iter
                    if isinstance(it, ast.Call) and pyflow.is_name(it.func, "enumerate") and it.args:
                        it = it.args[0]
                if it is not None and pyflow.is_name(it, a.arg):
                    tests = [t for t, p in pyflow.dominating_tests(node, stop=fn)] + \
                            [t for t, p in pyflow.early_exit_guards(fn, node)]
                    if not any("isinstance" in am.seg(t) and a.arg in am.seg(t) for t in tests):
                        iterating[q] = i
    for mname, q in YAML_FUNCS:
        m = repo.module(mname)
        f = m.func(q)
        for node in ast.walk(f):
            sites = []
            if isinstance(node, (ast.For, ast.comprehension)):
                it = node.iter
                if isinstance(it, ast.Call) and pyflow.is_name(it.func, "enumerate") and it.args:
                    it = it.args[0]
                sites.append(("iteration", it))
            elif isinstance(node, ast.Call):
                d = pyflow.call_name(node) or ""
                if d in iterating and len(node.args) > iterating[d]:
                    sites.append(("%s()" % d, node.args[iterating[d]]))
            for what, e in sites:
                if not (isinstance(e, ast.Subscript) and pyflow.const_str(e.slice) is not None):
                    continue
                d = pyflow.dotted(e.value)
                if d is None or d.startswith("self.") or d in ("splicers", "config"):
                    continue
                n += 1
                text = m.seg(e)
                tests = [t for t, p in pyflow.dominating_tests(node, stop=f)] + \
                        [t for t, p in pyflow.early_exit_guards(f, node)]
                ok = False
                for t in tests:
                    for c in ast.walk(t):
                        if isinstance(c, ast.Call) and pyflow.is_name(c.func, "isinstance") and c.args:
                            a0 = c.args[0]
                            if m.seg(a0) == text:
                                ok = True
                            elif isinstance(a0, ast.Name):
                                # alias:  v = d["k"]; if not isinstance(v, list): raise
                                for asg in ast.walk(f):
                                    if isinstance(asg, ast.Assign) and pyflow.is_name(asg.targets[0], a0.id) \
                                            and m.seg(asg.value) == text:
                                        ok = True
                run.check(R, "%s.%s:%s of %s" % (mname, q, what, re.sub(r"\s+", "", text)), ok,
                          "%s of the raw YAML value %s without an isinstance check: a scalar there (`%s: 3`) ends in "
                          "TypeError instead of a diagnostic" % (what, text, pyflow.const_str(e.slice)), m.loc(node),
                          sample=dict(function=q, value=text, use=what))
    run.floor(R, "iterations over raw YAML values", n, 4)


def rule_r9(repo, run):
    R = run.rule("C17.R9", "user expressions and messages: positional access to parsed argument lists is guarded by an "
                           "exact length and kind check, valueless attributes are rejected before being parsed, "
                           "messages are formatted once, keyword tests reject the other keywords")
    gm = repo.module("generate")
    dm = repo.module("declast")
    f = gm.func("CheckImplied.visit_Identifier")
    n = 0
    for sub in ast.walk(f):
        if not (isinstance(sub, ast.Subscript) and isinstance(sub.ctx, ast.Load) and isinstance(sub.slice, ast.Constant)
                and isinstance(sub.slice.value, int) and (pyflow.dotted(sub.value) or "").endswith(".args")):
            continue
        n += 1
        k = sub.slice.value
        lst = gm.seg(sub.value)
        proves = False
        guards = [(t, True) for t, pol in pyflow.early_exit_guards(f, sub)] + \
                 [(t, pol) for t, pol in pyflow.dominating_tests(sub, stop=f)]
        early = set(id(t) for t, pol in pyflow.early_exit_guards(f, sub))
        for t, pol in guards:
            for c in ast.walk(t):
                if isinstance(c, ast.Compare) and isinstance(c.left, ast.Call) and pyflow.is_name(c.left.func, "len") \
                        and c.left.args and gm.seg(c.left.args[0]) == lst and isinstance(c.comparators[0], ast.Constant):
                    nn = c.comparators[0].value
                    op = type(c.ops[0]).__name__
                    if id(t) in early:       # the exit is taken when the test holds: afterwards its negation holds
                        if (op == "NotEq" and nn >= k + 1) or (op == "Lt" and nn >= k + 1) or (op == "LtE" and nn >= k):
                            proves = True
                    elif pol and ((op == "Eq" and nn >= k + 1) or (op == "GtE" and nn >= k + 1) or (op == "Gt" and nn >= k)):
                        proves = True
        run.check(R, "generate.CheckImplied.visit_Identifier:%s[%d]@%d" % (lst, k, sub.lineno - f.lineno), proves,
                  "%s[%d] is read but no preceding check guarantees that the list has %d element(s): `%s()` without "
                  "arguments ends in IndexError instead of the diagnostic" % (lst, k, k + 1, "len"), gm.loc(sub))
        # kind of the element before its .name is used
        par = getattr(sub, "_parent", None)
        if isinstance(par, ast.Attribute) and par.attr == "name":
            n += 1
            kinds = any("isinstance" in gm.seg(t) and gm.seg(sub) in gm.seg(t) for t, pol in guards)
            run.check(R, "generate.CheckImplied.visit_Identifier:%s[%d].name@%d" % (lst, k, sub.lineno - f.lineno), kinds,
                      "%s[%d].name is read without checking that the argument is an identifier: size(1) ends in "
                      "AttributeError" % (lst, k), gm.loc(sub))
    run.floor(R, "positional reads of implied-function arguments", n, 4)
    # valueless attribute
    ci = gm.func("check_implied_attrs")
    calls = [c for c in ast.walk(ci) if isinstance(c, ast.Call) and (pyflow.call_name(c) or "") == "check_implied"]
    ok = False
    for c in calls:
        arg = gm.seg(c.args[1]) if len(c.args) > 1 else ""
        for t, pol in pyflow.early_exit_guards(ci, c):
            if gm.seg(t) == "%s is True" % arg:
                ok = True
    run.check(R, "generate.check_implied_attrs:valueless", bool(calls) and ok,
              "`+implied` without a value is stored as True and handed to the expression parser (TypeError); it must be "
              "rejected first", gm.loc(ci))
    # messages formatted once
    em = dm.func("RecursiveDescent.error_msg")
    pre = []
    for q, fn in dm.functions().items():
        for c in ast.walk(fn):
            if isinstance(c, ast.Call) and (pyflow.call_name(c) or "") == "self.error_msg" and len(c.args) == 1 and \
                    isinstance(c.args[0], ast.Call) and isinstance(c.args[0].func, ast.Attribute) and c.args[0].func.attr == "format":
                pre.append(q)
    fmts = [c for c in ast.walk(em) if isinstance(c, ast.Call) and isinstance(c.func, ast.Attribute) and c.func.attr == "format"
            and any(isinstance(a, ast.Starred) for a in c.args)]
    guarded = all(any(isinstance(p_, ast.IfExp) or isinstance(p_, ast.If) for p_ in parent_chain(c)) for c in fmts)
    run.check(R, "declast.RecursiveDescent.error_msg:format-once", not pre or guarded,
              "%d callers pass an already formatted message (%s...) and error_msg formats it again unconditionally: "
              "braces from the user's text end in ValueError/KeyError" % (len(pre), sorted(set(pre))[:2]), dm.loc(em),
              sample=dict(preformatted_callers=sorted(set(pre))))
    # a test for one keyword of a token class rejects the others
    nk = 0
    for q, fn in sorted(dm.functions().items()):
        if not q.startswith("Parser."):
            continue
        for outer in ast.walk(fn):
            if not isinstance(outer, (ast.If, ast.While)) or "self.token.typ ==" not in dm.seg(outer.test):
                continue
            for inner in outer.body:
                if isinstance(inner, ast.If) and dm.seg(inner.test).startswith("self.token.value =="):
                    nk += 1
                    last = inner
                    while len(last.orelse) == 1 and isinstance(last.orelse[0], ast.If):
                        last = last.orelse[0]
                    rejects = any(isinstance(x, ast.Raise) or (isinstance(x, ast.Call) and (pyflow.call_name(x) or "").endswith("error_msg"))
                                  for st in last.orelse for x in ast.walk(st))
                    run.check(R, "declast.%s:%s" % (q, dm.seg(inner.test)), rejects,
                              "the token class %s is entered but only the value tested by `%s` is handled: any other "
                              "keyword of that class is silently accepted or skipped" % (dm.seg(outer.test), dm.seg(inner.test)),
                              dm.loc(inner))
    run.floor(R, "keyword tests inside a token-class branch", nk, 1)


def rule_r10(repo, run):
    R = run.rule("C17.R10", "validation reaches every element and distinguishes absent from empty: no loop variable is used "
                            "after its loop, optional parsed fields are tested with `is None`")
    from sa import lints
    mods = ("generate", "ast", "declast", "wrapc", "wrapf", "wrapp", "wrapl", "typemap", "main", "util")
    found, n = lints.loop_variable_after_loop(repo, mods)
    for mn, q, node, msg in found:
        run.fail(R, "%s.%s:%s-after-loop" % (mn, q, node.id), msg + " (checks written for each element run once)",
                 repo.module(mn).loc(node))
    run.rules[R]["obligations"] += n
    run.rules[R]["discharged"] += n - len(found)
    run.floor(R, "for loops inspected", n, 250)
    found, n2 = lints.truthiness_of_optional(repo, mods)
    for mn, q, node, msg in found:
        run.fail(R, "%s.%s:truthiness@%s" % (mn, q, re.sub(r"\s+", " ", repo.module(mn).seg(node.test))[:40]),
                 msg + ": the check is skipped for the empty/zero case and the input is accepted or misread",
                 repo.module(mn).loc(node))
    run.rules[R]["obligations"] += n2
    run.rules[R]["discharged"] += n2 - len(found)
    run.floor(R, "truthiness tests of optional fields", n2, 2)
    found, n3, lists = lints.dead_none_tests(repo, mods)
    for mn, q, node, msg in found:
        run.fail(R, "%s.%s:dead-test@%s" % (mn, q, re.sub(r"\s+", " ", ast.unparse(node))[:40]),
                 msg + ": the invalid input is not diagnosed and fails later with an internal error", repo.module(mn).loc(node))
    run.rules[R]["obligations"] += n3
    run.rules[R]["discharged"] += n3 - len(found)
    if len(lists) < 3:
        raise AnalysisError("C17.R10: list-valued fields of Declaration not recognised (%s)" % sorted(lists))


# separator loops whose grammar allows a trailing separator (C++ accepts `enum E { A, B, }`)
TRAILING_SEPARATOR_OK = {"Parser.enum_statement": "C++ allows a trailing comma in an enumerator list"}


def rule_r11(repo, run):
    R = run.rule("C17.R11", "incomplete text is rejected where it is read: a separator is followed by an element (no `f(a,)`), "
                            "`=` is followed by a value, and a declaration that is used by name has one")
    dm = repo.module("declast")
    n = 0
    for q, fn in sorted(dm.functions().items()):
        for lp in ast.walk(fn):
            if not (isinstance(lp, ast.While) and isinstance(lp.test, ast.Compare) and len(lp.test.ops) == 1
                    and isinstance(lp.test.ops[0], ast.NotEq) and str(dm.seg(lp.test.left)) == "self.token.typ"
                    and pyflow.const_str(lp.test.comparators[0])):
                continue
            closer = pyflow.const_str(lp.test.comparators[0])
            seps = [c for c in ast.walk(lp) if isinstance(c, ast.Call) and (pyflow.call_name(c) or "") == "self.have"
                    and c.args and pyflow.const_str(c.args[0]) == "COMMA"]
            if not seps:
                continue
            n += 1
            if q in TRAILING_SEPARATOR_OK:
                run.ok(R, "declast.%s:separator-loop" % q, sample=dict(exempt=TRAILING_SEPARATOR_OK[q]))
                continue
            # after the separator was consumed: some statement tests for the closer and raises, or the loop is left
            # through an unconditional error (only one element accepted)
            rejects = False
            for i in ast.walk(lp):
                if isinstance(i, ast.If) and ("self.token.typ == '%s'" % closer) in str(dm.seg(i.test)):
                    if any((pyflow.call_name(c) or "") in ("self.error_msg",) or isinstance(c, ast.Raise) for st in i.body for c in ast.walk(st)):
                        rejects = True
            tail = lp.body[-1]
            if isinstance(tail, ast.Expr) and isinstance(tail.value, ast.Call) and (pyflow.call_name(tail.value) or "") == "self.error_msg":
                rejects = True
            run.check(R, "declast.%s:separator-loop" % q, rejects,
                      "after a `,` the loop goes back to `while self.token.typ != %r`: when the next token is the closer the list "
                      "ends normally, so `(a,)` / `<T,>` is silently accepted" % closer, dm.loc(lp))
    run.floor(R, "separator loops of the parser", n, 5)
    # a list that must have an element: `template<>` has no parameter for FunctionNode to name the instantiations by,
    # `instantiation: <>` no argument to bind to it
    NONEMPTY = {
        "Parser.template_statement": ("empty-parameter-list", "`template<>`", "FunctionNode.__init__ reads template_parameters.parameters[0] (IndexError)"),
        "Parser.template_argument_list": ("empty-argument-list", "`cxx_template: - instantiation: <>`",
                                          "the arguments are paired with the template parameters by position (IndexError)"),
    }
    # (Parser.parse_template_arguments, `std::vector<>` in a declaration: the empty list is refused by the consumer with
    #  "std::vector must have template argument"; an empty argument list is C++ for "all defaults")
    for q, (cid, example, effect) in sorted(NONEMPTY.items()):
        ts = dm.func(q)
        lps = [l for l in ast.walk(ts) if isinstance(l, ast.While) and "self.token.typ != 'GT'" in str(dm.seg(l.test))]
        if not lps:
            raise AnalysisError("C17.R11: the element loop of %s was not found" % q)
        lp0 = lps[0]
        empty_rejected = False
        for g in ast.walk(ts):
            if isinstance(g, ast.If) and g.lineno < lp0.lineno and "GT" in str(dm.seg(g.test)) and \
                    any((pyflow.call_name(c) or "") == "self.error_msg" or isinstance(c, ast.Raise) for st in g.body for c in ast.walk(st)):
                empty_rejected = True
        after = [i for i in ast.walk(ts) if isinstance(i, ast.If) and i.lineno > lp0.end_lineno
                 and re.search(r"\bnot \w|len\(|== \[\]", str(dm.seg(i.test)))
                 and any((pyflow.call_name(c) or "") == "self.error_msg" or isinstance(c, ast.Raise) for st in i.body for c in ast.walk(st))]
        run.check(R, "declast.%s:%s" % (q, cid), empty_rejected or bool(after),
                  "the loop `while self.token.typ != 'GT'` does not run for %s and nothing rejects the empty list: %s"
                  % (example, effect), dm.loc(lp0))
    # `(void)` is the empty parameter list, and only that: `void` as one parameter among others, or with a name, is not a type
    # a parameter can have.  The parser that special-cases the former has to refuse the latter.
    dcl = dm.func("Parser.declaration")
    special = [c for c in ast.walk(dcl) if isinstance(c, ast.Compare) and "['void']" in ast.unparse(c)]
    if not special:
        raise AnalysisError("C17.R11: Parser.declaration no longer recognises `(void)`")
    refused = False
    for lp in ast.walk(dcl):
        if isinstance(lp, ast.For) and "params" in ast.unparse(lp.iter):
            for i in ast.walk(lp):
                if isinstance(i, ast.If) and "['void']" in ast.unparse(i.test) and \
                        any((pyflow.call_name(c) or "") == "self.error_msg" or isinstance(c, ast.Raise) for st in i.body for c in ast.walk(st)):
                    refused = True
    run.check(R, "declast.Parser.declaration:void-parameter", refused,
              "`(void)` alone is turned into the empty parameter list; no statement refuses a parameter of type void in any other "
              "position: `void f(void, int)` and `void f(void x)` are accepted and a wrapper with a `void` argument is written",
              dm.loc(special[0]))
    # a parser method that begins by *consuming* a token it has not looked at ("consume LPAREN peeked at in caller") relies
    # on every caller having seen that token
    am_ = repo.module("ast")
    consumers = {}
    for q, fn in sorted(dm.functions().items()):
        body = [st for st in fn.body if not (isinstance(st, ast.Expr) and isinstance(st.value, ast.Constant))]
        body = [st for st in body if not (isinstance(st, ast.Expr) and isinstance(st.value, ast.Call)
                                          and (pyflow.call_name(st.value) or "") == "self.enter")]
        first = next((st for st in body if not (isinstance(st, ast.Assign) and isinstance(st.value, (ast.List, ast.Dict, ast.Constant)))), None)
        if isinstance(first, ast.Expr) and isinstance(first.value, ast.Call) and (pyflow.call_name(first.value) or "") == "self.next":
            consumers[q.split(".")[-1]] = q
    if "parameter_list" not in consumers:
        raise AnalysisError("C17.R11: Parser.parameter_list no longer starts by consuming the token its caller peeked at")
    ncall = 0
    for mod_ in (dm, am_):
        for q, fn in sorted(mod_.functions().items()):
            for c in ast.walk(fn):
                if isinstance(c, ast.Call) and isinstance(c.func, ast.Attribute) and c.func.attr in consumers:
                    ncall += 1
                    recv = str(mod_.seg(c.func.value))
                    seen = False
                    tests = [t for t, pol in pyflow.dominating_tests(c, stop=fn) if pol] + \
                            [t for t, pol in pyflow.early_exit_guards(fn, c)]
                    for t in tests:
                        txt = str(mod_.seg(t))
                        if ("%s.peek(" % recv) in txt or ("%s.token.typ" % recv) in txt or ("%s.have(" % recv) in txt:
                            seen = True
                    run.check(R, "%s.%s:%s()" % (mod_.name, q, c.func.attr), seen,
                              "%s() consumes the current token without looking at it, and this caller has not looked either: "
                              "`fortran_generic: - decl: int long a)` loses its first token and is accepted" % c.func.attr,
                              mod_.loc(c))
    run.floor(R, "calls of token-consuming parser methods", ncall, 3)
    # the value after `=`
    ini = dm.func("Parser.initializer")
    chain = [i for i in ini.body if isinstance(i, ast.If)]
    if len(chain) != 1:
        raise AnalysisError("C17.R11: if-chain of Parser.initializer not found")
    last = chain[0]
    while len(last.orelse) == 1 and isinstance(last.orelse[0], ast.If):
        last = last.orelse[0]
    fails = any((pyflow.call_name(c) or "") == "self.error_msg" or isinstance(c, ast.Raise) for st in last.orelse for c in ast.walk(st))
    # a declarator's name is optional in the grammar (abstract declarators: `void f(int)`); the node kinds that are
    # *made of* a name - typedefs, variables, struct members - say so before they use it as a string
    am = repo.module("ast")
    nn = 0
    for q, getter in (("NamespaceMixin.add_typedef", "ast.get_name()"), ("VariableNode.__init__", "ast.name")):
        fn = am.func(q)
        uses = [x for x in ast.walk(fn) if str(am.seg(x)) == getter and isinstance(x, (ast.Call, ast.Attribute))]
        if not uses:
            raise AnalysisError("C17.R11: %s no longer reads %s" % (q, getter))
        aliases = set([getter])
        for a in ast.walk(fn):
            if isinstance(a, ast.Assign) and isinstance(a.targets[0], ast.Name) and str(am.seg(a.value)) == getter:
                aliases.add(a.targets[0].id)
        guards = []
        for i in ast.walk(fn):
            if isinstance(i, ast.If) and any(isinstance(x, ast.Raise) for st in i.body for x in ast.walk(st)):
                t = str(am.seg(i.test))
                if any(t == "%s is None" % al or t == "not %s" % al for al in aliases):
                    guards.append(i)
        nn += 1
        first_use = min(u.lineno for u in uses)
        run.check(R, "ast.%s:name-required" % q, bool(guards) and min(g.lineno for g in guards) <= first_use + 3,
                  "%s uses %s as a string (scope + name, .lower()) without rejecting None first: `typedef int;` / "
                  "`struct S { int; };` / a bare `int` end in TypeError / AttributeError instead of a diagnostic" % (q, getter),
                  am.loc(fn))
    run.floor(R, "name-bearing node kinds", nn, 2)
    run.check(R, "declast.Parser.initializer:no-value", bool(last.orelse) and fails,
              "when the token after `=` is none of the accepted kinds the initializer is %s: `int x =` and `f(int a = )` are "
              "accepted as if nothing had been written" % ("returned as None" if last.orelse else "left as the token text"), dm.loc(ini))


def _type_guarded(mod, fn, use, var, typename):
    """some test on the way to `use` (enclosing if-arms or earlier `if ...: raise`) applies isinstance(var, typename)
    (or hasattr(var, ...) when typename is None)"""
    tests = [(t, p) for t, p in pyflow.dominating_tests(use, stop=fn)] + [(t, False) for t, p in pyflow.early_exit_guards(fn, use)]
    for t, pol in tests:
        for c in ast.walk(t):
            if isinstance(c, ast.Call) and isinstance(c.func, ast.Name) and c.args and str(mod.seg(c.args[0])) == var:
                if typename is None and c.func.id == "hasattr":
                    return True
                if typename and c.func.id == "isinstance" and len(c.args) == 2 and typename in str(mod.seg(c.args[1])):
                    return True
    # normalisation before the use: `if not isinstance(v, str): v = str(v)`
    for i in ast.walk(fn):
        if isinstance(i, ast.If) and i.lineno < use.lineno and typename and \
                ("isinstance(%s, %s)" % (var, typename)) in str(mod.seg(i.test)).replace("(str,)", "str"):
            if any(isinstance(a, ast.Assign) and pyflow.is_name(a.targets[0], var) for st in i.body for a in ast.walk(st)):
                return True
    return False


def rule_r12(repo, run):
    R = run.rule("C17.R12", "values that come straight from the YAML file are used as a string / mapping / container node only "
                            "after their type was checked; an option with a closed set of values is checked against it; a range "
                            "check covers the range its message states")
    am, tm, mm, gm = repo.module("ast"), repo.module("typemap"), repo.module("main"), repo.module("generate")
    n = 0

    def need(mod, q, pick, var, typename, what):
        nonlocal n
        fn = mod.func(q)
        uses = [x for x in ast.walk(fn) if pick(x)]
        if not uses:
            raise AnalysisError("C17.R12: %s: the use of %s is no longer found" % (q, var))
        for u in uses:
            n += 1
            run.check(R, "%s.%s:%s:%s" % (mod.name, q, var, typename or "hasattr"), _type_guarded(mod, fn, u, var, typename),
                      "%s: a YAML value of another type ends in AttributeError/TypeError inside the generator instead of a "
                      "diagnostic" % what, mod.loc(u))

    def method_on(var, attr):
        return lambda x: isinstance(x, ast.Call) and isinstance(x.func, ast.Attribute) and x.func.attr == attr \
            and isinstance(x.func.value, ast.Name) and x.func.value.id == var
    need(am, "LibraryNode.__init__", method_on("language", "lower"), "language", "str",
         "`language.lower()` without isinstance(language, str) (`language: 3`)")
    need(tm, "Typemap.update", method_on("value", "split"), "value", "str",
         "`value.split()` on a header field without isinstance(value, str) (`cxx_header:` with no value)")
    need(mm, "main_with_args", lambda x: isinstance(x, ast.Call) and str(mm.seg(x.func)) == "allinput.update"
         and x.args and pyflow.is_name(x.args[0], "d"), "d", "dict",
         "the top level of the input file is merged with allinput.update(d) without isinstance(d, dict) (a file that is a list)")
    need(am, "add_declarations", lambda x: isinstance(x, ast.Compare) and isinstance(x.ops[0], ast.In)
         and pyflow.is_name(x.comparators[0], "subnode"), "subnode", "dict",
         "`'decl' in subnode` on an item of `declarations:` without isinstance(subnode, dict) (`- void foo()`)")
    need(am, "add_declarations", lambda x: isinstance(x, ast.Call) and str(am.seg(x.func)) == "parent.add_declaration",
         "decl", "str", "the value of `decl:` is parsed without isinstance(decl, str) (`- decl:` with no value)")
    need(am, "add_declarations", lambda x: isinstance(x, ast.Call) and str(am.seg(x.func)) == "parent.add_declaration",
         "parent", None, "`declarations:` below a node that cannot contain declarations (a function) calls add_declaration on it")
    need(gm, "VerifyAttrs.parse_attrs", lambda x: isinstance(x, ast.Call) and (pyflow.call_name(x) or "").endswith("check_dimension"),
         "dim", "str", "`attrs: {v: {dimension: 3}}` gives the tokenizer an int (inline +dimension(3) is text)")
    need(gm, "check_implied_attrs", lambda x: isinstance(x, ast.Call) and pyflow.is_name(x.func, "check_implied"), "expr", "str",
         "`attrs: {n: {implied: 3}}` gives the expression parser an int (inline +implied(3) is text)")
    # a text value of the YAML file can be empty (`call: ""`): a fixed position in it is read only after it was seen to
    # be non-empty
    from sa import yamlflow as yf
    lf = am.func("listify")
    ne = 0
    for x in ast.walk(lf):
        if isinstance(x, ast.Subscript) and isinstance(x.ctx, ast.Load) and isinstance(x.value, ast.Name) and \
                isinstance(x.slice, (ast.Constant, ast.UnaryOp)):
            facts = yf.facts_at(lf, x)
            is_text = any(k == "isinstance" and pol and pyflow.is_name(e, x.value.id) and t == "str" for k, e, t, pol in facts)
            if not is_text:
                continue
            ne += 1
            nonempty = any(k == "truth" and pol and any(pyflow.is_name(y, x.value.id) for y in ast.walk(e)) for k, e, t, pol in facts)
            run.check(R, "ast.listify:%s:non-empty" % am.seg(x), nonempty,
                      "`%s` reads a fixed position of a text value of the YAML file that can be empty (`call: \"\"` in "
                      "fstatements, `c: \"\"` in splicer): IndexError inside the generator" % am.seg(x), am.loc(x))
    arms = [i for i in ast.walk(lf) if isinstance(i, ast.If) and "isinstance(value, str)" in str(am.seg(i.test))]
    run.floor(R, "text arm of listify", len(arms), 1)
    # closed-set option
    ci = am.func("ClassNode.__init__")
    sets = [a for a in ast.walk(ci) if isinstance(a, ast.Assign) and str(am.seg(a.targets[0])) == "self.wrap_as"]
    checked = [i for i in ast.walk(ci) if isinstance(i, ast.If) and "self.wrap_as" in str(am.seg(i.test)) and " in " in str(am.seg(i.test))
               and any(isinstance(x, ast.Raise) for st in i.body for x in ast.walk(st))]
    n += 1
    run.check(R, "ast.ClassNode.__init__:wrap_as", bool(sets) and bool(checked) and min(c.lineno for c in checked) > max(a.lineno for a in sets),
              "wrap_as is taken from the options wrap_struct_as / wrap_class_as and never compared with the values the emitters "
              "dispatch on: `wrap_struct_as: foo` creates a class node no emitter handles (AttributeError: no attribute "
              "'typemap')", am.loc(ci))
    # an override that only exists to refuse takes the arguments the callers pass
    base = am.func("NamespaceMixin.add_namespace")
    over = am.func("ClassNode.add_namespace")
    npos = len([a for a in base.args.args if a.arg != "self"]) - len(base.args.defaults)
    opos = len([a for a in over.args.args if a.arg != "self"])
    n += 1
    run.check(R, "ast.ClassNode.add_namespace:signature", opos >= npos or over.args.vararg is not None,
              "ClassNode.add_namespace replaces NamespaceMixin.add_namespace(name, ...) to refuse namespaces in classes but "
              "takes %d positional argument(s): the call add_namespace(name) ends in TypeError and the intended message "
              "is unreachable" % opos, am.loc(over))
    # a value-less attribute (+rank) is stored as True; int(True) is 1, so the conversion alone does not reject it
    kv = 0
    for q, fn in sorted(gm.functions().items()):
        for c in ast.walk(fn):
            if isinstance(c, ast.Call) and pyflow.is_name(c.func, "int") and c.args and isinstance(c.args[0], ast.Subscript) \
                    and "attrs" in str(gm.seg(c.args[0].value)) and pyflow.const_str(c.args[0].slice):
                attr = pyflow.const_str(c.args[0].slice)
                kv += 1
                aliases = {str(gm.seg(c.args[0]))}
                for a in ast.walk(fn):
                    if isinstance(a, ast.Assign) and isinstance(a.targets[0], ast.Name) and str(gm.seg(a.value)) == str(gm.seg(c.args[0])):
                        aliases.add(a.targets[0].id)
                guards = [t for t, pol in pyflow.early_exit_guards(fn, c)] + [t for t, pol in pyflow.dominating_tests(c, stop=fn) if not pol]
                ok = any(any(str(gm.seg(t)) == "%s is True" % al for al in aliases) for t in guards)
                # a value written in the YAML attrs group can be a list or a mapping: int() raises TypeError for those,
                # ValueError only for text
                tries = [p_ for p_ in parent_chain(c) if isinstance(p_, ast.Try) and any(c is x for st in p_.body for x in ast.walk(st))]
                caught = set()
                for h in (tries[0].handlers if tries else []):
                    if h.type is None:
                        caught |= {"TypeError", "ValueError"}
                    for x in ast.walk(h.type) if h.type is not None else []:
                        if isinstance(x, ast.Name):
                            caught.add(x.id)
                if "Exception" in caught:
                    caught |= {"TypeError", "ValueError"}
                run.check(R, "generate.%s:int(attrs[%s]):conversion-errors" % (q, attr), {"TypeError", "ValueError"} <= caught,
                          "int(attrs[%r]) is converted under `except %s`: `attrs: {a: {%s: [2]}}` in the YAML file is a list, "
                          "int() raises TypeError for it and the traceback leaves the generator"
                          % (attr, "/".join(sorted(caught)) or "nothing", attr), gm.loc(c))
                run.check(R, "generate.%s:int(attrs[%s]):valueless" % (q, attr), ok,
                          "`+%s` without a value is stored as True and int(True) == 1: the attribute is silently taken as %s=1 "
                          "unless `is True` is rejected before the conversion" % (attr, attr), gm.loc(c))
    run.floor(R, "integer-valued attributes", kv, 1)
    # stated range
    k = 0
    for q, fn in sorted(gm.functions().items()):
        for r in ast.walk(fn):
            if not isinstance(r, ast.Raise):
                continue
            msg = " ".join(x.value for x in ast.walk(r) if isinstance(x, ast.Constant) and isinstance(x.value, str))
            m_ = re.search(r"must be (\d+)-(\d+)", msg)
            if not m_:
                continue
            k += 1
            lo, hi = int(m_.group(1)), int(m_.group(2))
            t = pyflow.dominating_tests(r, stop=fn)
            txt = str(gm.seg(t[0][0])) if t else ""
            has_hi = re.search(r">\s*%d\b|>=\s*%d\b" % (hi, hi + 1), txt) is not None
            has_lo = re.search(r"<\s*%d\b|<=\s*%d\b" % (lo, lo - 1), txt) is not None
            run.check(R, "generate.%s:range[%d-%d]" % (q, lo, hi), has_hi and has_lo,
                      "the message says the value must be %d-%d but the test `%s` checks %s: the other side of the range is "
                      "accepted silently (+rank(-1))" % (lo, hi, txt, "only the upper bound" if has_hi else "only the lower bound"
                                                        if has_lo else "neither bound"), gm.loc(r))
    run.floor(R, "stated ranges", k, 1)
    run.floor(R, "typed uses of raw YAML values", n, 9)


# functions of ast.py that check the shape of the input before the node constructors read it
YAML_VALIDATORS = ("clean_dictionary", "create_library_from_dictionary", "add_declarations")


def yaml_keys(repo):
    """keys that appear in a YAML context (`key:` at the start of a line) in the documentation and the example inputs"""
    keys = set()
    n = 0
    for sub, ext in (("docs", ".rst"), ("regression/input", ".yaml")):
        d = os.path.join(repo.root, sub)
        if not os.path.isdir(d):
            continue
        for f in sorted(os.listdir(d)):
            if f.endswith(ext):
                n += 1
                for line in repo.read("%s/%s" % (sub, f)).split("\n"):
                    m_ = re.match(r"\s*(?:- )?(\w+):(\s|$)", line)
                    if m_:
                        keys.add(m_.group(1))
    if n < 20 or "cxx_header" not in keys or "fstatements" not in keys:
        raise AnalysisError("C17.R13: documentation / example inputs not found (%d files)" % n)
    return keys


def rule_r13(repo, run):
    R = run.rule("C17.R13", "a value of the input file that is used as a string / list / mapping (a method only that type has, "
                            "iteration, `in`, indexing, `**`, concatenation with text) was tested with isinstance of that type "
                            "- at the use, or by the functions that check the input before the node constructors run - and a "
                            "check that lets a blank value (None) pass removes or replaces it")
    from sa import yamlflow as yf
    am, mm = repo.module("ast"), repo.module("main")
    documented = yaml_keys(repo)
    typed, blank = yf.validators_in(am, YAML_VALIDATORS)
    if len(set(p for p, t, e, r, q in typed)) < 12:
        raise AnalysisError("C17.R13: type checks of the input file not recognised (%d keys)" % len(set(p for p, t, e, r, q in typed)))
    # the driver reads the file, then calls create_library_from_dictionary (which validates), then goes on reading
    mw = mm.func("main_with_args")
    create = [c for c in ast.walk(mw) if isinstance(c, ast.Call) and (pyflow.call_name(c) or "").endswith("create_library_from_dictionary")]
    if not create:
        raise AnalysisError("C17.R13: main_with_args no longer calls create_library_from_dictionary")
    n = 0
    seen = {}
    for mod in (am, mm):
        for u in yf.uses_in(mod, documented):
            if u.path.startswith("__") or ".__" in u.path:
                continue
            n += 1
            key = "%s.%s:%s:%s:%s" % (mod.name, u.q, u.path, u.want, u.how)
            seen[key] = seen.get(key, 0) + 1
            if seen[key] > 1:
                key += "#%d" % seen[key]
            if u.guarded():
                run.ok(R, key)
                continue
            why = "no isinstance(..., %s) test of `%s:` precedes it" % ("/".join(yf.TYPE_OK[u.want][:3]), u.path)
            ok = False
            for path, t, exempt, r, q in typed:
                if path != u.path or not yf.satisfies(t, u.want):
                    continue
                if mod is am and q == u.q and r.lineno > u.node.lineno:
                    why = "the isinstance test of `%s:` comes after this use" % u.path
                    continue
                if mod is mm and u.node.lineno < create[0].lineno:
                    why = "the input is checked by create_library_from_dictionary, which is called after this use"
                    continue
                if exempt and path not in blank and not u.not_none():
                    why = "the check of `%s:` lets a blank value (None) pass and nothing removes or replaces it" % u.path
                    continue
                ok = True
                break
            run.check(R, key, ok,
                      "`%s` is used as a %s (%s) but %s: a value of another type in the input file ends in "
                      "AttributeError / TypeError inside the generator instead of a diagnostic"
                      % (re.sub(r"\s+", " ", ast.unparse(u.node))[:50], u.want, u.how, why), mod.loc(u.node))
    run.floor(R, "typed uses of values of the input file", n, 40)
    # values kept on the node (self.A = kwargs.get("K")) and used by the wrappers
    stored = yf.stored_attributes(am)
    elsewhere = set()
    for mn in loader_modules():
        if mn == "ast":
            continue
        for a in ast.walk(repo.module(mn).tree):
            if isinstance(a, ast.Assign):
                for t in a.targets:
                    # `self.patterns = newlibrary.patterns` hands the same value on under the same name
                    if isinstance(t, ast.Attribute) and not (isinstance(a.value, ast.Attribute) and a.value.attr == t.attr):
                        elsewhere.add(t.attr)
    na = 0
    for attr, paths in sorted(stored.items()):
        if len(paths) != 1 or attr in elsewhere:
            continue
        path = list(paths)[0]
        if path not in documented:
            continue
        demands = {}
        elems = {}
        for mn in loader_modules():
            mod = repo.module(mn)
            for x in ast.walk(mod.tree):
                if isinstance(x, ast.Attribute) and x.attr == attr and yf._is_load(x):
                    tu = yf.typed_use(x)
                    if tu:
                        demands.setdefault(tu[0], []).append((mod, x, tu[1]))
                    lp = getattr(x, "_parent", None)
                    if isinstance(lp, ast.For) and lp.iter is x and isinstance(lp.target, ast.Name):
                        for y in ast.walk(lp):
                            if isinstance(y, ast.Name) and y.id == lp.target.id and yf._is_load(y):
                                tu = yf.typed_use(y)
                                if tu:
                                    elems.setdefault(tu[0], []).append((mod, y, tu[1]))
        for want, sites in sorted(elems.items()):
            if want == "container":
                continue
            na += 1
            ok = any(p_ == path + "[]" and yf.satisfies(t, want) for p_, t, e, r, q in typed)
            mod, x, how = sites[0]
            run.check(R, "attribute:%s:%s[]:%s" % (attr, path, want), ok,
                      "the items of `%s:` are stored as .%s and used as a %s (`%s` %s) but their type is never tested or "
                      "converted: `%s: [3]` in the input file ends in TypeError inside the generator"
                      % (path, attr, want, re.sub(r"\s+", " ", ast.unparse(x._parent))[:50], how, path), mod.loc(x))
        strict = [w for w in demands if w != "container"]
        if len(strict) > 1:
            continue   # used both ways: the attribute name is shared by unrelated objects
        for want, sites in sorted(demands.items()):
            if strict and want == "container":
                continue
            na += 1
            ok = any(p_ == path and yf.satisfies(t, want) for p_, t, e, r, q in typed)
            mod, x, how = sites[0]
            run.check(R, "attribute:%s:%s:%s" % (attr, path, want), ok,
                      "`%s:` is stored as .%s and used as a %s at %d site(s) (first: `%s` %s) but its type is never tested: a "
                      "value of another type in the input file ends in AttributeError / TypeError inside the generator"
                      % (path, attr, want, len(sites), re.sub(r"\s+", " ", ast.unparse(x._parent))[:50], how), mod.loc(x))
    run.floor(R, "stored values of the input file with a typed use", na, 4)


def rule_r14(repo, run):
    R = run.rule("C17.R14", "text of the declaration is converted with int(text, base) only when a ValueError is caught, or "
                            "after the parser has refused digits the base does not have - at every place where the text of an "
                            "INTEGER token leaves the tokenizer")
    dm = repo.module("declast")
    # validators: parser methods that look at the current token's text and stop with error_msg / raise under a test
    # about its digits (a digit set, a character class, or a trial conversion under try/except ValueError)
    validators = {}
    for q, fn in sorted(dm.functions().items()):
        if not any(str(dm.seg(x)) == "self.token.value" for x in ast.walk(fn)):
            continue
        for c in ast.walk(fn):
            stops = (isinstance(c, ast.Call) and (pyflow.call_name(c) or "") == "self.error_msg") or isinstance(c, ast.Raise)
            if not stops:
                continue
            tests = [t for t, pol in pyflow.dominating_tests(c, stop=fn)]
            txt = " ".join(str(dm.seg(t)) for t in tests)
            digits = re.search(r"0-7|01234567|'[89]'|\"[89]\"", txt) is not None
            in_handler = any(isinstance(p_, ast.ExceptHandler) and "ValueError" in str(dm.seg(p_.type) if p_.type is not None else "")
                             for p_ in parent_chain(c))
            if digits or in_handler:
                validators[q.split(".")[-1]] = q
    # places where the text of an INTEGER token is taken
    sites = []
    for q, fn in sorted(dm.functions().items()):
        reads = [x for x in ast.walk(fn) if isinstance(x, ast.Attribute) and str(dm.seg(x)) == "self.token.value"
                 and isinstance(x.ctx, ast.Load)]
        mentions = [x for x in ast.walk(fn) if isinstance(x, ast.Constant) and x.value == "INTEGER"]
        takes = any(isinstance(c, ast.Call) and (pyflow.call_name(c) or "") in ("self.have", "self.next", "self.mustbe") for c in ast.walk(fn))
        if not reads or not mentions or not takes:
            continue
        sites.append((q, fn, reads, mentions))
    if len(sites) < 2:
        raise AnalysisError("C17.R14: the places where INTEGER tokens are read were not found (%d)" % len(sites))
    all_ok = True
    for q, fn, reads, mentions in sites:
        calls = [c for c in ast.walk(fn) if isinstance(c, ast.Call) and isinstance(c.func, ast.Attribute)
                 and c.func.attr in validators and pyflow.is_name(c.func.value, "self")]
        # the check looks at the current token: it must come before the token is passed (have("INTEGER") / next())
        passed = [c for c in ast.walk(fn) if isinstance(c, ast.Call) and (
            ((pyflow.call_name(c) or "") == "self.have" and c.args and pyflow.const_str(c.args[0]) == "INTEGER") or
            ((pyflow.call_name(c) or "") == "self.next" and any(m_.lineno <= c.lineno for m_ in mentions)))]
        first_pass = min([c.lineno for c in passed] or [10 ** 9])
        inline = False
        for t_ in ast.walk(fn):
            if isinstance(t_, ast.Try) and any("ValueError" in str(dm.seg(h.type) if h.type is not None else "ValueError")
                                               for h in t_.handlers):
                if any(isinstance(c, ast.Call) and pyflow.is_name(c.func, "int") and len(c.args) == 2 for st in t_.body for c in ast.walk(st)):
                    inline = True
        ok = inline or any(c.lineno <= first_pass for c in calls)
        all_ok = all_ok and ok
        run.check(R, "declast.%s:INTEGER-text" % q, ok,
                  "%s takes the text of an INTEGER token (`\\d+`) without the digit check (%s): `08` reaches int(text, 8) - in "
                  "the initializer, the enum evaluation or the Fortran rendering of constants - and ends in ValueError"
                  % (q, ", ".join(sorted(validators)) or "no parser method refuses digits by base"), dm.loc(fn))
    # the conversions
    nconv = 0
    for mn in loader_modules():
        m = repo.module(mn)
        for q, fn in sorted(m.functions().items()):
            for c in ast.walk(fn):
                if not (isinstance(c, ast.Call) and pyflow.is_name(c.func, "int") and len(c.args) == 2
                        and isinstance(c.args[1], ast.Constant) and c.args[1].value in (2, 8, 16)):
                    continue
                if enclosing_function(c) is not fn:
                    continue
                nconv += 1
                caught = False
                for p_ in parent_chain(c):
                    if isinstance(p_, ast.Try) and any(c is x for st in p_.body for x in ast.walk(st)):
                        if any(h.type is None or "ValueError" in str(m.seg(h.type)) or "Exception" in str(m.seg(h.type)) for h in p_.handlers):
                            caught = True
                    if p_ is fn:
                        break
                run.check(R, "%s.%s:int(..., %d)" % (mn, q, c.args[1].value), caught or all_ok,
                          "`%s` converts text of the declaration; no ValueError handler encloses it and the parser does not refuse "
                          "the digits base %d lacks at every place where an INTEGER token is read"
                          % (re.sub(r"\s+", " ", str(m.seg(c))), c.args[1].value), m.loc(c))
    run.floor(R, "radix conversions", nconv, 3)


def rule_r15(repo, run):
    R = run.rule("C17.R15", "the name of a helper is built from a statement template and the type of the argument; a wrapper that "
                            "looks such a name up in the helper tables has made sure it is there (a type without that helper is "
                            "reported), or takes the name from the set of helpers that were registered that way")
    n = 0
    for mn in ("wrapc", "wrapf", "wrapp", "wrapl"):
        m = repo.module(mn)
        for q, fn in sorted(m.functions().items()):
            for x in ast.walk(fn):
                if not (isinstance(x, ast.Subscript) and isinstance(x.ctx, ast.Load) and ast.unparse(x.value) in ("whelpers.CHelpers", "whelpers.FHelpers")
                        and not isinstance(x.slice, ast.Constant)):
                    continue
                n += 1
                table = ast.unparse(x.value)
                key = ast.unparse(x.slice)
                tests = [ast.unparse(t) for t, pol in pyflow.early_exit_guards(fn, x)] + \
                        [ast.unparse(t) for t, pol in pyflow.dominating_tests(x, stop=fn) if pol]
                checked = any(("%s in %s" % (key, table)) in t or ("%s not in %s" % (key, table)) in t for t in tests)
                # the key is a parameter that every caller takes from the registered set / a helper's dependent_helpers
                registered = False
                params = [a.arg for a in fn.args.args]
                if isinstance(x.slice, ast.Name) and x.slice.id in params and not checked:
                    sites = [c for q2, f2 in m.functions().items() for c in ast.walk(f2)
                             if isinstance(c, ast.Call) and isinstance(c.func, ast.Attribute) and c.func.attr == fn.name]
                    ok_sites = 0
                    for c in sites:
                        a = c.args[params.index(x.slice.id) - 1] if len(c.args) >= params.index(x.slice.id) else None
                        if isinstance(a, ast.Name):
                            lp = [p_ for p_ in parent_chain(c) if isinstance(p_, ast.For) and pyflow.is_name(p_.target, a.id)]
                            if lp and re.search(r"helper", ast.unparse(lp[0].iter)):
                                ok_sites += 1
                    registered = bool(sites) and ok_sites == len(sites)
                run.check(R, "%s.%s:%s[%s]" % (mn, q, table.split(".")[-1], key), checked or registered,
                          "`%s[%s]` is looked up without a test that the name exists: for a type the statements have no helper for "
                          "(`std::vector<std::string> &arg +intent(out)` names copy_array_std_string) the generator stops with "
                          "KeyError" % (table, key), m.loc(x))
    run.floor(R, "helper table lookups in the wrappers", n, 4)


def rule_r16(repo, run):
    R = run.rule("C17.R16", "every declaration that can carry attributes goes through the attribute checks: the functions and "
                            "variables of classes *and* of the library / namespaces")
    gm = repo.module("generate")
    fn = gm.func("VerifyAttrs.verify_namespace_attrs")
    loops = {}
    for lp in ast.walk(fn):
        if isinstance(lp, ast.For) and isinstance(lp.iter, ast.Attribute) and isinstance(lp.iter.value, ast.Name):
            checks = [pyflow.call_name(c) for c in ast.walk(lp) if isinstance(c, ast.Call) and (pyflow.call_name(c) or "").startswith("self.check_")]
            loops[(lp.iter.value.id, lp.iter.attr)] = checks
    owners = sorted(set(o for o, k in loops))
    if ("node", "functions") not in loops:
        raise AnalysisError("C17.R16: verify_namespace_attrs no longer loops over node.functions")
    n = 0
    for owner in ("node", "cls"):
        for kind, check in (("functions", "self.check_fcn_attrs"), ("variables", "self.check_var_attrs")):
            n += 1
            run.check(R, "generate.VerifyAttrs.verify_namespace_attrs:%s.%s" % (owner, kind), check in loops.get((owner, kind), []),
                      "the %s of %s never reach %s: `int *gv +dimension +bogus(3)` at library level is accepted with an illegal "
                      "attribute and a dimension without a value" % (kind, "the library / a namespace" if owner == "node" else "a class",
                                                                     check.split(".")[-1]), gm.loc(fn))



def rule_r18(repo, run):
    R = run.rule("C17.R18", "the first level of splicer_code names the wrappers (c, f, py, lua) and holds dictionaries: the arm that "
                            "refuses anything else there comes before every arm that stores a list of lines")
    am = repo.module("ast")
    fn = am.func("listify_splicer_code")
    chains = [i for i in ast.walk(fn) if isinstance(i, ast.If) and not (isinstance(getattr(i, "_parent", None), ast.If) and i in i._parent.orelse)]
    arms = []
    for ch in chains:
        cur, lst = ch, []
        while True:
            lst.append((cur.test, cur.body))
            if len(cur.orelse) == 1 and isinstance(cur.orelse[0], ast.If):
                cur = cur.orelse[0]
            else:
                if cur.orelse:
                    lst.append((None, cur.orelse))
                break
        if len(lst) > len(arms):
            arms = lst
    level0 = [k for k, (t, b) in enumerate(arms) if t is not None and re.search(r"level\s*==\s*0", ast.unparse(t))
              and any(isinstance(x, ast.Raise) for st in b for x in ast.walk(st))]
    if len(level0) != 1:
        raise AnalysisError("C17.R18: the `level == 0` arm of listify_splicer_code was not found")
    for k, (t, b) in enumerate(arms):
        stores = [a for st in b for a in ast.walk(st) if isinstance(a, ast.Assign) and isinstance(a.targets[0], ast.Subscript)
                  and not (isinstance(a.value, ast.Call) and "listify_splicer_code" in ast.unparse(a.value.func))]
        if not stores:
            continue
        label = ast.unparse(t) if t is not None else "else"
        run.check(R, "ast.listify_splicer_code:arm[%s]" % label, k > level0[0],
                  "the arm `%s` stores lines for a key and is tried before the `level == 0` test: at the first level (`splicer_code: "
                  "c:` with nothing behind it) a list is stored where the wrappers expect a dictionary - AttributeError in the "
                  "wrapper instead of the diagnostic" % label, am.loc(stores[0]))

def rule_r19(repo, run):
    R = run.rule("C17.R19", "every file named on the command line is read or refused: the dispatch on the suffix has an arm for "
                            "everything else that raises")
    sm = repo.module("splicer")
    fn = sm.func("get_splicer_based_on_suffix")
    chains = [i for i in fn.body if isinstance(i, ast.If)]
    if len(chains) != 1:
        raise AnalysisError("C17.R19: the suffix dispatch of get_splicer_based_on_suffix was not found")
    cur = chains[0]
    while len(cur.orelse) == 1 and isinstance(cur.orelse[0], ast.If):
        cur = cur.orelse[0]
    tail = cur.orelse
    refuses = any(isinstance(x, ast.Raise) for st in tail for x in ast.walk(st))
    run.check(R, "splicer.get_splicer_based_on_suffix:unknown-suffix", refuses,
              "a file whose suffix is none of the known ones falls through the if/elif chain: `shroud lib.yml` reads nothing, "
              "says nothing and writes the wrappers of an empty library", sm.loc(chains[0]))
    mm = repo.module("main")
    mf = mm.func("main_with_args")
    disp = [i for i in ast.walk(mf) if isinstance(i, ast.If) and "ext" in ast.unparse(i.test) and ".yaml" in ast.unparse(i.test)]
    if not disp:
        raise AnalysisError("C17.R19: the dispatch on the suffix in main_with_args was not found")
    cur = disp[0]
    while len(cur.orelse) == 1 and isinstance(cur.orelse[0], ast.If):
        cur = cur.orelse[0]
    handled = any(isinstance(x, ast.Raise) or (isinstance(x, ast.Call) and (pyflow.call_name(x) or "").endswith("get_splicer_based_on_suffix"))
                  for st in cur.orelse for x in ast.walk(st))
    run.check(R, "main.main_with_args:other-files", handled,
              "a file that is not YAML is neither handed to the splicer reader nor refused", mm.loc(disp[0]))


def rule_r20(repo, run):
    R = run.rule("C17.R20", "a name looked up in the symbol table is used as the kind of thing the grammar asks for only after its "
                            "kind was tested: the base of a class is a class node")
    dm = repo.module("declast")
    fn = dm.func("Parser.class_statement")
    apps = [c for c in ast.walk(fn) if isinstance(c, ast.Call) and isinstance(c.func, ast.Attribute) and c.func.attr == "append"
            and "baseclass" in ast.unparse(c.func.value)]
    if len(apps) != 1:
        raise AnalysisError("C17.R20: the registration of the base class in Parser.class_statement was not found")
    # a test of the node's kind with a diagnostic, in front of the registration, in the same statement list
    seq = apps[0]
    while not isinstance(seq, ast.stmt):
        seq = seq._parent
    body = []
    for fld in ("body", "orelse", "finalbody"):
        lst = getattr(seq._parent, fld, None)
        if isinstance(lst, list) and any(st is seq for st in lst):
            body = lst
    idx = [k for k, st in enumerate(body) if st is seq]
    tested = False
    if idx:
        for st in body[:idx[0]]:
            if isinstance(st, ast.If) and re.search(r"nodename|isinstance\(", ast.unparse(st.test)) and \
                    any((pyflow.call_name(c) or "") == "self.error_msg" or isinstance(c, ast.Raise)
                        for x in st.body + st.orelse for c in ast.walk(x)):
                tested = True
    run.check(R, "declast.Parser.class_statement:base-is-a-class", tested,
              "whatever the symbol table returns for the name after `:` is recorded as base class: for a namespace "
              "(`class A : public std`) the class node is built on an object without a typemap - AttributeError", dm.loc(apps[0]))


def rule_r21(repo, run):
    R = run.rule("C17.R21", "an attribute that needs a value is refused without one wherever it is legal: the `is True` test "
                            "(attribute present, no value) the argument check makes for an attribute is made by the variable "
                            "check for every attribute the two have in common")
    gm = repo.module("generate")
    fa = gm.func("VerifyAttrs.check_arg_attrs")
    fv = gm.func("VerifyAttrs.check_var_attrs")

    def valueless(fn):
        """attributes A with `if <A> is True: raise`, A named through attrs["A"] or a local assigned from it"""
        local = {}
        for a in ast.walk(fn):
            if isinstance(a, ast.Assign) and len(a.targets) == 1 and isinstance(a.targets[0], ast.Name) \
                    and isinstance(a.value, ast.Subscript) and pyflow.const_str(a.value.slice) and "attrs" in ast.unparse(a.value.value):
                local[a.targets[0].id] = pyflow.const_str(a.value.slice)
        out = set()
        for i in ast.walk(fn):
            if isinstance(i, ast.If) and any(isinstance(x, ast.Raise) for st in i.body for x in ast.walk(st)):
                for c in ast.walk(i.test):
                    if isinstance(c, ast.Compare) and len(c.ops) == 1 and isinstance(c.ops[0], ast.Is) \
                            and isinstance(c.comparators[0], ast.Constant) and c.comparators[0].value is True:
                        l = c.left
                        if isinstance(l, ast.Name) and l.id in local:
                            out.add(local[l.id])
                        elif isinstance(l, ast.Subscript) and pyflow.const_str(l.slice):
                            out.add(pyflow.const_str(l.slice))
        return out
    arg_needs = set()
    for q, f_ in gm.functions().items():
        if q.startswith("VerifyAttrs.check_") and q != "VerifyAttrs.check_var_attrs":
            arg_needs |= valueless(f_)
    var_needs = valueless(fv)
    legal = set()
    for c in ast.walk(fv):
        if isinstance(c, ast.Compare) and isinstance(c.ops[0], ast.NotIn) and isinstance(c.comparators[0], (ast.List, ast.Tuple)):
            legal |= set(pyflow.const_str(e) for e in c.comparators[0].elts)
    if not arg_needs or not legal:
        raise AnalysisError("C17.R21: value-less attribute tests / legal variable attributes not found (%s / %s)" % (sorted(arg_needs), sorted(legal)))
    if not (arg_needs & legal):
        raise AnalysisError("C17.R21: no attribute is both value-checked for arguments and legal for variables (%s / %s)" % (sorted(arg_needs), sorted(legal)))
    for attr in sorted(arg_needs & legal):
        run.check(R, "generate.VerifyAttrs.check_var_attrs:%s-without-value" % attr, attr in var_needs,
                  "`+%s` without a value is refused on an argument and accepted on a variable: the value True is turned into the "
                  "text `True` and used as an expression" % attr, gm.loc(fv))


def loader_modules():
    from sa.loader import PY_MODULES
    return PY_MODULES


def run(repo, run, tier):
    P = Program(repo)
    rule_r1(repo, run, P)
    rule_r2(repo, run, P)
    rule_r3(repo, run, P)
    rule_r4(repo, run)
    rule_r5(repo, run)
    rule_r6(repo, run)
    rule_r7(repo, run)
    rule_r8(repo, run)
    rule_r9(repo, run)
    rule_r10(repo, run)
    rule_r11(repo, run)
    rule_r13(repo, run)
    rule_r14(repo, run)
    rule_r15(repo, run)
    rule_r12(repo, run)
    rule_r16(repo, run)
    rule_r18(repo, run)
    rule_r19(repo, run)
    rule_r20(repo, run)
    rule_r21(repo, run)
