"""C08 - every callable C++ signature gets exactly one, distinct wrapper name."""
import ast
import re

from sa import pattern as pat, pyflow
from sa.consteval import Evaluator
from sa.loader import AnalysisError, enclosing_function

EXPLANATION = (
    "Pairing and template analysis: (R1) every <node>.clone() in generate.GenFunctions is registered "
    "on all paths (append_function_index + append to the ordered list, or returned to a caller that "
    "does both), marked _generated, and either receives a per-variant function_suffix/template_suffix/"
    "class suffix or the original is switched off for the languages the clone serves (exactly one of "
    "the two is emitted); (R2) the default name templates carry every distinguishing field "
    "(function_suffix, template_suffix, a scope field), F_name_generic_template carries neither suffix, "
    "and each equals the default documented in docs/reference.rst; (R3) the overload suffix is the "
    "enumerate index of the same overload list and is only skipped for an explicit local "
    "function_suffix, fortran_generic defaults are numbered by a per-item counter, assumed-rank "
    "variants use the loop's rank; (R4) generic interfaces list F_name_impl / F_name_function of the "
    "registered functions under the key the implementation registered; (R5) un_camel is a pure "
    "function of its argument.")
NOT_DECIDED = ("Global uniqueness over all user-chosen names and suffixes (combinatorial in user input).")


def _clone_sites(func):
    out = []
    for n in ast.walk(func):
        if isinstance(n, ast.Assign) and len(n.targets) == 1 and isinstance(n.targets[0], ast.Name) and \
                isinstance(n.value, ast.Call) and isinstance(n.value.func, ast.Attribute) and n.value.func.attr == "clone":
            out.append((n.targets[0].id, pyflow.dotted(n.value.func.value), n))
    return out


def _calls_with_arg(path_stmts, fname, var):
    for st in path_stmts:
        if isinstance(st, (ast.If, ast.For, ast.While, ast.Try, ast.With)):
            continue
        for c in pyflow.calls_in(st):
            if (pyflow.call_name(c) or "").endswith(fname) and any(pyflow.is_name(a, var) for a in c.args):
                return True
    return False


def rule_r1(repo, run):
    R = run.rule("C08.R1", "every clone is registered on all paths, marked generated, and distinguishable from its original")
    gm = repo.module("generate")
    cls = gm.cls("GenFunctions")
    methods = {b.name: b for b in cls.body if isinstance(b, ast.FunctionDef)}
    nsites = 0
    for name, f in sorted(methods.items()):
        if name.startswith("XXX"):
            continue
        for var, src, node in _clone_sites(f):
            nsites += 1
            construct = "generate.GenFunctions.%s:%s=%s.clone()" % (name, var, src)
            loc = gm.loc(node)
            # --- registration on all paths after the clone
            relevant = lambda n: (isinstance(n, ast.Call) and isinstance(n.func, ast.Attribute)
                                  and n.func.attr in ("clone", "append", "append_function_index")) or \
                isinstance(n, ast.Return)
            # enclosing statement list of the clone: analyse paths of the innermost loop body or function body
            scope_body = f.body
            for p in _ancestors(node):
                if isinstance(p, (ast.For, ast.While)):
                    scope_body = p.body
                    break
            body = pyflow.prune(scope_body, relevant)
            ps = pyflow.paths(body, limit=100000)
            returned_to_caller = any(isinstance(n, ast.Return) and pyflow.is_name(n.value, var) for n in ast.walk(f))
            bad = []
            for p in ps:
                if p.end == "raise":
                    continue
                seen = False
                stmts_after = []
                for st in p.stmts:
                    if st is node or getattr(st, "_orig", None) is node:
                        seen = True
                        continue
                    if seen:
                        stmts_after.append(st)
                if not seen:
                    continue
                idx = _calls_with_arg(stmts_after, "append_function_index", var)
                lst = any((pyflow.call_name(c) or "").endswith(".append") and
                          not (pyflow.call_name(c) or "").endswith("default_funcs.append") and
                          any(pyflow.is_name(a, var) for a in c.args)
                          for st in stmts_after if not isinstance(st, (ast.If, ast.For, ast.While, ast.Try, ast.With))
                          for c in pyflow.calls_in(st))
                if returned_to_caller:
                    continue
                if src and src.startswith("cls"):
                    if not lst:
                        bad.append("class clone not appended to the new class list")
                elif not (idx and lst):
                    bad.append("path %s: append_function_index=%s, list append=%s"
                               % ([("%s=%s" % (gm.seg(t)[:30], pl)) for t, pl in p.conds][:3], idx, lst))
            if returned_to_caller:
                # every caller must register the returned node
                ok_callers = []
                for cname, cf in methods.items():
                    for c in ast.walk(cf):
                        if isinstance(c, ast.Assign) and isinstance(c.value, ast.Call) and \
                                (pyflow.call_name(c.value) or "") == "self." + name and isinstance(c.targets[0], ast.Name):
                            v2 = c.targets[0].id
                            blk = _block_of(c)
                            after = blk[[i for i, x in enumerate(blk) if x is c][0] + 1:]
                            ok = _calls_with_arg(after, "append_function_index", v2) and any(
                                (pyflow.call_name(k) or "").endswith(".append") and any(pyflow.is_name(a, v2) for a in k.args)
                                for st in after for k in pyflow.calls_in(st))
                            ok_callers.append((cname, ok))
                if not ok_callers or not all(o for c_, o in ok_callers):
                    bad.append("returned to callers that do not register it: %s" % ok_callers)
            run.check(R, construct + ":registered", not bad, "; ".join(bad[:2]), loc,
                      sample=dict(site=construct, paths=len(ps), returned=returned_to_caller))
            # --- marked generated (function clones)
            if not (src or "").startswith("cls"):
                gen = [n for n in ast.walk(f) if isinstance(n, ast.Assign) and
                       (pyflow.dotted(n.targets[0]) or "") == var + "._generated"]
                run.check(R, construct + ":_generated", bool(gen) or returned_to_caller and name == "result_as_arg",
                          "clone is not marked with _generated", loc)
            # --- distinguishable
            why = _distinguished(gm, f, var, src, methods)
            run.check(R, construct + ":distinct", why is not None,
                      "the clone gets no per-variant suffix and the original stays wrapped for the same "
                      "languages: two wrappers with the same name (or none) are emitted", loc,
                      sample=dict(site=construct, how=why))
    run.floor(R, "clone sites", nsites, 9)


def _ancestors(n):
    from sa.loader import parent_chain
    return parent_chain(n)


def _block_of(n):
    p = n._parent
    for fld in ("body", "orelse", "finalbody"):
        l = getattr(p, fld, None)
        if isinstance(l, list) and any(x is n for x in l):
            return l
    return []


SUFFIX_FIELDS = ("function_suffix", "template_suffix")


def _distinguished(gm, f, var, src, methods):
    # aliases of the clone's format scope:  fmt = new.fmtdict
    aliases = {var + ".fmtdict"}
    for n in ast.walk(f):
        if isinstance(n, ast.Assign) and len(n.targets) == 1 and isinstance(n.targets[0], ast.Name) and \
                (pyflow.dotted(n.value) or "") == var + ".fmtdict":
            aliases.add(n.targets[0].id)
    for n in ast.walk(f):
        if isinstance(n, ast.Assign):
            for t in n.targets:
                d = pyflow.dotted(t) or ""
                for a in aliases:
                    for fld in SUFFIX_FIELDS:
                        if d == a + "." + fld:
                            if not isinstance(n.value, ast.Constant):
                                return "%s = %s" % (d, gm.seg(n.value)[:60])
    # class clone: cxx_class built from a per-instantiation suffix
    if (src or "").startswith("cls"):
        s = gm.seg(f)
        if "class_suffix" in s and pat.has(f, "cxx_class = '{}{}'.format(newcls.fmtdict.cxx_class, class_suffix)"):
            branches = [n for n in ast.walk(f) if isinstance(n, ast.Assign) and pyflow.is_name(n.targets[0], "class_suffix")]
            if len(branches) >= 4:
                return "cxx_class = cxx_class + class_suffix (%d suffix sources)" % len(branches)
        return None
    # original switched off
    off = []
    for n in f.body:            # unconditional statements of the function only
        if isinstance(n, ast.Expr) and isinstance(n.value, ast.Call) and \
                (pyflow.call_name(n.value) or "") == "%s.wrap.clear" % src:
            off.append("%s.wrap.clear()" % src)
        if isinstance(n, ast.Assign):
            for t in n.targets:
                d = pyflow.dotted(t) or ""
                if d in ("%s.wrap.c" % src, "%s.wrap.fortran" % src) and isinstance(n.value, ast.Constant) and n.value.value is False:
                    off.append(d + " = False")
    if off:
        # ... for every language the clone is wrapped for
        served = set()
        for n in ast.walk(f):
            if isinstance(n, ast.Assign):
                for t in n.targets:
                    d = pyflow.dotted(t) or ""
                    for lang in ("c", "fortran"):
                        if d == "%s.wrap.%s" % (var, lang) and not (isinstance(n.value, ast.Constant) and n.value.value is False):
                            served.add(lang)
            if isinstance(n, ast.Call) and (pyflow.call_name(n) or "") == "%s.wrap.assign" % var:
                for k in n.keywords:
                    if k.arg in ("c", "fortran") and not (isinstance(k.value, ast.Constant) and k.value.value is False):
                        served.add(k.arg)
        cleared = any(o.endswith(".wrap.clear()") for o in off)
        missing = [lang for lang in sorted(served) if not cleared and ("%s.wrap.%s = False" % (src, lang)) not in off]
        if missing:
            return None
        return "original switched off: " + ", ".join(sorted(set(off)))
    # clone of a clone that already got the suffix (result_as_arg: clones C_new, takes node's suffix, node.wrap.fortran off)
    return None


TEMPLATES = {
    "C_name_template": dict(need=["{function_suffix}", "{template_suffix}", "{C_name_scope}", "{C_prefix}", "{underscore_name}"]),
    "F_C_name_template": dict(need=["{function_suffix}", "{template_suffix}", "{F_name_scope}", "{underscore_name}"]),
    "F_name_impl_template": dict(need=["{function_suffix}", "{template_suffix}", "{F_name_scope}", "{underscore_name}"]),
    "F_name_function_template": dict(need=["{function_suffix}", "{template_suffix}", "{underscore_name}"]),
    "PY_name_impl_template": dict(need=["{function_suffix}", "{template_suffix}", "{function_name}"]),
    "PY_type_impl_template": dict(need=["{function_suffix}", "{template_suffix}", "{cxx_class}"]),
    "F_name_generic_template": dict(need=["{underscore_name}"], forbid=["{function_suffix}", "{template_suffix}"]),
    "LUA_name_impl_template": dict(need=["{C_name_scope}", "{underscore_name}"]),
    # enumerations and enumerators of two scopes (classes, `enum class`) that share a name are told apart by the scope
    "C_enum_template": dict(need=["{C_prefix}", "{C_name_scope}", "{enum_name}"]),
    "C_enum_member_template": dict(need=["{C_prefix}", "{C_name_scope}", "{enum_member_name}"]),
    "F_enum_member_template": dict(need=["{F_name_scope}", "{enum_member_lower}"]),
}


def rule_r2(repo, run):
    R = run.rule("C08.R2", "default name templates carry every distinguishing field and equal the documented defaults")
    am = repo.module("ast")
    f = am.func("LibraryNode.default_options")
    vals = {}
    for node in ast.walk(f):
        if isinstance(node, ast.Call) and (pyflow.call_name(node) or "").split(".")[-1] == "Scope":
            for k in node.keywords:
                if k.arg in TEMPLATES:
                    vals[k.arg] = (pyflow.const_str(k.value), k.value)
    docs = repo.read("docs/reference.rst")
    for name, spec in sorted(TEMPLATES.items()):
        if name not in vals or vals[name][0] is None:
            raise AnalysisError("C08.R2: default of %s not found as a string literal" % name)
        val, node = vals[name]
        missing = [x for x in spec.get("need", []) if x not in val]
        present = [x for x in spec.get("forbid", []) if x in val]
        run.check(R, "ast.LibraryNode.default_options.%s" % name, not missing and not present,
                  "default %r lacks %s%s: variants that differ only in that field get the same name"
                  % (val, missing, (" and must not contain %s" % present) if present else ""), am.loc(node),
                  sample=dict(template=name, default=val))
        # documented default: first ``...`` literal after the option heading
        m = re.search(r"^%s\n((?:[ \t]+.*\n|\n)+?)(?=^\S)" % re.escape(name), docs, re.M)
        doc_default = None
        if m:
            lits = re.findall(r"``([^`]+)``", m.group(1))
            cands = [l for l in lits if "{" in l]
            doc_default = cands[-1] if cands else None
        run.check(R, "docs/reference.rst:%s" % name, doc_default == val,
                  "documented default %r differs from the implemented default %r: names are not predictable "
                  "from the documentation" % (doc_default, val), am.loc(node), sample=dict(doc=doc_default))
    # Namify evaluates exactly these templates
    gm = repo.module("generate")
    for meth, names in (("Namify.name_function_c", ["C_name", "F_C_name"]),
                        ("Namify.name_function_fortran", ["F_name_impl", "F_name_function", "F_name_generic"])):
        fn = gm.func(meth)
        got = [pyflow.const_str(c.args[0]) for c in ast.walk(fn) if isinstance(c, ast.Call)
               and (pyflow.call_name(c) or "").endswith("eval_template") and c.args]
        run.check(R, "generate.%s" % meth, got == names,
                  "%s evaluates %s, expected %s" % (meth, got, names), gm.loc(fn), sample=dict(evaluates=got))
    low = [n for n in ast.walk(gm.func("Namify.name_function_c")) if isinstance(n, ast.Assign)
           and (pyflow.dotted(n.targets[0]) or "").endswith(".F_C_name")]
    run.check(R, "generate.Namify.name_function_c:lower", len(low) == 1 and ".lower()" in gm.seg(low[0].value),
              "F_C_name must be lower-cased consistently (Fortran is case-insensitive)", gm.loc(gm.func("Namify.name_function_c")))


def rule_r3(repo, run):
    R = run.rule("C08.R3", "suffix sources are per-variant")
    gm = repo.module("generate")
    f = gm.func("GenFunctions.define_function_suffix")
    loops = [n for n in ast.walk(f) if isinstance(n, ast.For) and isinstance(n.iter, ast.Call)
             and pyflow.is_name(n.iter.func, "enumerate") and "overloads" in gm.seg(n.iter)]
    if len(loops) != 1:
        raise AnalysisError("C08.R3: overload numbering loop not found")
    lp = loops[0]
    idx = lp.target.elts[0].id
    sfx = [n for n in ast.walk(lp) if isinstance(n, ast.Assign) and (pyflow.dotted(n.targets[0]) or "").endswith(".function_suffix")]
    ok = len(sfx) == 1 and idx in [x.id for x in ast.walk(sfx[0].value) if isinstance(x, ast.Name)]
    run.check(R, "generate.GenFunctions.define_function_suffix:overload-suffix", ok,
              "the overload suffix must be derived from the enumerate index of the overload list", gm.loc(lp),
              sample=dict(stmt=gm.seg(sfx[0]) if sfx else None))
    if sfx:
        guards = [gm.seg(t) for t, p in pyflow.dominating_tests(sfx[0], stop=lp)]
        run.check(R, "generate.GenFunctions.define_function_suffix:explicit-wins",
                  any('inlocal("function_suffix")' in g for g in guards),
                  "numbering may only be skipped for an explicit local function_suffix", gm.loc(sfx[0]))
        outer = [gm.seg(t) for t, p in pyflow.dominating_tests(lp, stop=f)]
        run.check(R, "generate.GenFunctions.define_function_suffix:only-overloads",
                  any("len(overloads) > 1" in g for g in outer),
                  "only real overload sets (more than one function of the same name) are numbered", gm.loc(lp))
    # the numbering skips a function with a *local* function_suffix; a clone made for fewer default arguments copies the
    # source's format scope, so an explicit suffix of the source would be the clone's suffix as well: the clone either
    # gets its own (default_arg_suffix) or loses the inherited one before the numbering
    hd = gm.func("GenFunctions.has_default_args")
    tries = [t for l in ast.walk(hd) if isinstance(l, ast.For) for t in ast.walk(l)
             if isinstance(t, ast.Try) and "default_arg_suffix" in gm.seg(t)]      # the one for the clones
    if len(tries) != 1:
        raise AnalysisError("C08.R3: the default_arg_suffix lookup of has_default_args not found")
    handled = False
    for h in tries[0].handlers:
        for st in h.body:
            for c in ast.walk(st):
                if isinstance(c, ast.Call) and isinstance(c.func, ast.Attribute) and c.func.attr == "delattrs" \
                        and "function_suffix" in gm.seg(c):
                    handled = True
                if isinstance(c, ast.Assign) and (pyflow.dotted(c.targets[0]) or "").endswith(".function_suffix"):
                    handled = True
    run.check(R, "generate.GenFunctions.has_default_args:inherited-suffix", handled,
              "when default_arg_suffix has no entry for a variation with fewer arguments, the clone keeps the explicit "
              "function_suffix it copied from its source: `void apply(int a, int b = 0)` with `function_suffix: _ints` gives "
              "SFX_apply_ints(int) and SFX_apply_ints(int, int) - one C symbol for two signatures", gm.loc(tries[0]))
    # grouping key is the C++ name
    keys = [n for n in ast.walk(f) if isinstance(n, ast.Call) and isinstance(n.func, ast.Attribute)
            and n.func.attr == "setdefault" and "overloaded_functions" in gm.seg(n.func.value)]
    run.check(R, "generate.GenFunctions.define_function_suffix:group-key",
              any("function.ast.name" in gm.seg(k.args[0]) for k in keys),
              "overloads must be grouped by their C++ function name", gm.loc(f))
    # fortran_generic counter
    am = repo.module("ast")
    cd = am.func("clean_dictionary")
    s = am.seg(cd)
    run.check(R, "ast.clean_dictionary:fortran_generic-counter",
              'dct.get("function_suffix", "_" + str(isuffix))' in s and "isuffix += 1" in s and "isuffix = 0" in s,
              "default fortran_generic suffixes must be numbered by a counter incremented per item", am.loc(cd))
    inc = [n for n in ast.walk(cd) if isinstance(n, ast.AugAssign) and pyflow.is_name(n.target, "isuffix")]
    if inc:
        loops2 = [p for p in _ancestors(inc[0]) if isinstance(p, ast.For)]
        run.check(R, "ast.clean_dictionary:counter-per-item", bool(loops2) and not pyflow.dominating_tests(inc[0], stop=loops2[0]),
                  "the counter must advance for every item of the list", am.loc(inc[0]))
    # a default made from the counter can be a suffix another item gives explicitly (`function_suffix: _1` on the first
    # item, none on the second): the counter has to step over the explicit values of the same list
    explicit = {}
    for a in ast.walk(cd):
        if isinstance(a, ast.Assign) and len(a.targets) == 1 and isinstance(a.targets[0], ast.Name) and \
                isinstance(a.value, (ast.ListComp, ast.SetComp, ast.GeneratorExp)) and "function_suffix" in ast.unparse(a.value.elt):
            explicit[a.targets[0].id] = a
    steps = [c for c in ast.walk(cd) if isinstance(c, ast.Compare) and len(c.ops) == 1 and isinstance(c.ops[0], (ast.In, ast.NotIn))
             and any(pyflow.is_name(x, "isuffix") for x in ast.walk(c.left))
             and isinstance(c.comparators[0], ast.Name) and c.comparators[0].id in explicit]
    run.check(R, "ast.clean_dictionary:fortran_generic-default-suffix", bool(steps),
              "the default suffix `_<counter>` of a fortran_generic item is never compared with the suffixes given explicitly in "
              "the same list: `- decl: (float arg)  function_suffix: _1` followed by `- decl: (double arg)` names both variants "
              "<name>_1", am.loc(cd))
    # assumed rank
    ar = gm.func("GenFunctions.process_assumed_rank")
    s = gm.seg(ar)
    ok = False
    for lp in ast.walk(ar):
        if isinstance(lp, ast.For) and isinstance(lp.target, ast.Name) and isinstance(lp.iter, ast.Call) \
                and pyflow.is_name(lp.iter.func, "range"):
            for kw in [k for c in ast.walk(lp) if isinstance(c, ast.Call) for k in c.keywords]:
                if kw.arg == "function_suffix" and pat.match(pat.parse("'_{}d'.format(%s)" % lp.target.id)[1], kw.value, {}):
                    ok = True
    rng = pat.find(ar, "for MV_R in range(MV_O.F_assumed_rank_min, MV_O.F_assumed_rank_max + 1):\n    ...")
    run.check(R, "generate.GenFunctions.process_assumed_rank:ranks", len(rng) == 1,
              "one variant per rank from F_assumed_rank_min to F_assumed_rank_max inclusive (the documented maximum "
              "rank): an exclusive upper bound drops the specific for the highest rank from the generic", gm.loc(ar))
    run.check(R, "generate.GenFunctions.process_assumed_rank:suffix", ok,
              "assumed-rank variants must be suffixed with the loop's rank", gm.loc(ar))
    # default arguments: suffix indexed by the running count of defaults
    hd = gm.func("GenFunctions.has_default_args")
    s = gm.seg(hd)
    run.check(R, "generate.GenFunctions.has_default_args:suffix", "default_arg_suffix[ndefault]" in s and "ndefault += 1" in s,
              "default-argument variants take default_arg_suffix[ndefault] with ndefault advanced per variant", gm.loc(hd))
    # structural form: inside the loop that clones, the suffix list is indexed by a counter that advances
    # once per clone (same block as the clone), not by the position of the parameter
    for lp in [n for n in ast.walk(hd) if isinstance(n, ast.For)]:
        clones = [st for st in lp.body if pat.has(st, "MV_N = MV_O.clone()") and isinstance(st, ast.Assign)]
        if not clones:
            continue
        loopvars = set(x.id for x in ast.walk(lp.target) if isinstance(x, ast.Name))
        subs = pat.find(lp, "MV_F.function_suffix = MV_L[MV_I]")
        run.check(R, "generate.GenFunctions.has_default_args:suffix-index", len(subs) == 1,
                  "each default-argument variant must take its suffix from the suffix list", gm.loc(lp))
        for node, env in subs:
            idx = env["I"]
            incs = [st for st in lp.body if isinstance(st, ast.AugAssign) and pyflow.is_name(st.target, idx)
                    and isinstance(st.op, ast.Add) and isinstance(st.value, ast.Constant) and st.value.value == 1]
            ok = idx not in loopvars and len(incs) == 1
            run.check(R, "generate.GenFunctions.has_default_args:suffix-counter", ok,
                      "the suffix index `%s` must be a counter advanced exactly once per generated variant "
                      "(parameters without a default do not produce a variant, so the parameter position is "
                      "not a variant number)" % idx, gm.loc(node), sample=dict(index=idx, loop_vars=sorted(loopvars)))
            after = pat.find(hd, "MV_G.function_suffix = %s[MV_J]" % env["L"])
            run.check(R, "generate.GenFunctions.has_default_args:suffix-original",
                      any(e["J"] == idx for n2, e in after if n2 is not node),
                      "the original function (all arguments) takes the next suffix of the same counter", gm.loc(hd))
    # composition: only the first suffix-assigning pass may overwrite; every later pass works on functions
    # that may already carry a suffix and must extend it (or yield to an explicit one)
    order = []
    for c in sorted([c for c in ast.walk(f) if isinstance(c, ast.Call)], key=lambda c: (c.lineno, c.col_offset)):
        d = pyflow.call_name(c) or ""
        if d.startswith("self.") and d.count(".") == 1 and d[5:] not in order:
            order.append(d[5:])
    cls = gm.cls("GenFunctions")
    meths = {n.name: n for n in cls.body if isinstance(n, ast.FunctionDef)}

    def suffix_sites(name, seen):
        if name in seen or name not in meths:
            return []
        seen.add(name)
        out = [(name, n, e) for n, e in pat.find(meths[name], "MV_X.function_suffix = MV_V")]
        for c in ast.walk(meths[name]):
            if isinstance(c, ast.Call):
                d = pyflow.call_name(c) or ""
                if d.startswith("self.") and d.count(".") == 1:
                    out += suffix_sites(d[5:], seen)
        return out
    first = None
    nsites = 0
    for name in order:
        sites = suffix_sites(name, set())
        if not sites:
            continue
        if first is None:
            first = name
            continue
        for mname, node, env in sites:
            nsites += 1
            tgt = ast.unparse(node.targets[0])
            reads = [x for x in ast.walk(node.value) if isinstance(x, ast.Attribute) and x.attr == "function_suffix"
                     and (ast.unparse(x) == tgt or ast.unparse(x).endswith(".fmtdict.function_suffix"))]
            guarded = any("inlocal" in gm.seg(t) and "function_suffix" in gm.seg(t)
                          for t, pol in pyflow.dominating_tests(node, stop=meths[mname]))
            run.check(R, "generate.GenFunctions.%s:suffix-composition[%s]" % (mname, re.sub(r"\s+", "", gm.seg(node.targets[0]))),
                      bool(reads) or guarded,
                      "`%s` replaces a suffix that an earlier pass (%s, overload numbering) may have set: variants "
                      "of different overloads get the same name; the pass must append to the existing suffix"
                      % (gm.seg(node), first), gm.loc(node),
                      sample=dict(pass_=mname, first_pass=first, stmt=gm.seg(node)))
    # class template instantiations: the type's own suffix only when there is exactly one template argument, else
    # the running number of the instantiation
    ic = gm.func("GenFunctions.instantiate_classes")
    one = [n for n in ast.walk(ic) if isinstance(n, ast.If) and "len(targs.asts)" in gm.seg(n.test)]
    okc = len(one) == 1 and gm.seg(one[0].test) == "len(targs.asts) == 1" and \
        any(pat.has(st, "class_suffix = '_' + str(MV_I)") for st in one[0].orelse)
    run.check(R, "generate.GenFunctions.instantiate_classes:class_suffix", okc,
              "a class template with several parameters must be numbered (`_0`, `_1`): naming it after its first argument "
              "alone gives <int,long> and <int,double> the same class, file and function names", gm.loc(ic))
    tfn = gm.func("GenFunctions.template_function")
    one = [n for n in ast.walk(tfn) if isinstance(n, ast.If) and "len(targs.asts)" in gm.seg(n.test)]
    run.check(R, "generate.GenFunctions.template_function:template_suffix", len(one) == 1 and gm.seg(one[0].test) == "len(targs.asts) == 1",
              "a function template with several parameters must be numbered, not named after its first argument", gm.loc(tfn))
    run.check(R, "generate.GenFunctions.define_function_suffix:first-pass", first == "has_default_args",
              "the first suffix-assigning pass is %s (expected has_default_args, the only one allowed to overwrite)" % first,
              gm.loc(f))
    run.floor(R, "suffix assignments in later passes", nsites, 4)
    # template function: three suffix sources
    tf = gm.func("GenFunctions.template_function")
    srcs = [gm.seg(n.value) for n in ast.walk(tf) if isinstance(n, ast.Assign)
            and (pyflow.dotted(n.targets[0]) or "") == "fmt.template_suffix"]
    run.check(R, "generate.GenFunctions.template_function:suffix", len(srcs) == 3 and any("iargs" in x for x in srcs) and
              any("flat_name" in x for x in srcs),
              "template instantiations take an explicit suffix, the type's flat name, or the instantiation index", gm.loc(tf),
              sample=dict(sources=srcs))


def rule_r4(repo, run):
    R = run.rule("C08.R4", "generic interfaces list the registered specifics under the key used at registration")
    wf = repo.module("wrapf")
    impl = wf.func("Wrapf.wrap_function_impl")
    regs = [n for n in ast.walk(impl) if isinstance(n, ast.Call) and isinstance(n.func, ast.Attribute)
            and n.func.attr == "setdefault" and "generic" in wf.seg(n.func.value)]
    run.floor(R, "generic registration sites", len(regs), 4)
    for r in regs:
        tab = wf.seg(r.func.value).split(".")[-1]
        key = wf.seg(r.args[0])
        # the registered object is the node itself
        par = r._parent
        ok = isinstance(par, ast.Attribute) and par.attr == "functions"
        app = par._parent._parent if ok else None
        ok = ok and isinstance(app, ast.Call) and app.args and pyflow.is_name(app.args[0], "node")
        run.check(R, "wrapf.Wrapf.wrap_function_impl:%s[%s]" % (tab, re.sub(r"\s+", "", key)), ok,
                  "generic table must collect the function nodes themselves", wf.loc(r), sample=dict(table=tab, key=key))
        run.check(R, "wrapf.Wrapf.wrap_function_impl:%s.key" % tab, "F_name_generic" in key,
                  "generic tables must be keyed by F_name_generic", wf.loc(r))
        # module-level generics of plain functions: the interface name is the key, and the specifics
        # (F_name_impl) live in the module under their scoped names - the key needs the same scope
        conds = [(wf.seg(t), pol) for t, pol in pyflow.dominating_tests(r, stop=impl)]
        plain = tab == "f_function_generic" and ("is_ctor", False) in conds and ("cls", False) in conds
        if plain:
            kf = set(x.attr for x in ast.walk(r.args[0]) if isinstance(x, ast.Attribute))
            run.check(R, "wrapf.Wrapf.wrap_function_impl:%s.key-scope" % tab, "F_name_scope" in kf,
                      "the generic interface of a namespace-level function is registered without F_name_scope (%s): "
                      "with flattened namespaces generics of different namespaces, or of a namespace and the "
                      "library, are merged into one interface" % key, wf.loc(r), sample=dict(key=key, path=conds))
    dg = wf.func("Wrapf.dump_generic_interfaces")
    promo = pat.find(dg, """
for MV_N in generics:
    if MV_N.cpp_if != iface_cpp_if:
        iface_cpp_if = None
        break
""")
    run.check(R, "wrapf.Wrapf.dump_generic_interfaces:cpp_if-promotion", len(promo) == 1,
              "a conditional-compilation guard is only moved around the whole generic interface when *every* specific "
              "carries exactly that guard (loop over all of `generics`, plain inequality test): otherwise unconditional "
              "specifics vanish from the generic when the macro is undefined", wf.loc(dg))
    # the Python dispatcher of an overload set is named without any per-variant suffix
    wpm = repo.module("wrapp")
    md = wpm.func("Wrapp.multi_dispatch")
    for fld in SUFFIX_FIELDS:
        reset = pat.has(md, "fmt.%s = ''" % fld) or any(
            isinstance(c, ast.Call) and (pyflow.call_name(c) or "").endswith("Scope") and
            any(k.arg == fld and pyflow.const_str(k.value) == "" for k in c.keywords) for c in ast.walk(md))
        run.check(R, "wrapp.Wrapp.multi_dispatch:reset %s" % fld, reset,
                  "the dispatcher's format scope inherits %s from the first overload: the dispatcher gets the name of that "
                  "variant (duplicate definition, and it calls itself)" % fld, wpm.loc(md))
    s = wf.seg(dg)
    run.check(R, "wrapf.Wrapf.dump_generic_interfaces:specifics",
              s.count('"module procedure " + node.fmtdict.F_name_impl') == 3 and "sorted(f_function_generic.keys())" in s,
              "every branch must emit `module procedure <F_name_impl>` of each collected node, keys sorted", wf.loc(dg))
    run.check(R, "wrapf.Wrapf.dump_generic_interfaces:interface-name", '"interface " + key' in s and '"end interface " + key' in s,
              "the interface must carry the registration key", wf.loc(dg))
    run.check(R, "wrapf.Wrapf.dump_generic_interfaces:multi-only", "if force or len(generics) > 1:" in s,
              "a generic is only written for forced names or more than one specific", wf.loc(dg))
    wc = wf.func("Wrapf.wrap_class")
    s = wf.seg(wc)
    run.check(R, "wrapf.Wrapf.wrap_class:type-bound-generics", s.count("function.fmtdict.F_name_function") == 2 and
              "sorted(fileinfo.f_type_generic.keys())" in s,
              "type-bound generics must list F_name_function of each collected method", wf.loc(wc))
    # the implementation uses the same attribute for the procedure it defines
    s = wf.seg(impl)
    run.check(R, "wrapf.Wrapf.wrap_function_impl:F_name_impl", "{F_subprogram} {F_name_impl}(" in s,
              "the Fortran procedure must be defined under F_name_impl (what the generic lists)", wf.loc(impl))


def rule_r5(repo, run):
    R = run.rule("C08.R5", "un_camel is a pure function of its argument")
    um = repo.module("util")
    f = um.func("un_camel")
    params = [a.arg for a in f.args.args]
    free = set()
    assigned = set(params)
    for n in ast.walk(f):
        if isinstance(n, ast.Name) and isinstance(n.ctx, ast.Store):
            assigned.add(n.id)
    for n in ast.walk(f):
        if isinstance(n, ast.Name) and isinstance(n.ctx, ast.Load) and n.id not in assigned and n.id not in ("len",):
            free.add(n.id)
    run.check(R, "util.un_camel:pure", not free and not any(isinstance(n, (ast.Global, ast.Nonlocal)) for n in ast.walk(f)),
              "un_camel reads %s: the mapping must depend on its argument only" % sorted(free), um.loc(f),
              sample=dict(params=params))
    am = repo.module("ast")
    fn = am.func("FunctionNode.__init__")
    run.check(R, "ast.FunctionNode.__init__:underscore_name",
              "fmt_func.underscore_name = util.un_camel(fmt_func.function_name)" in am.seg(fn) and
              "fmt_func.function_name = ast.name" in am.seg(fn),
              "underscore_name must be un_camel of the declared function name", am.loc(fn))


def rule_x(repo, run):
    R = run.rule("C08.R6", "a derived type lists only its own generics (C05.R11) and a Lua method table has one entry "
                           "per name (grouping of overloads, C18.R2)")
    from checks import c05, c18
    from sa.report import import_rules
    import_rules(run, R, c05, repo, {"C05.R11"}, only=lambda c: c.startswith("wrapf."))
    import_rules(run, R, c18, repo, {"C18.R2"}, only=lambda c: "wrap_functions" in c)
    # the Lua method table of a class starts empty for every class
    wl = repo.module("wrapl")
    wcl = wl.func("Wrapl.wrap_class")
    used = set(x.attr for x in ast.walk(wcl) if isinstance(x, ast.Attribute) and pyflow.is_name(x.value, "self")
               and x.attr.endswith("_class") and isinstance(x.ctx, ast.Load))
    reset = set(t.attr for a in wcl.body if isinstance(a, ast.Assign) for t in a.targets
                if isinstance(t, ast.Attribute) and pyflow.is_name(t.value, "self"))
    for attr in sorted(used):
        run.check(R, "wrapl.Wrapl.wrap_class:self.%s" % attr, attr in reset,
                  "self.%s collects the entries of one class and is emitted per class, but wrap_class does not start it "
                  "empty: a class's table also lists the methods of the classes before it" % attr, wl.loc(wcl))
    # name scopes (F_name_scope / C_name_scope) follow the namespace's own flatten options (C14.R8)
    from checks import c14
    import_rules(run, R, c14, repo, {"C14.R8"}, only=lambda c: c.startswith("ast."))
    # template suffixes and helper names are built from flat_name: distinct C++ types have distinct flat names (C05.R17)
    import_rules(run, R, c05, repo, {"C05.R17"})


def rule_r7(repo, run):
    R = run.rule("C08.R7", "the variants for default arguments of a function template are made from its instantiations: "
                           "has_default_args never clones a node that still has template_arguments, the instantiations get their "
                           "variants, and - being left out of the overload search - the variants are named where they are made")
    gm = repo.module("generate")
    df = gm.func("GenFunctions.define_function_suffix")
    loops = [l for l in ast.walk(df) if isinstance(l, ast.For) and isinstance(l.target, ast.Name)
             and any(isinstance(c, ast.Call) and (pyflow.call_name(c) or "") == "self.template_function" for c in ast.walk(l))]
    if len(loops) != 1:
        raise AnalysisError("C08.R7: the loop of define_function_suffix that instantiates templates was not found")
    lp = loops[0]
    var = lp.target.id
    calls = [c for c in ast.walk(lp) if isinstance(c, ast.Call) and (pyflow.call_name(c) or "") == "self.has_default_args" and c.args]
    if not calls:
        raise AnalysisError("C08.R7: define_function_suffix no longer calls has_default_args")
    tmpl = "%s.template_arguments" % var
    # O1: the loop variable is cloned for its default arguments only when it is not a template
    n = 0
    for c in calls:
        if not pyflow.is_name(c.args[0], var):
            continue
        n += 1
        atoms = pyflow.path_atoms(c, stop=lp, seg=ast.unparse)
        guards = set((ast.unparse(t), pol) for t, pol in pyflow.early_exit_guards(df, c))
        ok = (tmpl, False) in atoms or (tmpl, False) in guards
        run.check(R, "generate.GenFunctions.define_function_suffix:has_default_args(%s):not-a-template" % var, ok,
                  "has_default_args(%s) clones the node for each default argument before it is instantiated: the clones of "
                  "`template<typename T> void f(T a, int b = 1)` keep the parameter of type T, are never instantiated and the C "
                  "wrapper ends in TypeError (gen_arg_as_c)" % var, gm.loc(c))
    # O2: the instantiations get their variants
    tf = [c for c in ast.walk(lp) if isinstance(c, ast.Call) and (pyflow.call_name(c) or "") == "self.template_function" and len(c.args) > 1]
    sinks = set(a.id for c in tf for a in c.args[1:] if isinstance(a, ast.Name))
    inst_vars = set()
    for l2 in ast.walk(lp):
        if isinstance(l2, ast.For) and isinstance(l2.iter, ast.Name) and l2.iter.id in sinks and isinstance(l2.target, ast.Name):
            inst_vars.add(l2.target.id)
    into_ordered = any(pyflow.is_name(a, "ordered_functions") for c in tf for a in c.args[1:])
    inst_calls = [c for c in calls if isinstance(c.args[0], ast.Name) and c.args[0].id in inst_vars]
    n += 1
    run.check(R, "generate.GenFunctions.define_function_suffix:instantiations:default-variants", bool(inst_calls),
              "template_function's instantiations are %s and has_default_args is never called on them: `f<int>(a)` (b defaulted) "
              "has no wrapper" % ("appended to ordered_functions directly" if into_ordered else "not followed"), gm.loc(tf[0]) if tf else gm.loc(lp))
    # O3: the overload search skips template instantiations, so somebody else names their variants
    skipped = False
    for l2 in ast.walk(df):
        if isinstance(l2, ast.For) and l2 is not lp and isinstance(l2.target, ast.Name):
            for i in l2.body:
                if isinstance(i, ast.If) and ast.unparse(i.test) == "%s.template_arguments" % l2.target.id and \
                        any(isinstance(x, ast.Continue) for x in i.body):
                    skipped = True
    if skipped and inst_calls:
        named = [a for a in ast.walk(lp) if isinstance(a, ast.Assign) and isinstance(a.targets[0], ast.Attribute)
                 and a.targets[0].attr == "function_suffix"]
        n += 1
        run.check(R, "generate.GenFunctions.define_function_suffix:instantiations:variants-named", bool(named),
                  "the variants of an instantiation are not part of the overload search (`if function.template_arguments: continue`) "
                  "and nothing in the instantiation branch sets their function_suffix: f<int>(a), f<int>(a, b) get one name",
                  gm.loc(inst_calls[0]))
    run.floor(R, "default-argument / template orderings", n, 2)


def rule_r8(repo, run):
    R = run.rule("C08.R8", "a registry that keeps the first value stored under a name either builds the name from a template that "
                           "carries {function_suffix}, or compares the stored value when the name is taken: overloads of one function "
                           "do not share the abstract interface of a function pointer argument")
    wf, am = repo.module("wrapf"), repo.module("ast")
    fn = wf.func("Wrapf.add_abstract_interface")
    opt = None
    for a in ast.walk(fn):
        if isinstance(a, ast.Attribute) and a.attr.endswith("_template") and "options" in ast.unparse(a.value):
            opt = a.attr
    if opt is None:
        raise AnalysisError("C08.R8: add_abstract_interface no longer names the interface from an option template")
    default = None
    for key, val in pyflow.table_fields(am.tree):
        if key == opt and pyflow.const_str(val):
            default = pyflow.const_str(val)
    if default is None:
        raise AnalysisError("C08.R8: default of %s not found in ast.py" % opt)
    stores = [a for a in ast.walk(fn) if isinstance(a, ast.Assign) and isinstance(a.targets[0], ast.Subscript)
              and "f_abstract_interface" in ast.unparse(a.targets[0].value)]
    if not stores:
        raise AnalysisError("C08.R8: add_abstract_interface no longer stores into f_abstract_interface")
    first_wins = any(("is None", True) in [(("is None" if " is None" in txt else txt), pol) for txt, pol in pyflow.path_atoms(a, stop=fn, seg=ast.unparse)]
                     for a in stores)
    collision = False
    for i in ast.walk(fn):
        if isinstance(i, ast.If) and any(isinstance(c, ast.Compare) and isinstance(c.ops[0], (ast.NotEq, ast.Eq))
                                         and any(pyflow.is_name(x, "arg") for x in ast.walk(c)) for c in ast.walk(i.test)):
            if any(isinstance(a, ast.Assign) and pyflow.is_name(a.targets[0], "name") for st in i.body + i.orelse for a in ast.walk(st)):
                collision = True
    # what is compared is the whole function pointer: its parameter list is what tells the overloads apart
    partial = None
    for i in ast.walk(fn):
        if isinstance(i, ast.If) and any(isinstance(c, ast.Compare) and any(pyflow.is_name(x, "arg") for x in ast.walk(c)) for c in ast.walk(i.test)):
            for c in ast.walk(i.test):
                if isinstance(c, ast.Call) and any(k.arg == "params" and isinstance(k.value, ast.Constant) and k.value.value is None
                                                   for k in c.keywords):
                    partial = c
                if isinstance(c, ast.Attribute) and c.attr in ("name", "typemap") and pyflow.is_name(c.value, "arg"):
                    partial = c
    if partial is not None:
        collision = False
    ok = "{function_suffix}" in default or not first_wins or collision
    run.check(R, "wrapf.Wrapf.add_abstract_interface:%s" % opt, ok,
              "the interface is registered under `%s` (no {function_suffix}) and the first one stored under a name is kept without "
              "looking at it: `int apply(int (*fn)(int), int)` and `double apply(double (*fn)(double), double)` both get "
              "procedure(apply_fn) with the int signature%s" % (default, "; the comparison `%s` leaves the parameter list out"
                                                                % ast.unparse(partial) if partial is not None else ""), wf.loc(fn))



def rule_r9(repo, run):
    R = run.rule("C08.R9", "an overloaded Python function has one method-table entry, the dispatcher: a wrapper of an overload is "
                           "never exposed under the bare name, whatever else is true of it (default arguments, ...)")
    wp = repo.module("wrapp")
    fn = wp.func("Wrapp.wrap_function")
    hides = []
    for a in ast.walk(fn):
        if isinstance(a, ast.Assign) and pyflow.is_name(a.targets[0], "expose") and isinstance(a.value, ast.Constant) and a.value.value is False:
            tests = pyflow.dominating_tests(a, stop=fn)
            if any("overloaded_methods" in ast.unparse(t) for t, pol in tests):
                hides.append((a, tests))
    if len(hides) != 1:
        raise AnalysisError("C08.R9: the `expose = False` of overloaded functions in Wrapp.wrap_function not found")
    a, tests = hides[0]
    others = [(ast.unparse(t), pol) for t, pol in tests if "overloaded_methods" not in ast.unparse(t)]
    run.check(R, "wrapp.Wrapp.wrap_function:overload-not-exposed", not others,
              "`expose = False` for a function with several overloads is reached only when %s: an overload for which that does not "
              "hold gets a method-table entry of its own under the bare name, next to the dispatcher's - two entries with one name"
              % " and ".join("%s is %s" % (t, pol) for t, pol in others), wp.loc(a))
    # ... and only a function that is alone under its name drops its suffix (the one wrapper stands for every arity)
    clears = [b for b in ast.walk(fn) if isinstance(b, ast.Assign) and isinstance(b.targets[0], ast.Attribute)
              and b.targets[0].attr == "function_suffix" and pyflow.const_str(b.value) == ""]
    for b in clears:
        tests = pyflow.dominating_tests(b, stop=fn)
        def alone(t, pol):
            """the test, taken with its polarity, says that the function has no other overload"""
            for c in ast.walk(t):
                if isinstance(c, ast.Compare) and len(c.ops) == 1 and "overloaded_methods" in ast.unparse(c.left) \
                        and isinstance(c.comparators[0], ast.Constant) and isinstance(c.comparators[0].value, int):
                    k, op = c.comparators[0].value, c.ops[0]
                    many = (isinstance(op, ast.Gt) and k >= 1) or (isinstance(op, ast.GtE) and k >= 2) or (isinstance(op, ast.NotEq) and k == 1)
                    one = (isinstance(op, ast.LtE) and k <= 1) or (isinstance(op, ast.Lt) and k <= 2) or (isinstance(op, ast.Eq) and k == 1)
                    if (many and not pol) or (one and pol):
                        return True
            return False
        excluded = any(alone(t, pol) for t, pol in tests)
        run.check(R, "wrapp.Wrapp.wrap_function:suffix-cleared-only-when-alone", excluded,
                  "`%s` is reached for a function that has other overloads as well: every overload with default arguments gets the "
                  "bare name - for its wrapper function, its splicer block and its method-table entry" % ast.unparse(b), wp.loc(b))
    if not clears:
        raise AnalysisError("C08.R9: the clearing of function_suffix for default arguments in Wrapp.wrap_function was not found")


def run(repo, run, tier):
    rule_r1(repo, run)
    rule_r2(repo, run)
    rule_r3(repo, run)
    rule_r4(repo, run)
    rule_r5(repo, run)
    rule_x(repo, run)
    rule_r7(repo, run)
    rule_r8(repo, run)
    rule_r9(repo, run)
