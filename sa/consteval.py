"""Total, side-effect free evaluator for the *table literals* of shroud.

Evaluates: constants, list/tuple/dict/set displays, dict(k=v...),
OrderedDict(), util.Scope(parent, k=v...), str + str, list + list, implicit
concatenation (already folded by the parser), str % tuple, "..".format(consts),
names bound exactly once at module level to something evaluable, unary minus,
subscripts of evaluated containers, `X.join([...])`.

Everything else evaluates to an `Unknown` (carrying the node); rules decide
whether an Unknown is fatal for them.  Values keep a `.node` back-reference
(LStr/LList/LDict subclasses) so reports can name file:line.
"""
import ast


class Unknown(object):
    def __init__(self, node, why=""):
        self.node = node
        self.why = why

    def __repr__(self):
        return "<Unknown %s line %s>" % (self.why, getattr(self.node, "lineno", "?"))


class LStr(str):
    node = None


class LList(list):
    node = None


class LDict(dict):
    node = None
    ctor = None          # "dict", "Scope", "Typemap", ...
    args = ()            # positional args (evaluated) for ctor calls


def _lstr(s, node):
    r = LStr(s)
    r.node = node
    return r


def is_unknown(v):
    return isinstance(v, Unknown)


def contains_unknown(v, _depth=0):
    if isinstance(v, Unknown):
        return True
    if _depth > 6:
        return False
    if isinstance(v, dict):
        return any(contains_unknown(x, _depth + 1) for x in v.values())
    if isinstance(v, (list, tuple, set)):
        return any(contains_unknown(x, _depth + 1) for x in v)
    return False


class Evaluator(object):
    """Evaluate expressions of one module.  `env` maps extra names to
    values (e.g. function parameters substituted by a rule)."""

    CTORS = {"dict", "OrderedDict", "Scope", "Typemap"}

    def __init__(self, module, env=None, ctors=None):
        self.module = module
        self.env = env if env is not None else {}
        self._globals = None
        self._busy = set()
        self.ctors = set(self.CTORS) | set(ctors or ())

    # -- module level single assignment table ------------------------------
    def _module_bindings(self):
        if self._globals is None:
            counts = {}
            for node in self.module.tree.body:
                targets = []
                if isinstance(node, ast.Assign):
                    targets = node.targets
                    value = node.value
                elif isinstance(node, ast.AugAssign):
                    targets = [node.target]
                    value = None
                else:
                    continue
                for t in targets:
                    if isinstance(t, ast.Name):
                        counts.setdefault(t.id, []).append(value)
            self._globals = counts
        return self._globals

    def lookup_name(self, name, node):
        if name in self.env:
            return self.env[name]
        b = self._module_bindings().get(name)
        if not b:
            if name in ("True", "False", "None"):
                return {"True": True, "False": False, "None": None}[name]
            return Unknown(node, "unbound name %s" % name)
        if len(b) != 1 or b[0] is None:
            return Unknown(node, "name %s bound %d times" % (name, len(b)))
        if name in self._busy:
            return Unknown(node, "recursive name %s" % name)
        self._busy.add(name)
        try:
            return self.eval(b[0])
        finally:
            self._busy.discard(name)

    # -- expression evaluation ------------------------------------------------
    def eval(self, node):
        m = getattr(self, "_e_" + type(node).__name__, None)
        if m is None:
            return Unknown(node, type(node).__name__)
        return m(node)

    def _e_Constant(self, node):
        v = node.value
        if isinstance(v, str):
            return _lstr(v, node)
        return v

    def _e_Name(self, node):
        return self.lookup_name(node.id, node)

    def _e_List(self, node):
        r = LList(self.eval(e) for e in node.elts)
        r.node = node
        return r

    def _e_Tuple(self, node):
        return tuple(self.eval(e) for e in node.elts)

    def _e_Set(self, node):
        out = set()
        for e in node.elts:
            v = self.eval(e)
            if is_unknown(v):
                return Unknown(node, "set with unknown element")
            out.add(v)
        return out

    def _e_Dict(self, node):
        r = LDict()
        r.node = node
        r.ctor = "{}"
        for k, v in zip(node.keys, node.values):
            if k is None:
                sub = self.eval(v)
                if isinstance(sub, dict):
                    r.update(sub)
                else:
                    return Unknown(node, "** of unknown")
                continue
            kv = self.eval(k)
            if is_unknown(kv):
                return Unknown(node, "unknown dict key")
            r[kv] = self.eval(v)
        return r

    def _e_UnaryOp(self, node):
        v = self.eval(node.operand)
        if is_unknown(v):
            return v
        try:
            if isinstance(node.op, ast.USub):
                return -v
            if isinstance(node.op, ast.UAdd):
                return +v
            if isinstance(node.op, ast.Not):
                return not v
        except Exception:
            pass
        return Unknown(node, "unary")

    def _e_BinOp(self, node):
        l = self.eval(node.left)
        r = self.eval(node.right)
        if is_unknown(l):
            return l
        if is_unknown(r):
            return r
        try:
            if isinstance(node.op, ast.Add):
                if isinstance(l, str) and isinstance(r, str):
                    return _lstr(str(l) + str(r), node)
                if isinstance(l, list) and isinstance(r, list):
                    out = LList(list(l) + list(r))
                    out.node = node
                    return out
                return l + r
            if isinstance(node.op, ast.Mod) and isinstance(l, str):
                if contains_unknown(r):
                    return Unknown(node, "% with unknown")
                return _lstr(str(l) % r, node)
            if isinstance(node.op, ast.Mult):
                v = l * r
                return _lstr(v, node) if isinstance(v, str) else v
            if isinstance(node.op, ast.Sub):
                return l - r
        except Exception as e:
            return Unknown(node, "binop failed: %s" % e)
        return Unknown(node, "binop")

    def _e_Subscript(self, node):
        v = self.eval(node.value)
        if is_unknown(v):
            return v
        idx = node.slice
        if isinstance(idx, ast.Slice):
            return Unknown(node, "slice")
        k = self.eval(idx)
        if is_unknown(k):
            return k
        try:
            return v[k]
        except Exception:
            return Unknown(node, "subscript failed")

    def _e_Attribute(self, node):
        # module.NAME of the same package is resolved by the caller through
        # env["<module>.<NAME>"] if provided.
        if isinstance(node.value, ast.Name):
            key = "%s.%s" % (node.value.id, node.attr)
            if key in self.env:
                return self.env[key]
        return Unknown(node, "attribute")

    def _call_name(self, func):
        if isinstance(func, ast.Name):
            return func.id
        if isinstance(func, ast.Attribute):
            return func.attr
        return None

    def _e_Call(self, node):
        name = self._call_name(node.func)
        # "..".format(...) / sep.join([...])
        if isinstance(node.func, ast.Attribute) and name in ("format", "join",
                                                           "lower", "upper", "split"):
            recv = self.eval(node.func.value)
            if isinstance(recv, str):
                args = [self.eval(a) for a in node.args]
                kw = {}
                for k in node.keywords:
                    if k.arg is None:
                        return Unknown(node, "**kw in str method")
                    kw[k.arg] = self.eval(k.value)
                if contains_unknown(args) or contains_unknown(kw):
                    return Unknown(node, "str method with unknown args")
                try:
                    if name == "format":
                        return _lstr(str(recv).format(*args, **kw), node)
                    if name == "join":
                        return _lstr(str(recv).join(args[0]), node)
                    if name == "lower":
                        return _lstr(str(recv).lower(), node)
                    if name == "upper":
                        return _lstr(str(recv).upper(), node)
                    if name == "split":
                        out = LList(_lstr(x, node) for x in str(recv).split(*args))
                        out.node = node
                        return out
                except Exception as e:
                    return Unknown(node, "str method failed: %s" % e)
            return Unknown(node, "method %s on non-constant" % name)
        if name in self.ctors:
            r = LDict()
            r.node = node
            r.ctor = name
            args = []
            for a in node.args:
                if isinstance(a, ast.Starred):
                    return Unknown(node, "*args")
                args.append(self.eval(a))
            r.args = tuple(args)
            if name in ("dict", "OrderedDict") and args:
                if len(args) == 1 and isinstance(args[0], dict):
                    r.update(args[0])
                elif len(args) == 1 and isinstance(args[0], (list, tuple)):
                    try:
                        for k, v in args[0]:
                            r[k] = v
                    except Exception:
                        return Unknown(node, "dict(iterable)")
                else:
                    return Unknown(node, "dict(positional)")
            for k in node.keywords:
                if k.arg is None:
                    sub = self.eval(k.value)
                    if isinstance(sub, dict):
                        r.update(sub)
                    else:
                        r["**"] = sub
                    continue
                r[k.arg] = self.eval(k.value)
            return r
        if name in ("list", "tuple") and len(node.args) <= 1 and not node.keywords:
            if not node.args:
                out = LList()
                out.node = node
                return out
            v = self.eval(node.args[0])
            if isinstance(v, (list, tuple)):
                out = LList(v)
                out.node = node
                return out
        if name == "set" and not node.args:
            return set()
        return Unknown(node, "call %s" % name)

    def _e_IfExp(self, node):
        return Unknown(node, "conditional expression")

    def _e_JoinedStr(self, node):
        parts = []
        for v in node.values:
            if isinstance(v, ast.Constant):
                parts.append(str(v.value))
            else:
                return Unknown(node, "f-string")
        return _lstr("".join(parts), node)
