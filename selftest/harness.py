"""Checker self-test: run each rule against seeded variants of the *current*
/repo source, applied as in-memory overlays (nothing is written).

A variant is (property, rule, id, file, old, new, expect[, construct]):
  expect = "fire"    the check must report a NEW violation of `rule` (whose
                     construct contains `construct` when given)
  expect = "silent"  the set of violations must equal the base run's
  expect = "error"   the check must stop with ANALYSIS-ERROR
`old` must occur exactly once in the file; when /repo has been edited so that
it no longer does, the variant is skipped (reported, not failed).
"""
import importlib
import os
import sys
import traceback
from multiprocessing import Pool

HERE = os.path.dirname(os.path.dirname(os.path.abspath(__file__)))
if HERE not in sys.path:
    sys.path.insert(0, HERE)

from sa.loader import Repo, AnalysisError  # noqa: E402
from sa.report import Run  # noqa: E402
from sa import general  # noqa: E402


def _violations(prop, repo_root, overlay):
    mod = importlib.import_module("checks.%s" % prop.lower())
    repo = Repo(repo_root, overlay)
    run = Run(prop, "quick", write=False, known={"findings": [], "fixed": []})
    mod.run(repo, run, "quick")
    general.attach(repo, run, prop)
    if run.deferred_errors and not run.violations:
        raise AnalysisError("; ".join(run.deferred_errors))
    return set((v["rule"], v["construct"]) for v in run.violations), run


def _one(args):
    prop, variant, repo_root, base = args
    vid = variant["id"]
    try:
        repo = Repo(repo_root)
        edits = variant.get("edits") or [(variant["file"], variant["old"], variant["new"])]
        overlay = {}
        for ed in edits:
            fname, old, new_ = ed[:3]
            line = ed[3] if len(ed) > 3 else None
            text = overlay.get(fname)
            if text is None:
                text = repo.read(fname)
            cnt = text.count(old)
            if cnt == 1 or (cnt > 1 and line is not None):
                # several identical contexts: take the one closest to the hunk's line number
                pos, best = -1, None
                while True:
                    pos = text.find(old, pos + 1)
                    if pos < 0:
                        break
                    ln = text.count("\n", 0, pos) + 1
                    if best is None or abs(ln - (line or ln)) < abs(best[1] - (line or ln)):
                        best = (pos, ln)
                overlay[fname] = text[:best[0]] + new_ + text[best[0] + len(old):]
            else:
                return dict(id=vid, status="skipped", why="anchor occurs %d times in %s" % (cnt, fname))
        # the mutated files must still compile
        for fname, text in overlay.items():
            if fname.endswith(".py"):
                compile(text, fname, "exec")
        try:
            got, _ = _violations(prop, repo_root, overlay)
        except AnalysisError as e:
            if variant["expect"] == "error":
                return dict(id=vid, status="ok", detail="ANALYSIS-ERROR: %s" % e)
            return dict(id=vid, status="failed", why="unexpected ANALYSIS-ERROR: %s" % e)
        new = got - base
        if variant["expect"] == "fire":
            hits = [c for (r, c) in new if (variant["rule"] is None or r == variant["rule"])
                    and variant.get("construct", "") in c]
            if hits:
                return dict(id=vid, status="ok", detail="reported %s" % sorted(hits)[:3])
            return dict(id=vid, status="failed",
                        why="expected %s to fire (construct ~ %r); new violations: %s"
                            % (variant["rule"], variant.get("construct", ""), sorted(new)[:5]))
        if variant["expect"] == "silent":
            if got == base:
                return dict(id=vid, status="ok", detail="no change in findings")
            return dict(id=vid, status="failed",
                        why="behaviour-preserving edit changed findings: +%s -%s"
                            % (sorted(new)[:5], sorted(base - got)[:5]))
        if variant["expect"] == "error":
            return dict(id=vid, status="failed", why="expected ANALYSIS-ERROR, check completed")
        return dict(id=vid, status="failed", why="bad expectation %r" % variant["expect"])
    except SyntaxError as e:
        return dict(id=vid, status="failed", why="variant does not compile: %s" % e)
    except Exception:
        return dict(id=vid, status="failed", why="exception: " + traceback.format_exc()[-600:])


def _hunks(patch_text):
    """(file, old block, new block) for each hunk of a unified diff"""
    out = []
    fname = None
    old, new_ = [], []

    start = [None]

    def flush():
        if fname and (old or new_) and old != new_:
            out.append((fname, "".join(old), "".join(new_), start[0]))
    for line in patch_text.splitlines(True):
        if line.startswith("+++ "):
            flush()
            old, new_ = [], []
            fname = line[4:].strip()
            if fname.startswith("b/"):
                fname = fname[2:]
        elif line.startswith("--- ") or line.startswith("diff ") or line.startswith("index "):
            continue
        elif line.startswith("@@"):
            flush()
            old, new_ = [], []
            import re as _re
            m = _re.match(r"@@ -(\d+)", line)
            start[0] = int(m.group(1)) if m else None
        elif fname is None:
            continue
        elif line.startswith("-"):
            old.append(line[1:])
        elif line.startswith("+"):
            new_.append(line[1:])
        elif line.startswith(" "):
            old.append(line[1:])
            new_.append(line[1:])
        elif line.startswith("\\"):
            continue
    flush()
    return out


def seeded_variants(prop=None):
    """The changes produced by the seeding sub-agents (/verif/seeded/<prop>/<k>/patch.diff), as variants
    that the check of their own property must report (unless meta.json says it is not decidable)."""
    import glob
    import json
    out = []
    for patch in sorted(glob.glob(os.path.join(HERE, "seeded", "C??", "*", "patch.diff"))):
        p, k = patch.split(os.sep)[-3:-1]
        if prop is not None and p != prop:
            continue
        meta = {}
        mp = os.path.join(os.path.dirname(patch), "meta.json")
        if os.path.exists(mp):
            with open(mp) as fp:
                meta = json.load(fp)
        if meta.get("why_missed") or meta.get("pending"):
            # why_missed: documented as not decidable by this property's check;
            # pending: taken in from a seeding round, rules not yet written (development state only)
            continue
        with open(patch) as fp:
            edits = _hunks(fp.read())
        out.append(dict(property=p, rule=None, id="seeded-%s-%s" % (p, k), edits=edits, expect="fire", construct=""))
    return out


def load_variants(prop=None):
    from selftest import variants
    out = []
    for v in variants.VARIANTS:
        if prop is None or v["property"] == prop:
            out.append(v)
    return out + seeded_variants(prop)


def run_for(prop, repo_root=None, jobs=None):
    vs = load_variants(prop)
    if not vs:
        return dict(variants=0, ok=0, skipped=0, failed=[], results=[])
    base, _ = _violations(prop, repo_root, None)
    jobs = jobs or min(16, len(vs))
    args = [(prop, v, repo_root, base) for v in vs]
    if jobs > 1:
        with Pool(jobs) as pool:
            results = pool.map(_one, args)
    else:
        results = [_one(a) for a in args]
    failed = [r for r in results if r["status"] == "failed"]
    return dict(variants=len(vs), ok=len([r for r in results if r["status"] == "ok"]),
                skipped=len([r for r in results if r["status"] == "skipped"]),
                failed=["%s: %s" % (r["id"], r["why"]) for r in failed],
                results=results)


def main(props, repo_root=None):
    from selftest import variants
    allprops = sorted(set(v["property"] for v in variants.VARIANTS))
    props = [p.upper() for p in props] or allprops
    worst = 0
    for p in props:
        res = run_for(p, repo_root)
        print("%s self-test: %d variants, %d ok, %d skipped, %d failed"
              % (p, res["variants"], res["ok"], res["skipped"], len(res["failed"])))
        for r in res["results"]:
            if r["status"] != "ok":
                print("   %s %s %s" % (r["status"].upper(), r["id"], r.get("why", "")))
        if res["failed"]:
            worst = 2
    return worst
