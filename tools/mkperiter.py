#!/usr/bin/env python3
"""Development aid: record, for every function of /repo's shroud package, the variables that are
re-initialised inside a loop (sa/periter.json), the reference of sa.lints.lost_reset.
Regenerate after /repo fix commits:  python3 tools/mkperiter.py"""
import json
import os
import sys

HERE = os.path.dirname(os.path.dirname(os.path.abspath(__file__)))
sys.path.insert(0, HERE)
sys.dont_write_bytecode = True

from sa.loader import Repo  # noqa: E402
from sa import lints, general  # noqa: E402


def main():
    repo = Repo(os.environ.get("VERIF_REPO", "/repo"))
    out = {}
    for mn in general.MODULES:
        m = repo.module(mn)
        for q, fn in sorted(m.functions().items()):
            d = {k: v for k, v in lints.reset_depths(fn).items() if v > 0}
            if d:
                out["%s.%s" % (mn, q)] = d
    with open(os.path.join(HERE, "sa", "periter.json"), "w") as fp:
        json.dump(out, fp, indent=0, sort_keys=True)
    print("functions with per-iteration state:", len(out), "variables:", sum(len(v) for v in out.values()))


if __name__ == "__main__":
    main()
