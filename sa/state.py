"""Process-wide mutable state: inventory and mutation sites (C07.R1)."""
import ast

from . import pyflow
from .loader import enclosing_function, enclosing_class

MUTABLE_CTORS = ("dict", "list", "set", "OrderedDict", "defaultdict", "Scope", "deque")


def is_mutable_value(v):
    if isinstance(v, (ast.Dict, ast.List, ast.Set, ast.ListComp, ast.DictComp, ast.SetComp)):
        return True
    if isinstance(v, ast.Call):
        n = (pyflow.call_name(v) or "").split(".")[-1]
        return n in MUTABLE_CTORS
    return False


class Binding(object):
    def __init__(self, kind, module, name, node, cls=None):
        self.kind = kind            # 'module' | 'class' | 'global-rebind'
        self.module = module
        self.name = name
        self.node = node
        self.cls = cls
        self.mutations = []         # (fid, node, how)
        self.rebinds = []           # (fid, node)

    @property
    def ident(self):
        if self.cls:
            return "%s.%s.%s" % (self.module, self.cls, self.name)
        return "%s.%s" % (self.module, self.name)


def inventory(program):
    out = {}
    for mn, m in program.mods.items():
        for node in m.tree.body:
            if isinstance(node, ast.Assign) and is_mutable_value(node.value):
                for t in node.targets:
                    if isinstance(t, ast.Name):
                        b = Binding("module", mn, t.id, node)
                        out[b.ident] = b
            if isinstance(node, ast.ClassDef):
                for st in node.body:
                    if isinstance(st, ast.Assign) and is_mutable_value(st.value):
                        for t in st.targets:
                            if isinstance(t, ast.Name):
                                b = Binding("class", mn, t.id, st, cls=node.name)
                                out[b.ident] = b
        # names rebound through `global`
        for fid, f in program.funcs.items():
            if program.module_of(fid) != mn:
                continue
            for node in ast.walk(f):
                if isinstance(node, ast.Global):
                    for name in node.names:
                        ident = "%s.%s" % (mn, name)
                        if ident not in out:
                            out[ident] = Binding("global-rebind", mn, name, node)
    return out


def _local_names(func):
    """Names assigned (bound) inside func, excluding those declared global."""
    glob = set()
    bound = set()
    for a in func.args.args + func.args.kwonlyargs:
        bound.add(a.arg)
    if func.args.vararg:
        bound.add(func.args.vararg.arg)
    if func.args.kwarg:
        bound.add(func.args.kwarg.arg)
    for node in ast.walk(func):
        if isinstance(node, ast.Global):
            glob.update(node.names)
        elif isinstance(node, ast.Name) and isinstance(node.ctx, ast.Store):
            bound.add(node.id)
    return bound - glob, glob


def _expr_root(e):
    """Root Name id of an access path: a.b[c].d(...)... -> 'a' (method calls on
    the object included: a.setdefault(k, {}) yields part of a)."""
    while True:
        if isinstance(e, ast.Name):
            return e.id
        if isinstance(e, (ast.Attribute, ast.Subscript, ast.Starred)):
            e = e.value
        elif isinstance(e, ast.Call) and isinstance(e.func, ast.Attribute) and \
                e.func.attr in ("setdefault", "get", "values", "items", "keys", "pop"):
            e = e.func.value
        else:
            return None


def alias_roots(func):
    """{local name: set(root names)}: locals that may alias (part of) another
    name through assignment or iteration.  Flow-insensitive fixed point."""
    direct = {}
    for node in ast.walk(func):
        if enclosing_function(node) is not func and node is not func:
            continue
        pairs = []
        if isinstance(node, ast.Assign) and len(node.targets) == 1:
            pairs.append((node.targets[0], node.value))
        elif isinstance(node, (ast.For, ast.comprehension)):
            pairs.append((node.target, node.iter))
        for tgt, val in pairs:
            r = _expr_root(val)
            if r is None:
                continue
            names = [tgt] if isinstance(tgt, ast.Name) else \
                [e for e in getattr(tgt, "elts", []) if isinstance(e, ast.Name)]
            for n in names:
                direct.setdefault(n.id, set()).add(r)
    changed = True
    while changed:
        changed = False
        for k, roots in direct.items():
            for r in list(roots):
                for rr in direct.get(r, ()):
                    if rr not in roots and rr != k:
                        roots.add(rr)
                        changed = True
    return direct


def param_mutation_summaries(program):
    """{fid: set(param names mutated in place)} (fixed point through calls)."""
    direct = {}
    params = {}
    for fid, f in program.funcs.items():
        names = [a.arg for a in f.args.args]
        params[fid] = names
        mutated = set()
        ali = alias_roots(f)
        for kind, recv, node in pyflow.mutation_sites(list(f.body)):
            if recv is None or kind == "augassign":
                continue
            root = recv.split(".")[0]
            if kind == "setattr" and recv.count(".") == 0:
                continue
            for r0 in [root] + sorted(ali.get(root, ())):
                if r0 in names and r0 != "self":
                    mutated.add(r0)
        direct[fid] = mutated
    changed = True
    it = 0
    while changed and it < 12:
        changed = False
        it += 1
        for fid in program.funcs:
            for call in program.calls_of(fid):
                ids, how = program.resolve_call(call, fid)
                if how.startswith("byname-multi") or how == "unresolved":
                    continue
                for cid in ids:
                    pn = params.get(cid, [])
                    off = 1 if pn and pn[0] == "self" and how != "module" else 0
                    if how in ("ctor",):
                        off = 1
                    for i, a in enumerate(call.args):
                        if isinstance(a, ast.Name) and a.id in params[fid] and a.id != "self":
                            j = i + off
                            if j < len(pn) and pn[j] in direct[cid] and a.id not in direct[fid]:
                                direct[fid].add(a.id)
                                changed = True
    return direct, params


def collect_mutations(program, bindings):
    summaries, params = param_mutation_summaries(program)
    # per module: alias name by which other modules see it
    for fid, f in program.funcs.items():
        mn = program.module_of(fid)
        local, glob = _local_names(f)
        cls = enclosing_class(f)
        imports = program.imports.get(mn, {})
        ali = alias_roots(f)

        def binding_for(recv_dotted):
            """Map a dotted receiver to a Binding or None."""
            if not recv_dotted:
                return None
            parts = recv_dotted.split(".")
            # module-level name in own module
            if parts[0] not in local:
                b = bindings.get("%s.%s" % (mn, parts[0]))
                if b is not None and b.kind in ("module", "global-rebind"):
                    return b
            # other module
            if parts[0] in imports and len(parts) >= 2:
                b = bindings.get("%s.%s" % (imports[parts[0]], parts[1]))
                if b is not None:
                    return b
                if len(parts) >= 3:
                    b = bindings.get("%s.%s.%s" % (imports[parts[0]], parts[1], parts[2]))
                    if b is not None:
                        return b
            # class attribute through self / cls / ClassName
            if len(parts) >= 2 and parts[0] in ("self", "cls") and cls is not None:
                cid = getattr(cls, "_cid", None)
                for c in (program.mro(cid) if cid else []):
                    cm, cn = c.split(":")
                    b = bindings.get("%s.%s.%s" % (cm, cn, parts[1]))
                    if b is not None:
                        if parts[0] == "self" and _instance_shadowed(program, c, parts[1]):
                            return None
                        return b
            if len(parts) >= 2:
                b = bindings.get("%s.%s.%s" % (mn, parts[0], parts[1]))
                if b is not None and parts[0] not in local:
                    return b
            return None

        for kind, recv, node in pyflow.mutation_sites(list(f.body)):
            if enclosing_function(node) is not f:
                continue
            if kind == "augassign":
                continue
            if kind == "setattr":
                # x.y = v mutates object x
                if recv is None or "." not in recv:
                    continue
                b = binding_for(recv.rsplit(".", 1)[0])
                # rebinding a class attribute through self creates an instance attribute: not a mutation
                if b is not None and not recv.startswith("self."):
                    b.mutations.append((fid, node, "attribute store %s" % recv))
                continue
            b = binding_for(recv)
            if b is not None:
                b.mutations.append((fid, node, "%s on %s" % (kind, recv)))
            elif recv:
                root = recv.split(".")[0]
                for r0 in sorted(ali.get(root, ())):
                    if r0 in local and r0 not in glob:
                        continue
                    b = binding_for(r0)
                    if b is not None:
                        b.mutations.append((fid, node, "%s on %s (alias of %s)" % (kind, recv, r0)))
        # arguments passed to mutating callees
        for call in program.calls_of(fid):
            ids, how = program.resolve_call(call, fid)
            if how.startswith("byname-multi") or how == "unresolved":
                continue
            for cid in ids:
                pn = params.get(cid, [])
                off = 1 if pn and pn[0] == "self" and how != "module" else 0
                if how == "ctor":
                    off = 1
                for i, a in enumerate(call.args):
                    d = pyflow.dotted(a)
                    if not d:
                        continue
                    j = i + off
                    if j < len(pn) and pn[j] in summaries.get(cid, ()):
                        b = binding_for(d)
                        if b is not None:
                            b.mutations.append((fid, call, "passed to %s which mutates parameter %s"
                                                % (cid, pn[j])))
        # rebinding
        for node in ast.walk(f):
            if enclosing_function(node) is not f:
                continue
            if isinstance(node, ast.Assign):
                for t in node.targets:
                    if isinstance(t, ast.Name) and t.id in glob:
                        b = bindings.get("%s.%s" % (mn, t.id))
                        if b is not None:
                            b.rebinds.append((fid, node))
    return bindings


def _instance_shadowed(program, cid, attr):
    """True when some method of the class (or a base in the package) assigns
    self.<attr> = ... in __init__ (each instance then has its own object)."""
    for c in program.mro(cid):
        init = program.funcs.get(c + ".__init__")
        if init is None:
            continue
        for node in ast.walk(init):
            if isinstance(node, ast.Assign):
                for t in node.targets:
                    if isinstance(t, ast.Attribute) and pyflow.is_name(t.value, "self") and t.attr == attr:
                        return True
    return False
