"""General lints (sa/lints.py), reported under the properties a finding can break.

A general lint knows what is wrong with a construct but not which of the 18 properties the construct serves.
That comes from sa/attribution.json (tools/mkattrib.py): the functions named by the anchors of a property and
the functions in which a *demonstrated* property-breaking change was made (the seeded changes).  A finding in
a function without attribution to the running property is not reported by it (it is counted as `elsewhere`
in the evidence); a property never speaks for code that nothing ties to its statement.

Lints that need no baseline are semantic on their own (the construct is wrong whatever the code looked like
before).  Each declares the properties it can speak for: documentation-only, determinism and diagnostics
properties (C07, C13, C15, C16, C17) are excluded unless the lint is about their subject.
"""
import ast
import json
import os

from . import lints

_HERE = os.path.dirname(os.path.abspath(__file__))
_ATTR = None

MODULES = ("ast", "declast", "generate", "main", "statements", "todict", "typemap", "util", "whelpers",
           "wrapc", "wrapf", "wrapl", "wrapp")

BEHAVIOURAL = {"C01", "C02", "C03", "C04", "C05", "C06", "C08", "C09", "C10", "C11", "C12", "C14", "C18"}


def attribution():
    global _ATTR
    if _ATTR is None:
        with open(os.path.join(_HERE, "attribution.json")) as fp:
            _ATTR = json.load(fp)
    return _ATTR


def properties_of(modname, qual):
    a = attribution()
    out = set(a.get("%s.%s" % (modname, qual), ()))
    # a nested function belongs to its enclosing function
    while not out and ".<locals>." in qual:
        qual = qual.rsplit(".<locals>.", 1)[0]
        out = set(a.get("%s.%s" % (modname, qual), ()))
    return out


_PERITER = None

# which properties the per-iteration variables of sa/periter.json serve (read off the code, one line each);
# a recorded variable that is not listed falls back to the attribution of its function
PERITER_PROPS = {
    ("ast.EnumNode.__init__", "incr"): {"C11"},                 # successor of the previous enumerator
    ("ast.EnumNode.__init__", "value_is_int"): {"C11"},         # integer / symbolic successor mode
    ("declast.Declaration.gen_arg_as_lang", "comma"): {"C09", "C02"},   # separator of rendered parameters
    ("declast.Parser.attribute", "parens"): {"C09"},            # nesting count of one attribute value
    ("declast.tokenize", "typ"): {"C09"},                       # kind of the current token
    ("generate.GenFunctions.arg_to_buffer", "specialize"): {"C01", "C10"},   # statement suffix of one argument
    ("main.main_with_args", "value"): {"C14"},                  # value of one --option
    ("util.WrapperMixin.write_continue", "dump"): {"C13"},
    ("util.WrapperMixin.write_continue", "nparts"): {"C13"},
    ("util.WrapperMixin.write_continue", "part"): {"C13"},
    ("util.WrapperMixin.write_continue", "save"): {"C13"},
    ("wrapc.Wrapc.wrap_function", "arg_call"): {"C02"},         # call expression of one argument
    ("wrapc.Wrapc.wrap_function", "cxx_local_var"): {"C02"},    # form of one argument's local
    ("wrapc.Wrapc.wrap_function", "need_wrapper"): {"C02"},
    ("wrapf.Wrapf.build_arg_list_interface", "intent"): {"C04"},   # intent of one dummy argument
    ("wrapf.Wrapf.dump_generic_interfaces", "literalinclude"): {"C14"},   # markers of one generic interface (comments: C16 holds)
    ("wrapf.Wrapf.wrap_class", "any_cpp_if"): {"C05"},          # conditional compilation of one generic
    ("wrapf.Wrapf.wrap_function_impl", "is_f_arg"): {"C01"},
    ("wrapf.Wrapf.wrap_function_impl", "need_wrapper"): {"C01"},
    ("wrapf.Wrapf.wrap_function_impl", "specialize"): {"C01"},
    ("wrapl.Wrapl.do_function", "intent_blk"): {"C18"},         # statements of one argument
    ("wrapl.Wrapl.do_function", "stmts"): {"C18"},
    ("wrapl.Wrapl.wrap_function", "ifelse"): {"C18"},           # first / later branch of one count
    ("wrapp.Wrapp.create_arraydescr", "PYN_typenum"): {"C03"},
    ("wrapp.Wrapp.multi_dispatch", "expose"): {"C03"},
    ("wrapp.Wrapp.multi_dispatch", "return_arg"): {"C03"},
    ("wrapp.Wrapp.multi_dispatch", "return_code"): {"C03"},
    ("wrapp.Wrapp.wrap_function", "extra_scope"): {"C03", "C05"},
    ("wrapp.Wrapp.wrap_function", "intent_blk"): {"C03"},       # statements of one argument
    ("wrapp.Wrapp.wrap_function", "stmts"): {"C03"},
    ("wrapp.Wrapp.wrap_function", "need_blank"): set(),         # blank lines only
}


def _lost_reset(repo, modules):
    global _PERITER
    if _PERITER is None:
        with open(os.path.join(_HERE, "periter.json")) as fp:
            _PERITER = json.load(fp)
    return lints.lost_reset(repo, modules, _PERITER)


_DOCS = None


def _memoised(repo, modules):
    """documented format fields = every word of docs/*.rst (an over-approximation: fewer findings, never more)"""
    global _DOCS
    import glob
    import re
    if _DOCS is None or _DOCS[0] != repo.root:
        words = set()
        for f in glob.glob(os.path.join(repo.root, "docs", "*.rst")):
            with open(f) as fp:
                words.update(re.findall(r"[A-Za-z_][A-Za-z_0-9]*", fp.read()))
        _DOCS = (repo.root, words)
    return lints.memoised_scope_field(repo, modules, _DOCS[1])


LINTS = [
    # (name, function, properties it may speak for, what a finding means)
    ("swapped-arguments", lints.swapped_arguments, BEHAVIOURAL,
     "two arguments of a call are in each other's position"),
    ("index-guard", lints.overstrict_index_guard, BEHAVIOURAL,
     "a bound that protects a subscript excludes a valid index"),
    ("container-flag", lambda repo, modules: lints.container_flag_in_element_loop(repo, modules, ("wrap",)), {"C15"},
     "inside a loop over the children of a node a wrap flag of the node itself is tested"),
    ("container-option", lambda repo, modules: lints.container_flag_in_element_loop(repo, modules, ("options",)),
     BEHAVIOURAL, "inside a loop over the children of a node an option of the node itself is tested"),
    ("partial-field-update", lints.partial_field_update, BEHAVIOURAL | {"C15"},
     "a record method treats all fields of the constructor alike, except one"),
    ("flag-read-after-clear", lints.flag_read_after_clear, {"C15", "C01", "C02"},
     "a wrap flag is handed on after the same function has switched it off"),
    ("mixed-indirection", lints.mixed_indirection_predicates, BEHAVIOURAL | {"C17"},
     "is_pointer() alone next to is_indirect() on the same declaration"),
    ("validation-skips-falsy", lints.validation_skips_falsy, {"C17"},
     "a type check of user input is short-circuited by the truthiness of the same value"),
    ("memoised-scope-field", _memoised, BEHAVIOURAL,
     "an undocumented format field is computed only if the (shared) scope does not have it yet"),
    ("source-mutated-in-clone-loop", lints.source_mutated_in_clone_loop, {"C08", "C14"},
     "the node that a loop clones is itself changed inside the loop"),
    ("optional-truthiness", lambda repo, modules: lints.truthiness_of_optional(repo, modules), BEHAVIOURAL,
     "a parsed field for which None and empty/zero differ (init, params, args) is tested for truthiness"),
    ("shallow-clone-shares-list", lints.shallow_clone_shares_list, BEHAVIOURAL,
     "a list of the original that passes append to is shared by every clone made with copy.copy"),
    ("copy-shares-state", lints.copy_shares_state, BEHAVIOURAL,
     "a method that returns a new object made from self returns self, or shares self's dictionaries with it"),
    ("shared-container", lints.shared_mutable_containers, {"C07"},
     "a class-level container or a mutable default argument is changed through instances"),
    ("required-key-presence-only", lambda repo, modules: lints.required_key_presence_only(repo, ("ast", "typemap", "main")), {"C17"},
     "a required key of the input file is tested for presence only: a blank entry (None) satisfies the requirement"),
    ("break-on-element-flag", lints.break_on_element_flag, BEHAVIOURAL | {"C15"},
     "a loop over declarations is left at the first element whose wrap flag is off"),
    ("inherited-container-mutated", lints.inherited_container_mutated, BEHAVIOURAL | {"C07"},
     "a list looked up through a Scope's parent is changed in place"),
    ("first-wins-memo", lints.first_wins_class_memo, {"C07"},
     "a class attribute is filled once per process and read by every later run"),
    ("scope-from-other-key", lints.scope_from_other_key, BEHAVIOURAL,
     "a language's name-scope prefix is derived from another language's prefix of the parent"),
    ("language-spelling", lints.language_spelling, BEHAVIOURAL,
     "a language value is compared with \"c++\" after it was normalised to \"cxx\""),
    ("write-only-key", lints.write_only_key, {"C01", "C04"},
     "a key is stored in the one of attrs / metaattrs that nobody reads it from"),
    ("identity-test-on-option", lints.identity_test_on_option, BEHAVIOURAL | {"C15", "C14"},
     "an option or wrap flag is compared with `is False` / `is True`: 0 / 1 from the YAML file or --option are not the singletons"),
    ("dead-validation-flag", lints.validation_flag_never_set, {"C17"},
     "a diagnostic is guarded by a flag that nothing ever sets"),
    ("snapshot-before-update", lints.snapshot_before_update, BEHAVIOURAL | {"C14"},
     "a deep copy of a list is taken before the originals have received what the user wrote for them"),
    ("odd-source", lints.odd_source_in_copy_run, BEHAVIOURAL | {"C15"},
     "one statement of a run of same-shaped attribute copies takes its value from another object or another attribute"),
    ("sibling-assignments", lints.sibling_assignments_diverge, BEHAVIOURAL,
     "one of several sibling fields that get the same value is assigned under a condition of its own"),
    ("break-after-match", lints.break_after_membership_match, BEHAVIOURAL | {"C17"},
     "a loop that applies the entries of a table to the items stops after the first match"),
    ("paired-writes", lints.paired_key_writes, BEHAVIOURAL,
     "a key that is written to two dictionaries in step is written to only one of them in some branch"),
    ("format-before-inputs", lints.format_before_inputs, BEHAVIOURAL,
     "a name template is expanded before a field it uses is assigned"),
    ("falsy-numeric-option", lints.falsy_default_on_numeric_option, BEHAVIOURAL | {"C13"},
     "a numeric option is replaced by a default through `or` (0 is a value)"),
    ("singleton-shortcut", lints.singleton_shortcut_mismatch, BEHAVIOURAL,
     "the shortcut for a single element tests the length of another list than the one it reads"),
    ("early-exit-skips-traversal", lints.early_exit_skips_traversal, BEHAVIOURAL | {"C15"},
     "the visit of one kind of children is skipped when another kind is empty"),
    ("none-then-attribute", lints.none_then_attribute, BEHAVIOURAL | {"C16", "C17"},
     "a local is set to None under a condition and an attribute of it is read further down without a test"),
    ("memo-scope-owner", lints.memo_scope_owner_mismatch, BEHAVIOURAL,
     "a scope parented to one node is kept (setdefault) in a table that belongs to another node"),
    ("undefined-name", lints.undefined_names, BEHAVIOURAL | {"C17"},
     "a name is read that is bound nowhere: NameError when the statement is reached"),
    ("lost-reset", _lost_reset, BEHAVIOURAL,
     "per-iteration state (recorded in sa/periter.json) is no longer re-initialised inside its loop"),
]


def run_general(repo, run, R, pid, modules=MODULES):
    """report, under rule R of property pid, the findings of the general lints in functions attributed to pid"""
    total = elsewhere = 0
    for name, fn, domain, what in LINTS:
        if pid not in domain and name != "lost-reset":
            continue
        found, n = fn(repo, modules)
        total += n
        mine = []
        for mn, q, node, msg in found:
            props = properties_of(mn, q) & domain
            if len(domain) == 1:
                props = set(domain)      # the lint is about this property's subject wherever it fires
            if name == "lost-reset" and isinstance(node, ast.Assign):
                props = PERITER_PROPS.get(("%s.%s" % (mn, q), node.targets[0].id), props)
            if name == "shallow-clone-shares-list":
                props = props | {"C08"}    # clones are the per-signature variants C08 counts
            if name in ("undefined-name", "none-then-attribute"):
                props = props | {"C17"}    # an internal failure on whatever input reaches the statement
            if name == "container-option":
                # the option that is read says which wrapper it configures; C14 is about where an option may be stated
                import re
                mo = re.search(r"reads \w+\.(?:options\.)?(\w+)", msg)
                opt = mo.group(1) if mo else ""
                by_prefix = {"PY_": {"C03"}, "F_": {"C01", "C04"}, "C_": {"C02"}, "LUA_": {"C18"}, "CXX_": {"C02"}}
                for pre, ps in by_prefix.items():
                    if opt.startswith(pre):
                        props = props | ps | {"C14"}
                        break
                else:
                    props = props | {"C14"}
            if isinstance(node, ast.Call):
                # a call-site finding also concerns what the callee is for
                f = node.func
                cname = f.attr if isinstance(f, ast.Attribute) else (f.id if isinstance(f, ast.Name) else None)
                if cname:
                    for key, ps in attribution().items():
                        if key.endswith("." + cname):
                            props = props | set(ps)
            if pid in props:
                mine.append((mn, q, node, msg))
            else:
                elsewhere += 1
        for mn, q, node, msg in mine:
            m = repo.module(mn)
            run.fail(R, "%s.%s:%s@%s" % (mn, q, name, " ".join(str(m.seg(node)).split())[:50]), msg, m.loc(node))
        if not mine:
            run.ok(R, "general-lint:%s" % name, sample=dict(lint=name, sites=n, what=what))
    return total, elsewhere


def attach(repo, run, pid):
    """called by the drivers after the property's own rules"""
    R = run.rule("%s.G1" % pid, "general lints over the functions this property is anchored in or was shown to depend on "
                                "(sa/general.py: swapped call arguments, over-strict index guards, per-iteration state that lost its reset, container flags/options tested per child, record methods that skip a field, wrap flags read after being cleared, is_pointer() next to is_indirect(), truthiness of optional parsed fields, copies that share state, shared containers)")
    total, elsewhere = run_general(repo, run, R, pid)
    run.rules[R]["floor"] = "sites looked at: %d; findings attributed to other properties: %d" % (total, elsewhere)
