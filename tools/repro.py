#!/usr/bin/env python3
"""Development aid: re-run the YAML input of each seeded demonstration with the
unmodified and the patched generator (scratch worktrees under $TMPDIR, removed
afterwards) and report whether outputs / exit status differ.  Demonstrations
that need special command lines are reported as 'same' and are checked by hand."""
import filecmp, glob, json, os, re, shutil, subprocess, sys, tempfile
HERE = os.path.dirname(os.path.dirname(os.path.abspath(__file__)))
RUN = "import sys, shroud.main; sys.argv[0]='shroud'; shroud.main.main()"

def gen(root, yamls, out, extra):
    env = dict(os.environ, PYTHONPATH=root)
    os.makedirs(out)
    for d in ("cf", "py", "lua", "yaml", "log"):
        os.makedirs(os.path.join(out, d))
    args = ["/venv/bin/python", "-c", RUN] + yamls + ["--outdir-c-fortran", "cf", "--outdir-python", "py",
            "--outdir-lua", "lua", "--outdir-yaml", "yaml", "--logdir", "log"] + extra
    r = subprocess.run(args, cwd=out, env=env, capture_output=True, text=True)
    return r.returncode, (r.stderr.strip().splitlines() or [""])[-1][:150]

def tree(d):
    res = {}
    for base, _, files in os.walk(d):
        for f in files:
            p = os.path.join(base, f)
            if "/log/" in p or p.endswith(".log"):
                continue
            res[os.path.relpath(p, d)] = open(p, errors="replace").read()
    return res

def main(want):
    tmp = tempfile.mkdtemp(prefix="repro.")
    base = os.path.join(tmp, "base")
    subprocess.check_call(["git", "-C", "/repo", "worktree", "add", "--detach", "-q", base, "HEAD"])
    try:
        for patch in sorted(glob.glob(os.path.join(HERE, "seeded", "C??", "*", "patch.diff"))):
            prop, k = patch.split(os.sep)[-3:-1]
            if want and prop not in want:
                continue
            demo = open(os.path.join(os.path.dirname(patch), "demo.md")).read()
            blocks = re.findall(r"```ya?ml\n(.*?)```", demo, re.S)
            blocks = [b for b in blocks if re.search(r"^(library|declarations):", b, re.M)]
            if not blocks:
                print(prop, k, "no yaml block"); continue
            wt = os.path.join(tmp, "wt")
            subprocess.check_call(["git", "-C", "/repo", "worktree", "add", "--detach", "-q", wt, "HEAD"])
            subprocess.check_call(["git", "-C", wt, "apply", patch])
            verdict = "same"
            for bi, b in enumerate(blocks[:3]):
                for extra in ([], ["--option", "F_CFI=true"]):
                    outs = []
                    for name, root in (("b", base), ("a", wt)):
                        out = os.path.join(tmp, "o_%s" % name)
                        shutil.rmtree(out, ignore_errors=True)
                        os.makedirs(out)
                        shutil.rmtree(out)
                        yf = os.path.join(tmp, "in%d.yaml" % bi)
                        open(yf, "w").write(b)
                        rc, err = gen(root, [yf], out, extra)
                        outs.append((rc, err, tree(out)))
                    if outs[0][0] != outs[1][0]:
                        verdict = "exit %s -> %s (%s)" % (outs[0][0], outs[1][0], outs[1][1]); break
                    if outs[0][2] != outs[1][2]:
                        diff = sorted(f for f in set(outs[0][2]) | set(outs[1][2]) if outs[0][2].get(f) != outs[1][2].get(f))
                        verdict = "outputs differ: %s" % diff[:4]; break
                if verdict != "same":
                    break
            print(prop, k, verdict)
            subprocess.call(["git", "-C", "/repo", "worktree", "remove", "--force", wt])
    finally:
        subprocess.call(["git", "-C", "/repo", "worktree", "remove", "--force", base])
        subprocess.call(["git", "-C", "/repo", "worktree", "prune"])
        shutil.rmtree(tmp, ignore_errors=True)

if __name__ == "__main__":
    main(sys.argv[1:])
