"""Models of shroud's data tables, built from the *source text* only.

StatementTable   fc_statements / py_statements / lua_statements with the
                 semantics of statements.update_for_language +
                 update_stmt_tree + lookup_stmts_tree
TypeTable        typemap.initialize() literals with Typemap defaults
HelperTable      whelpers.CHelpers / FHelpers : static dicts + the entries
                 assigned inside the add_*_helper functions (wformat templates
                 kept unformatted)

The model re-checks the handful of facts about the real implementation it
relies on (see `check_model_assumptions`) so that a change of those functions
is reported as ANALYSIS-ERROR rather than silently mis-modelled.
"""
import ast
import itertools

from .consteval import Evaluator, LDict, LList, LStr, Unknown, is_unknown, contains_unknown
from .loader import AnalysisError


# --------------------------------------------------------------------------
# statement tables
# --------------------------------------------------------------------------

LANG_CLAUSES_FALLBACK = [
    "impl_header", "cxx_local_var", "declare", "post_parse",
    "pre_call", "post_call", "cleanup", "fail",
]


def language_clauses(repo):
    """The clause list of statements.update_for_language, read from source."""
    m = repo.module("statements")
    f = m.func("update_for_language")
    for node in ast.walk(f):
        if isinstance(node, ast.For) and isinstance(node.iter, ast.List):
            vals = []
            for e in node.iter.elts:
                if isinstance(e, ast.Constant) and isinstance(e.value, str):
                    vals.append(e.value)
            if vals:
                return vals
    raise AnalysisError("statements.update_for_language: clause list not found")


def expand_name(name):
    """a_b/c_d -> ['a_b_d', 'a_c_d'] (compute_stmt_permutations)."""
    parts = [p.split("/") for p in name.split("_")]
    return ["_".join(c) for c in itertools.product(*parts)]


class Resolved(object):
    """One expanded statement entry with inheritance applied."""

    def __init__(self, name, raw, chain, lang):
        self.name = name            # expanded name
        self.raw = raw              # LDict from the table
        self.chain = chain          # list of dicts, lowest priority first
        self.lang = lang

    def get(self, key, default=None):
        for d in reversed(self.chain):
            if key in d:
                return d[key]
        return default

    def origin(self, key):
        """The dict that provides key (for locations)."""
        for d in reversed(self.chain):
            if key in d:
                return d
        return None

    def keys(self):
        out = set()
        for d in self.chain:
            out.update(d.keys())
        return out

    def lines(self, key):
        v = self.get(key)
        if v is None:
            return []
        if isinstance(v, str):
            return [v]
        if isinstance(v, (list, tuple)):
            return [x for x in v if isinstance(x, str)]
        return []


class StatementTable(object):
    def __init__(self, repo, modname, varname, default_var="default_stmts"):
        self.repo = repo
        self.module = repo.module(modname)
        self.varname = varname
        ev = Evaluator(self.module)
        self.ev = ev
        raw = ev.eval(self.module.toplevel_assign(varname))
        if is_unknown(raw) or not isinstance(raw, list):
            raise AnalysisError("%s.%s is not an evaluable list literal: %r"
                                % (modname, varname, raw))
        self.entries = []
        for e in raw:
            if not isinstance(e, dict) or is_unknown(e.get("name", Unknown(None))):
                raise AnalysisError("%s.%s: entry without constant name at %s"
                                    % (modname, varname, self.module.loc(getattr(e, "node", raw.node))))
            self.entries.append(e)
        # default scopes
        dflt = ev.eval(self.module.toplevel_assign(default_var))
        if is_unknown(dflt) or not isinstance(dflt, dict):
            raise AnalysisError("%s.%s not evaluable" % (modname, default_var))
        self.defaults = dflt
        self.clauses = language_clauses(repo)
        self._resolved = {}

    def loc(self, entry):
        return self.module.loc(entry.node)

    def _lang_view(self, raw, lang):
        """dict after update_for_language(lang)."""
        pref = "c" if lang == "c" else "cxx"
        d = dict(raw)
        for clause in self.clauses:
            k = pref + "_" + clause
            if k in raw:
                d[clause] = raw[k]
        return d

    def resolve_all(self, lang):
        """{expanded name: Resolved}, following update_stmt_tree order."""
        if lang in self._resolved:
            return self._resolved[lang]
        nodes = {}        # name -> chain
        raws = {}
        out = {}
        for raw in self.entries:
            view = self._lang_view(raw, lang)
            for name in expand_name(str(raw["name"])):
                if name in nodes:
                    raise AnalysisError("duplicate statement key %s" % name)
                first = name.split("_")[0]
                if "base" in raw:
                    b = raw["base"]
                    if b not in nodes:
                        raise AnalysisError("statement %s: base %r not defined before use" % (name, b))
                    chain = list(nodes[b])
                else:
                    if first not in self.defaults:
                        raise AnalysisError("statement %s: no default scope for %r" % (name, first))
                    chain = [self.defaults[first]]
                    for mpart in raw.get("mixin", []) or []:
                        if mpart not in raws:
                            raise AnalysisError("statement %s: mixin %r not defined before use" % (name, mpart))
                        chain.append(raws[mpart])
                chain.append(view)
                nodes[name] = chain
                raws[name] = view
                out[name] = Resolved(name, raw, chain, lang)
        self._resolved[lang] = out
        return out

    def lookup(self, path, lang):
        """lookup_stmts_tree: longest-prefix walk; returns Resolved or None
        for the default scope."""
        res = self.resolve_all(lang)
        names = set(res)
        # tree membership: a step exists if some name has that prefix
        prefixes = set()
        for n in names:
            parts = n.split("_")
            for i in range(1, len(parts) + 1):
                prefixes.add(tuple(parts[:i]))
        found = None
        step = ()
        for part in path:
            if not part:
                continue
            nxt = step + (part,)
            if nxt not in prefixes:
                continue
            step = nxt
            n = "_".join(step)
            if n in names:
                found = res[n]
        return found


def check_model_assumptions(repo):
    """Facts about statements.py the table model relies on."""
    m = repo.module("statements")
    problems = []
    src_tree = m.seg(m.func("update_stmt_tree"))
    if 'split("_")' not in src_tree or 'split("/")' not in src_tree:
        problems.append("update_stmt_tree no longer splits on '_' and '/'")
    src_add = m.seg(m.func("add_statement_to_tree"))
    for needle in ('"base" in node', '"mixin" in node', "scope.update(node)"):
        if needle not in src_add:
            problems.append("add_statement_to_tree: %r not found" % needle)
    src_lk = m.seg(m.func("lookup_stmts_tree"))
    for needle in ("if not part", "part not in step", '"_node" in step'):
        if needle not in src_lk:
            problems.append("lookup_stmts_tree: %r not found" % needle)
    src_lang = m.seg(m.func("update_for_language"))
    if 'lang + "_" + clause' not in src_lang:
        problems.append("update_for_language: specific key construction changed")
    if problems:
        raise AnalysisError("statement-table model out of date: " + "; ".join(problems))


# --------------------------------------------------------------------------
# type table
# --------------------------------------------------------------------------

class TypeTable(object):
    HEADER_FIELDS = ("c_header", "cxx_header", "impl_header", "wrap_header")

    def __init__(self, repo):
        self.repo = repo
        m = repo.module("typemap")
        self.module = m
        cls = m.cls("Typemap")
        ev = Evaluator(m)
        order = None
        for node in cls.body:
            if isinstance(node, ast.Assign) and any(
                    isinstance(t, ast.Name) and t.id == "_order" for t in node.targets):
                order = ev.eval(node.value)
        if order is None or is_unknown(order):
            raise AnalysisError("typemap.Typemap._order not evaluable")
        self.defaults = {}
        for kv in order:
            self.defaults[str(kv[0])] = kv[1]
        f = m.func("initialize")
        deftypes = None
        for node in ast.walk(f):
            if isinstance(node, ast.Assign) and any(
                    isinstance(t, ast.Name) and t.id == "def_types" for t in node.targets):
                deftypes = ev.eval(node.value)
        if deftypes is None or is_unknown(deftypes) or not isinstance(deftypes, dict):
            raise AnalysisError("typemap.initialize: def_types literal not evaluable")
        self.types = {}
        for key, tm in deftypes.items():
            if not isinstance(tm, dict) or tm.ctor != "Typemap" or not tm.args:
                raise AnalysisError("typemap.initialize: %s is not a Typemap(...) literal" % key)
            name = str(tm.args[0])
            d = dict(self.defaults)
            for k, v in tm.items():
                if k in self.HEADER_FIELDS and isinstance(v, str):
                    v = v.split()
                d[k] = v
            d["name"] = name
            d["_key"] = key
            d["_node"] = tm.node
            d["_explicit"] = set(tm.keys())
            if d.get("cxx_type") and not d.get("flat_name"):
                d["flat_name"] = flatten_name(str(d["cxx_type"]))
            self.types[name] = d
        if len(self.types) < 25:
            raise AnalysisError("typemap.initialize: only %d typemaps found" % len(self.types))

    def loc(self, name):
        return self.module.loc(self.types[name]["_node"])

    def native(self):
        return {n: t for n, t in self.types.items() if t.get("sgroup") == "native"}


def flatten_name(name):
    return name.replace("::", "_").translate(str.maketrans("< ", "__", ">"))


# --------------------------------------------------------------------------
# helper tables
# --------------------------------------------------------------------------

class Template(LStr):
    """A string that is passed through wformat at run time."""
    is_template = True


class HelperTable(object):
    """CHelpers / FHelpers.

    static entries: module-level dict literal.
    dynamic entries: `CHelpers[<name>] = <dict or local bound to dict(...)>`
    inside functions; wformat(T, fmt) evaluates to Template(T); names built
    from non-constant parts become patterns with `{...}` placeholders.
    Entry values: dict with .node, key "_where" = function name or "<static>",
    "_templated" = set of keys whose value went through wformat.
    """

    def __init__(self, repo):
        self.repo = repo
        m = repo.module("whelpers")
        self.module = m
        self.c = {}
        self.f = {}
        ev = Evaluator(m)
        for var, dest in (("CHelpers", self.c), ("FHelpers", self.f)):
            v = ev.eval(m.toplevel_assign(var))
            if is_unknown(v) or not isinstance(v, dict):
                raise AnalysisError("whelpers.%s not an evaluable dict" % var)
            for k, e in v.items():
                if not isinstance(e, dict):
                    raise AnalysisError("whelpers.%s[%s] not a dict" % (var, k))
                e["_where"] = "<static>"
                e["_templated"] = set()
                dest[str(k)] = e
        for qual, fn in m.functions().items():
            if "." in qual:
                continue
            self._scan_function(fn)

    # -- tiny linear interpreter over helper-creating functions -------------
    def _scan_function(self, fn):
        m = self.module
        local = {}
        table = self

        class HEval(Evaluator):
            def _e_Call(self, node):
                name = self._call_name(node.func)
                if name == "wformat" and node.args:
                    t = self.eval(node.args[0])
                    if isinstance(t, str):
                        r = Template(str(t))
                        r.node = node
                        return r
                    return Unknown(node, "wformat of non-constant")
                if isinstance(node.func, ast.Attribute) and name == "format":
                    recv = self.eval(node.func.value)
                    if isinstance(recv, str):
                        # keep as template, escape nothing: positional {} become {?}
                        kw = {}
                        ok = True
                        for k in node.keywords:
                            if k.arg is None:
                                ok = False
                                break
                            v = self.eval(k.value)
                            kw[k.arg] = v
                        args = [self.eval(a) for a in node.args]
                        for i, a in enumerate(node.args):
                            if not isinstance(args[i], str) and isinstance(a, ast.Name):
                                ph = Template("{%s}" % a.id)
                                ph.node = a
                                args[i] = ph
                        for k in node.keywords:
                            if k.arg and not isinstance(kw[k.arg], str) and isinstance(k.value, ast.Name):
                                ph = Template("{%s}" % k.value.id)
                                ph.node = k.value
                                kw[k.arg] = ph
                        if (ok and not contains_unknown(args) and not contains_unknown(kw)
                                and not any(isinstance(x, Template) for x in list(args) + list(kw.values()))):
                            try:
                                r = LStr(str(recv).format(*args, **kw))
                                r.node = node
                                return r
                            except Exception:
                                pass
                        # partially known: substitute what is known, keep the rest
                        r = Template(_partial_format(str(recv), args, kw))
                        r.node = node
                        r.partial = True
                        return r
                if name in table._creators and not isinstance(node.func, ast.Attribute):
                    return table._creators[name]
                return Evaluator._e_Call(self, node)

            def _e_Attribute(self, node):
                # fmt.X -> "{X}" placeholder (a format field of the scope)
                if isinstance(node.value, ast.Name) and node.value.id in ("fmt", "fmtin"):
                    r = Template("{%s}" % node.attr)
                    r.node = node
                    return r
                return Evaluator._e_Attribute(self, node)

            def _e_BinOp(self, node):
                l = self.eval(node.left)
                r = self.eval(node.right)
                if isinstance(node.op, ast.Add) and isinstance(l, str) and isinstance(r, str):
                    if isinstance(l, Template) or isinstance(r, Template):
                        out = Template(str(l) + str(r))
                        out.node = node
                        return out
                if isinstance(node.op, ast.Add) and (isinstance(l, str) or isinstance(r, str)):
                    # "to_PyList_" + flat_name  -> pattern
                    def tostr(x, n):
                        if isinstance(x, str):
                            return str(x)
                        if isinstance(n, ast.Name):
                            return "{%s}" % n.id
                        return "{?}"
                    out = Template(tostr(l, node.left) + tostr(r, node.right))
                    out.node = node
                    return out
                return Evaluator._e_BinOp(self, node)

        ev = HEval(m, env=local)

        def visit(body):
            for st in body:
                if isinstance(st, ast.Assign) and len(st.targets) == 1:
                    t = st.targets[0]
                    if isinstance(t, ast.Name):
                        local[t.id] = ev.eval(st.value)
                    elif (isinstance(t, ast.Subscript) and isinstance(t.value, ast.Name)
                          and t.value.id in ("CHelpers", "FHelpers")):
                        key = ev.eval(t.slice)
                        val = ev.eval(st.value)
                        dest = self.c if t.value.id == "CHelpers" else self.f
                        if not isinstance(key, str):
                            raise AnalysisError("whelpers.%s: helper key not modelled at %s"
                                                % (fn.name, m.loc(st)))
                        if not isinstance(val, dict):
                            raise AnalysisError("whelpers.%s: helper value not modelled at %s"
                                                % (fn.name, m.loc(st)))
                        val = LDict(val) if not isinstance(val, LDict) else val
                        e = LDict(val)
                        e.node = getattr(val, "node", st)
                        e["_where"] = fn.name
                        e["_templated"] = set(k for k, v in val.items() if isinstance(v, Template))
                        e["_assign"] = st
                        dest[str(key)] = e
                elif isinstance(st, ast.If):
                    visit(st.body)
                    visit(st.orelse)
                elif isinstance(st, (ast.For, ast.While, ast.With, ast.Try)):
                    visit(getattr(st, "body", []))
                    visit(getattr(st, "orelse", []) or [])
                    visit(getattr(st, "finalbody", []) or [])
        visit(fn.body)

    _creators = {}

    def prepare_creators(self):
        pass


def _partial_format(template, args, kw):
    import string
    out = []
    auto = 0
    for lit, field, spec, conv in string.Formatter().parse(template):
        out.append(lit.replace("{", "{{").replace("}", "}}"))
        if field is None:
            continue
        val = None
        if field == "":
            if auto < len(args) and isinstance(args[auto], str):
                val = args[auto]
            auto += 1
        elif field.isdigit():
            i = int(field)
            if i < len(args) and isinstance(args[i], str):
                val = args[i]
        elif field in kw and isinstance(kw[field], str):
            val = kw[field]
        if val is not None and not isinstance(val, Template):
            out.append(str(val).replace("{", "{{").replace("}", "}}"))
        elif val is not None:
            out.append(str(val))
        else:
            out.append("{%s}" % (field or "?"))
    return "".join(out)


def build_helper_table(repo):
    """HelperTable with the helper-returning functions (create_to_PyList &c.)
    resolved: first pass collects `return helper` dicts of creator functions."""
    m = repo.module("whelpers")
    creators = {}
    # pass 1: functions that `return helper` where helper = dict(...)
    probe = HelperTable.__new__(HelperTable)
    probe.repo = repo
    probe.module = m
    probe.c = {}
    probe.f = {}
    HelperTable._creators = {}
    for qual, fn in m.functions().items():
        if "." in qual:
            continue
        rets = [n for n in ast.walk(fn) if isinstance(n, ast.Return) and isinstance(n.value, ast.Name)]
        if not rets:
            continue
        # evaluate the local the function returns, using the same interpreter
        tmp = HelperTable.__new__(HelperTable)
        tmp.repo = repo
        tmp.module = m
        tmp.c = {}
        tmp.f = {}
        # temporarily capture local by faking an assignment CHelpers["<ret>"] = name
        src_name = rets[-1].value.id
        fake = ast.parse("CHelpers['__ret__'] = %s" % src_name).body[0]
        ast.copy_location(fake, rets[-1])
        for n in ast.walk(fake):
            ast.copy_location(n, rets[-1])
        fn2 = ast.FunctionDef(name=fn.name, args=fn.args, body=list(fn.body[:-1]) + [fake],
                              decorator_list=[], returns=None, type_comment=None)
        ast.copy_location(fn2, fn)
        try:
            tmp._scan_function(fn2)
        except AnalysisError:
            continue
        if "__ret__" in tmp.c:
            e = tmp.c["__ret__"]
            e["_where"] = fn.name
            creators[fn.name] = e
    HelperTable._creators = creators
    table = HelperTable(repo)
    table.creators = creators
    return table


def helper_text(h, key):
    """Plain code of helper[key] (braces unescaped when the value went
    through wformat, layout marks removed).  '' when absent."""
    from . import templ
    v = h.get(key)
    if not isinstance(v, str):
        return ""
    if key in h.get("_templated", ()) or isinstance(v, Template):
        text = templ.unescape(str(v))
    else:
        text = str(v)
    return "\n".join(templ.strip_layout(l) for l in text.split("\n"))


def helper_sources(h, lang=None):
    """[(key, text)] of the source variants of a helper."""
    out = []
    for k in ("source", "c_source", "cxx_source"):
        if isinstance(h.get(k), str):
            if lang == "c" and k == "cxx_source":
                continue
            if lang == "c++" and k == "c_source":
                continue
            out.append((k, helper_text(h, k)))
    return out
